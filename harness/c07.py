"""C07 — generating pseudo data never alters the stored experimental / MC data; scrambling
changes only the documented fields.

Correspondence: a real LLHRatioAnalysis subclass (only the abstract llhratio construction is
a stub) on two synthetic data sets with narrow dtypes and extra user fields, the real
background generation methods, scrambling methods, MCMultiDatasetSignalGenerator,
TrialDataManager, driven through random sessions of API calls.  After every call the value
view of every root (exp, mc, _cache_mc, generated events, signal events, tdm.events), the
buffer-sharing relation (np.shares_memory) and the object identities are compared with
coq/model/M_Alias.v (vm_compute).  Random / numerical results are recorded by spies and
handed to the model as oracle arguments.
Predicates (independent of the model): byte snapshots of exp / mc before and after every
call; per scramble call: changed fields subset of the documented ones, length kept, RA range."""
import math
import struct

import numpy as np

from harness import common

GEN_MODULES = ['alias']
MODEL_TARGETS = ['model/M_Alias.vo']
PROOF_TARGETS = ['proofs/P_Alias.vo']
LEVEL = 'proof'
RULE = ('sessions of 1..6 API calls over {generate background, generate signal into events, generate signal only, '
        'do_trial_with_given_bkg_and_sig (merge), initialize_trial, evaluate, do_trial, unblind, drop} on two data sets; '
        'every background method x scrambling method, float32/float64 ra, index field / selection / aliasing data '
        'fields; plus calls in illegal order; a session is non-trivial when at least one call generated events; '
        'stub-RNG probes of the float32 narrowing at the range limits')
TRUSTED = [
    'Coq 8.16.1 kernel incl. vm_compute (no native_compute)',
    'theorems closed under the global context (no axioms)',
    'translator/py2coq.py for the 6 kernels of G_alias.v (range-limit tests and clip of UniformRAScramblingMethod, '
    'length tests/updates of DataFieldRecordArray); np.clip on integers added to the translator',
    'hand model M_Alias.v of the data flow (which call copies, which writes in place, which rebinds), validated on every '
    'run by this correspondence incl. the np.shares_memory relation',
    'oracle arguments of the model = values recorded from the implementation (drawn indices, new column values, argsort '
    'result, user data-field values): the theorems hold for ALL oracle values',
    'float narrowing modelled as round-to-nearest-even on IEEE bit patterns of non-negative normal numbers '
    '(bit-exact comparison with numpy on stub draws); RA range of the time based methods rests on azi_to_ra_transform (C19)',
    'numpy semantics of advanced indexing (copy) / np.append (new array) / item assignment (in place) as modelled',
]

IMPORTS = ('From Coq Require Import ZArith List. Import ListNotations. Open Scope Z_scope.\n'
           'From Sky Require Import Result M_Alias.\n')

FID = {'ra': 0, 'dec': 1, 'time': 2, 'azi': 3, 'zen': 4, 'sin_dec': 5, 'run': 6, 'ang_err': 7, 'log_energy': 8,
       'user_q': 9, 'true_ra': 10, 'true_dec': 11, 'true_energy': 12, 'mcweight': 13, 'mc_user': 14, 'bkg_prob': 16,
       'sin_true_dec': 15, 'pre_a': 20, 'stat_a': 21, 'stat_b': 22, 'gfp_w': 23, 'comp_gp': 30, 'comp_x': 31}
TWO_PI_BITS = 4618760256179416344


def fid(name):
    if name not in FID:
        FID[name] = 100 + len(FID)
    return FID[name]


def fbits(v):
    """IEEE-754 binary64 bit pattern, sign-magnitude (order preserving)"""
    b = struct.unpack('>Q', struct.pack('>d', float(v)))[0]
    if b >> 63:
        return -(b & ((1 << 63) - 1))
    return b


class Enc:
    """values -> small integers (per session); raw bit patterns of the model are mapped back"""
    def __init__(self):
        self.d = {0: 0}

    def v(self, x):
        b = fbits(x)
        if b not in self.d:
            self.d[b] = len(self.d)
        return self.d[b]

    def col(self, arr):
        return [self.v(x) for x in np.asarray(arr).tolist()]

    def canon(self, m):
        return self.d.get(m, m)


def zl(xs):
    return common.zlist(xs)


def bl(xs):
    return '[' + '; '.join('true' if b else 'false' for b in xs) + ']'


def nat(n):
    return f'{int(n)}%nat'


def fl(names):
    return '[' + '; '.join(nat(fid(n)) for n in names) + ']'


# ---------------------------------------------------------------------------- spies
LOG = []
_PATCHED = []


def install_spies():
    from skyllh.core.random import RandomChoice
    from skyllh.core.storage import DataFieldRecordArray
    from skyllh.core.signal_generator import MCMultiDatasetSignalGenerator
    if _PATCHED:
        return
    o1 = RandomChoice.__call__

    def choice(self, rss, size):
        r = o1(self, rss, size)
        LOG.append(('choice', np.array(r, copy=True)))
        return r
    RandomChoice.__call__ = choice
    o2 = DataFieldRecordArray.sort_by_field

    def sort_by_field(self, name):
        r = o2(self, name)
        LOG.append(('sort', name, np.array(r, copy=True)))
        return r
    DataFieldRecordArray.sort_by_field = sort_by_field
    o3 = MCMultiDatasetSignalGenerator._get_invalid_events_mask

    def inv(self, events, d):
        r = o3(self, events, d)
        LOG.append(('invalid', np.array(r, copy=True)))
        return r
    MCMultiDatasetSignalGenerator._get_invalid_events_mask = inv
    _PATCHED.extend([(RandomChoice, '__call__', o1), (DataFieldRecordArray, 'sort_by_field', o2),
                     (MCMultiDatasetSignalGenerator, '_get_invalid_events_mask', o3)])


def remove_spies():
    while _PATCHED:
        cls, name, orig = _PATCHED.pop()
        setattr(cls, name, orig)


class SpyRandom(np.random.RandomState):
    def uniform(self, *a, **k):
        r = super().uniform(*a, **k)
        LOG.append(('uniform', np.array(r, copy=True)))
        return r


DOC = {'uniform': ['ra'], 'i3time': ['time', 'ra'], 'seasonal': ['time', 'ra'], 'coretime': ['time', 'ra', 'dec']}


def table_bytes(t):
    return ([str(n) for n in t.field_name_list],
            {n: (str(t[n].dtype), t[n].tobytes()) for n in t.field_name_list}, len(t))


def wrap_scramble(ctx, method, kind, ra_range):
    """spy + predicate on one scrambling method instance"""
    orig = method.scramble

    def scramble(rss, dataset, data):
        before = table_bytes(data)
        n0 = len(LOG)
        azi0 = np.array(data['azi'], copy=True) if 'azi' in data else None
        zen0 = np.array(data['zen'], copy=True) if 'zen' in data else None
        r = orig(rss=rss, dataset=dataset, data=data)
        after = table_bytes(r)
        draws = None
        for e in LOG[n0:]:
            if e[0] == 'uniform' and kind == 'uniform':
                draws = e[1]
        cols = {f: np.array(r[f], copy=True) for f in DOC[kind]}
        if kind in ('i3time', 'seasonal', 'coretime') and azi0 is not None:
            # the oracle handed to the model is the output of the REAL coordinate transform on the old azimuths and
            # the drawn times - not the stored column read back (C07_time_ra_in_range would be circular otherwise)
            from skyllh.i3.utils.coords import azi_to_ra_transform, hor_to_equ_transform
            tt = np.array(r['time'], dtype=np.float64, copy=True)
            if kind == 'coretime' and zen0 is not None:
                (cols['ra'], cols['dec']) = hor_to_equ_transform(azi0, zen0, tt)
            else:
                cols['ra'] = azi_to_ra_transform(azi0, tt)
        LOG.append(('scr', kind, cols, draws, str(before[1]['ra'][0])))
        ctx.count('scramble:' + kind)
        # ---- predicate: frame of the scrambling
        changed = [f for f in before[0] if f not in after[1] or after[1][f] != before[1][f]]
        bad = [f for f in changed if f not in DOC[kind]]
        case = {'kind': 'scramble', 'method': kind, 'fields': before[0]}
        if r is not data:
            ctx.violation('scramble:' + kind, 'not-in-place', 'scramble returned a different object', case=case)
        if bad or [f for f in before[0] if f not in after[0]]:
            ctx.violation('scramble:' + kind, 'undocumented-field-changed', f'fields changed: {changed}', case=case,
                          impl=changed, predicate='changed fields subset of ' + str(DOC[kind]))
        if after[2] != before[2] or any(len(r[f]) != before[2] for f in after[0]):
            ctx.violation('scramble:' + kind, 'length-changed', f'{before[2]} -> {after[2]}', case=case)
        lo, hi = ra_range if kind == 'uniform' else (0.0, 2 * math.pi)
        ra = [float(x) for x in r['ra']]
        if any(not (lo <= x < hi) for x in ra):
            ctx.violation('scramble:' + kind, 'ra-out-of-range', f'ra outside [{lo}, {hi})',
                          case=dict(case, ra_range=[lo, hi], ra=[x.hex() for x in ra if not (lo <= x < hi)][:5]),
                          predicate='lo <= ra < hi')
        return r
    method.scramble = scramble


# ---------------------------------------------------------------------------- the analysis under test
def make_tables(rng, n, mc, ra_dt):
    from skyllh.core.storage import DataFieldRecordArray as DFRA
    r = np.random.RandomState(rng.randrange(2 ** 31))
    d = dict(
        run=np.arange(100, 100 + n).astype(np.int64),
        ra=r.uniform(0.1, 6.2, n).astype(ra_dt),
        dec=r.uniform(-1.2, 1.2, n).astype(np.float32),
        sin_dec=r.uniform(-1, 1, n),
        ang_err=r.uniform(0.01, 0.1, n).astype(np.float32),
        time=58000 + r.permutation(n) * 0.5 + r.uniform(0, 0.25, n),
        azi=r.uniform(0.1, 6.2, n).astype(np.float32),
        zen=r.uniform(0.1, 3, n).astype(np.float32),
        log_energy=r.uniform(2, 6, n).astype(np.float32),
        user_q=r.randint(-300, 300, n).astype(np.int16))
    if n >= 4:
        j, k2 = r.choice(n, 2, replace=False)
        d['time'][j] = d['time'][k2]                     # duplicated time stamp
    if mc:
        d.update(true_ra=r.uniform(0.1, 6.2, n), true_dec=r.uniform(-1.2, 1.2, n),
                 true_energy=r.uniform(100, 1e5, n), mcweight=r.uniform(1, 2, n),
                 mc_user=r.randint(0, 100, n).astype(np.int16))
        d['sin_true_dec'] = np.sin(d['true_dec'])
        w_ = r.uniform(0.5, 1.5, n)
        # a pre-computed user field, normalised only within the tolerance RandomChoice accepts (sum = 1 + 1e-4)
        d['bkg_prob'] = (w_ / w_.sum() * (1 + 1e-4)).astype(np.float32)
    return DFRA(d, copy=False)


class Setup:
    pass


def build(ctx, cfgd, enc=None, case=None):
    """build the real objects for one session from the configuration dict `cfgd`"""
    import random as pyrandom
    from skyllh.core.config import Config
    from skyllh.core.dataset import Dataset, DatasetData
    from skyllh.core.datafields import DataFields, DataFieldStages as DFS
    from skyllh.core.scrambling import DataScrambler, UniformRAScramblingMethod, TimeScramblingMethod
    from skyllh.core.times import TimeGenerator, TimeGenerationMethod
    from skyllh.i3.scrambling import I3TimeScramblingMethod, I3SeasonalVariationTimeScramblingMethod
    from skyllh.i3.utils.coords import hor_to_equ_transform
    from skyllh.i3.background_generation import FixedScrambledExpDataI3BkgGenMethod
    from skyllh.core.background_generation import MCDataSamplingBkgGenMethod, CompositeMCDataSamplingBkgGenMethod
    from skyllh.core.background_generator import DatasetBackgroundGenerator
    from skyllh.core.signal_generator import MCMultiDatasetSignalGenerator
    from skyllh.i3.signal_generation import PointLikeSourceI3SignalGenerationMethod
    from skyllh.core.source_hypo_grouping import SourceHypoGroup, SourceHypoGroupManager
    from skyllh.core.source_model import PointLikeSource
    from skyllh.core.flux_model import SteadyPointlikeFFM, PowerLawEnergyFluxProfile
    from skyllh.core.trialdata import TrialDataManager
    from skyllh.core.analysis import LLHRatioAnalysis
    from skyllh.core.llhratio import LLHRatio
    from skyllh.core.parameters import ParameterModelMapper, Parameter
    from skyllh.core.test_statistic import TestStatistic
    from skyllh.core.pdfratio import PDFRatio
    from skyllh.core.detsigyield import DetSigYieldBuilder
    from skyllh.core.services import DatasetSignalWeightFactorsService
    from skyllh.core.event_selection import EventSelectionMethod, AllEventSelectionMethod

    S = Setup()
    S.cfgd = cfgd
    rng = pyrandom.Random(cfgd['seed'])
    cfg = Config()
    S.cfg_fields = DataFields.get_joint_names(datafields=cfg['datafields'], stages=(DFS.ANALYSIS_EXP))

    # the REAL PointLikeSourceI3SignalGenerationMethod incl. calc_source_signal_mc_event_flux (reads data.mc)
    S.sig_gen_method = PointLikeSourceI3SignalGenerationMethod(src_sin_dec_half_bandwidth=0.9)
    orig_post = S.sig_gen_method.signal_event_post_sampling_processing

    def post(shg, meta, ev):
        r = orig_post(shg, meta, ev)
        LOG.append(('post', np.array(meta['shg_src_idx'], copy=True),
                    {f: np.array(r[f], copy=True) for f in ('ra', 'dec', 'sin_dec')}))
        return r
    S.sig_gen_method.signal_event_post_sampling_processing = post

    class LLH(LLHRatio):
        """dispatcher over one REAL ZeroSigH0SingleDatasetTCLLHRatio per data set (real MultiDimGrid PDFs, real
        SigOverBkgPDFRatio, real minimizer); only the combination over data sets is this thin loop"""
        def __init__(self, pmm, ana):
            self._pmm = pmm
            self._ana = ana
            self.mean_n_sig_0 = 0
            self.real = []

        def initialize_for_new_trial(self, tl=None, **kw):
            for r in self.real:
                r.initialize_for_new_trial(tl=tl)

        def evaluate(self, fitparam_values, src_params_recarray=None, tl=None):
            s = 0.
            for (i, r) in enumerate(self.real):
                S.eval_ds = i
                if r.tdm.events is None:
                    raise AttributeError('no trial data')
                with np.errstate(all='ignore'):
                    (ll, g) = r.evaluate(fitparam_values)
                s += float(ll)
            return (s, np.zeros(len(fitparam_values)))

        def maximize(self, rss, tl=None):
            # the maximisation is replaced by real evaluations at three fixed parameter points (the minimiser only
            # handles the fit parameter vector; tiny synthetic samples make it thrash)
            s = 0.
            for fp in (np.array([0.3, 2.0]), np.array([0.6, 2.5]), np.array([0.3, 3.0])):
                (s, g) = self.evaluate(fp)
            return (s, np.array([0.3, 3.0]), {})

    class TS(TestStatistic):
        def __call__(self, pmm, log_lambda, fitparam_values, **kw):
            return log_lambda

    class PR(PDFRatio):
        def __init__(self):
            pass

        def initialize_for_new_trial(self, **kw):
            pass

        def get_ratio(self, *a, **k):
            pass

        def get_gradient(self, *a, **k):
            pass

    class Ana(LLHRatioAnalysis):
        def construct_llhratio(self, minimizer=None, ppbar=None):
            return LLH(self._pmm, self)

    class DB(DetSigYieldBuilder):
        def construct_detsigyield(self, *a, **k):
            raise NotImplementedError

    class WS(DatasetSignalWeightFactorsService):
        def __init__(self):
            pass

    class TG(TimeGenerationMethod):
        def generate_times(self, rss, size):
            return 58000. + rss.random.uniform(0, 100, size)

    class MaskESM(EventSelectionMethod):
        """selects the events with dec above a threshold (a real selection: new arrays)"""
        def __init__(self, shg_mgr, thr, log):
            super().__init__(shg_mgr=shg_mgr)
            self.thr = thr
            self.log = log

        def change_shg_mgr(self, shg_mgr):
            pass

        def sources_to_array(self, sources):
            return None

        def select_events(self, events, src_evt_idxs=None, ret_original_evt_idxs=False, tl=None):
            idxs = np.nonzero(events['dec'] > self.thr)[0]
            LOG.append((self.log, np.array(idxs, copy=True)))
            sel = events[idxs]
            n_sources = self.shg_mgr.n_sources
            out = (np.repeat(np.arange(n_sources), len(sel)), np.tile(np.arange(len(sel)), n_sources))
            if ret_original_evt_idxs:
                return (sel, out, idxs)
            return (sel, out)

    sources = [PointLikeSource(ra=1., dec=0.1), PointLikeSource(ra=3., dec=-0.4)]
    fm = SteadyPointlikeFFM(Phi0=1, energy_profile=PowerLawEnergyFluxProfile(E0=1000, gamma=2, cfg=cfg), cfg=cfg)
    shg_mgr = SourceHypoGroupManager(SourceHypoGroup(sources=sources, fluxmodel=fm, detsigyield_builders=DB(cfg=cfg),
                                                     sig_gen_method=S.sig_gen_method))
    pmm = ParameterModelMapper(models=sources)
    pmm.map_param(Parameter('ns', 1, 0, 100))
    pmm.map_param(Parameter('gamma', 2.0, 1.0, 4.0), models=sources)
    S.eval_ds = 0
    valid = [dict(), dict()]
    if cfgd['valid_range']:
        valid = [{'dec': (-0.25, 1.6)}, {'dec': (-0.25, 1.6)}]

    class SG(MCMultiDatasetSignalGenerator):
        def __init__(self, **kw):
            super().__init__(valid_event_field_ranges_dict_list=valid, **kw)
    S.datas, S.methods, S.mkinds, S.scr_kinds, S.tdmcfg, S.esm = [], [], [], [], [], []
    S.ra_k, S.ra_range = [], []
    S.cons_ops = []
    # ---- the stored data exist BEFORE any method / generator / analysis object is constructed
    dss = []
    for i in range(2):
        dc = cfgd['ds'][i]
        ra_dt = np.float32 if dc['ra32'] else np.float64
        ds = Dataset(cfg=cfg, name='D%d' % i, exp_pathfilenames=None, mc_pathfilenames=None, livetime=10.,
                     default_sub_path_fmt='', version=1)
        data = DatasetData(data_exp=make_tables(rng, dc['n_exp'], False, ra_dt),
                           data_mc=make_tables(rng, dc['n_mc'], True, ra_dt), livetime=10.)
        from skyllh.i3.dataset import I3DatasetData
        from skyllh.core.storage import DataFieldRecordArray as DFRA_
        ts = sorted(set(float(x) for x in data.exp['time']))
        inner = [ts[len(ts) // 3], ts[(2 * len(ts)) // 3]] if len(ts) >= 3 else [58001.0, 58002.5]
        if inner[0] == inner[1]:
            inner[1] = inner[0] + 0.125
        edges = [57999.0] + inner + [58010.0]
        grl = DFRA_({'run': np.arange(3, dtype=np.int64) + 120000, 'start': np.array(edges[:-1]),
                     'stop': np.array(edges[1:]), 'livetime': np.diff(np.array(edges))}, copy=False)
        data = I3DatasetData(data, grl)
        dss.append(ds)
        S.datas.append(data)
    S.snap0 = snapshot(S)
    if enc is not None:
        S.exps_term = '[' + '; '.join(table_term(enc, d.exp) for d in S.datas) + ']'
        S.mcs_term = '[' + '; '.join(table_term(enc, d.mc) for d in S.datas) + ']'

    def checkpoint(step):
        """predicate: construction is an operation too"""
        ctx.count('construct:' + step)
        snap = snapshot(S)
        if snap != S.snap0:
            which = [('exp', 'mc', 'grl')[j] + str(i2) for i2 in range(2) for j in range(3)
                     if snap[i2][j] != S.snap0[i2][j]]
            ctx.violation('construct:' + step, 'dataset-array-changed', f'{which} changed by constructing {step}',
                          case=case, impl=which, predicate='bytes, dtypes, field list and order of exp/mc unchanged')
            S.snap0 = snap
    S.checkpoint = checkpoint
    ana = Ana(shg_mgr=shg_mgr, pmm=pmm, test_statistic=TS(), sig_generator_cls=SG, cfg=cfg)
    checkpoint('analysis')
    for i in range(2):
        dc = cfgd['ds'][i]
        ds = dss[i]
        data = S.datas[i]
        sk = dc['scr']
        ra_range = tuple(dc['ra_range']) if dc['ra_range'] else (0.0, 2 * math.pi)
        if sk == 'uniform':
            m = UniformRAScramblingMethod(ra_range=tuple(dc['ra_range']) if dc['ra_range'] else None)
        elif sk == 'i3time':
            m = I3TimeScramblingMethod(TimeGenerator(TG()))
        elif sk == 'coretime':
            m = TimeScramblingMethod(timegen=TimeGenerator(TG()), hor_to_equ_transform=hor_to_equ_transform)
        elif sk == 'seasonal':
            # oracle-free: the run masks are recomputed here from the stored column (independent of the code)
            tcol = np.array(data.exp['time'], copy=True)
            masks = [((tcol >= a) & (tcol < b)).tolist() for a, b in zip(data.grl['start'], data.grl['stop'])]
            m = I3SeasonalVariationTimeScramblingMethod(data)
            S.cons_ops.append(f"ConsSeasonal {nat(i)} [{'; '.join(bl(mk_) for mk_ in masks)}]")
            cnt = np.array([sum(mk_) for mk_ in masks], dtype=np.float64)
            if cnt.sum() > 0 and not np.allclose(m.run_weights, cnt / cnt.sum(), rtol=1e-12, atol=0):
                ctx.violation('construct:scrambling-method:seasonal', 'wrong-run-weights', 'run weights differ from the '
                              'fraction of events in [start, stop)', case=case, impl=m.run_weights.tolist(),
                              model=(cnt / cnt.sum()).tolist())
        else:
            m = None
        if m is not None:
            checkpoint('scrambling-method:' + sk)
            wrap_scramble(ctx, m, sk, ra_range)
        scr = DataScrambler(m) if m is not None else None
        mk = dc['bkg']
        if mk == 'fixed':
            meth = FixedScrambledExpDataI3BkgGenMethod(data_scrambler=scr, cfg=cfg)
        else:
            pre = None
            if dc['presel'] == 'all':
                pre = AllEventSelectionMethod(shg_mgr)
            elif dc['presel'] == 'mask':
                pre = MaskESM(shg_mgr, -0.6, 'presel')
            if dc.get('prob') == 'stored' and dc['presel'] != 'mask':
                # the callback hands out a STORED field of data.mc (arguments are inputs; seeded C07-8)
                def prob_func(dataset, data, events):
                    return data.mc['bkg_prob']
            else:
                def prob_func(dataset, data, events):
                    return np.ones(len(events)) / max(len(events), 1)
            kw = dict(get_event_prob_func=prob_func,
                      get_mean_func=lambda dataset, data, events: float(dc['mean']),
                      data_scrambler=scr, keep_mc_data_fields=['mcweight', 'mc_user'],
                      pre_event_selection_method=pre, cfg=cfg)
            if mk == 'mc':
                meth = MCDataSamplingBkgGenMethod(**kw)
            else:
                comps = {'comp_gp': (lambda dataset, data, events: np.cos(events['dec']).astype(np.float64)),
                         'comp_x': (lambda dataset, data, events: events['mcweight'] * 2.0)}
                if dc.get('comps') == 'none':
                    comps = {}                  # no component: the composite method must still work on a copy
                meth = CompositeMCDataSamplingBkgGenMethod(bkg_component_rate_calc_func_dict=comps, **kw)
        checkpoint('bkg-method:' + mk)
        S.methods.append(meth)
        S.mkinds.append(mk)
        S.scr_kinds.append(sk if m is not None else None)
        S.ra_k.append(29 if dc['ra32'] else 0)
        S.ra_range.append(ra_range)
        tc = dc['tdm']
        tdm = TrialDataManager(index_field_name=tc['index'])
        def logged(kind, nm, f):
            def g(tdm, shg_mgr, pmm):
                r = f(tdm)
                LOG.append((kind, nm, np.array(r, copy=True)))
                return r
            return g
        if tc['pre']:
            if tc['pre'] == 'badlen':
                tdm.add_data_field('pre_a', logged('pre', 'pre_a', lambda t: np.zeros(len(t.events) + 1)), pre_evt_sel=True)
            else:
                tdm.add_data_field('pre_a', logged('pre', 'pre_a', lambda t: np.sin(t.get_data('dec')).astype(np.float64)),
                                   pre_evt_sel=True)
        for nm, kind in tc['static']:
            if kind == 'alias':
                tdm.add_data_field(nm, lambda tdm, shg_mgr, pmm: tdm.get_data('ra'))
            elif kind == 'over':
                tdm.add_data_field('sin_dec', logged('stat', 'sin_dec', lambda t: np.sin(t.get_data('dec')).astype(np.float64)))
            else:
                tdm.add_data_field(nm, logged('stat', nm, lambda t: (t.get_data('log_energy') * 2).astype(np.float64)))
        if tc.get('gfp'):
            def mk_gfp(i_):
                def gfp_func(tdm, shg_mgr, pmm, global_fitparams_dict=None):
                    r = (tdm.get_data('log_energy') * 0.5 + global_fitparams_dict['gamma']).astype(np.float64)
                    LOG.append(('gfp', i_, np.array(r, copy=True)))
                    return r
                return gfp_func
            tdm.add_data_field('gfp_w', mk_gfp(i), global_fitparam_names=['gamma'])
        S.tdmcfg.append(tc)
        checkpoint('trial-data-manager')
        S.tdms = getattr(S, 'tdms', []) + [tdm]
        esm = None
        if tc['esm'] == 'all':
            esm = AllEventSelectionMethod(shg_mgr)
        elif tc['esm'] == 'mask':
            esm = MaskESM(shg_mgr, -0.9, 'esm')
        ana.add_dataset(ds, data, PR(), tdm=tdm, event_selection_method=esm,
                        bkg_generator=DatasetBackgroundGenerator(dataset=ds, data=data, bkg_gen_method=meth, cfg=cfg))
        checkpoint('add_dataset')
    ana._ds_sig_weight_factors_service = WS()
    ana.llhratio = ana.construct_llhratio()
    from skyllh.core.binning import BinningDefinition
    from skyllh.core.signalpdf import SignalMultiDimGridPDF
    from skyllh.core.backgroundpdf import BackgroundMultiDimGridPDF
    from skyllh.core.pdfratio import SigOverBkgPDFRatio
    from skyllh.core.llhratio import ZeroSigH0SingleDatasetTCLLHRatio
    from skyllh.core.minimizer import Minimizer, LBFGSMinimizerImpl
    for i in range(2):
        bx = BinningDefinition('log_energy', np.linspace(1.5, 6.5, 11))

        def ones(pdf, tdm, params_recarray, eventdata, evt_mask=None):
            n = eventdata.shape[1] if evt_mask is None else int(np.count_nonzero(evt_mask))
            return np.ones((n,))
        sp = SignalMultiDimGridPDF(pmm=pmm, axis_binnings=[bx], pdf_grid_data=np.linspace(1.0, 2.0, 11) * (1 + 0.1 * i),
                                   norm_factor_func=ones, cache_pd_values=False, cfg=cfg)
        bp = BackgroundMultiDimGridPDF(pmm=pmm, axis_binnings=[bx], pdf_grid_data=np.linspace(2.0, 1.0, 11),
                                       norm_factor_func=ones, cache_pd_values=False, cfg=cfg)
        checkpoint('pdfs')
        ratio = SigOverBkgPDFRatio(sig_pdf=sp, bkg_pdf=bp, cfg=cfg)
        ana._llhratio.real.append(ZeroSigH0SingleDatasetTCLLHRatio(
            pmm=pmm, minimizer=Minimizer(LBFGSMinimizerImpl(cfg=cfg)), shg_mgr=shg_mgr, tdm=S.tdms[i],
            pdfratio=ratio, cfg=cfg))
        checkpoint('dataset-llhratio')
    checkpoint('llhratio')
    ana.construct_background_generator()
    checkpoint('background-generator')
    ana.construct_signal_generator()
    checkpoint('signal-generator')
    cand = ana._sig_generator._sig_candidates
    for i in range(2):
        S.cons_ops.append(f"ConsSigCand {nat(i)} {zl(cand['ev_idx'][cand['ds_idx'] == i].tolist())}")
    # capture the events handed to do_trial_with_given_pseudo_data (do_trial keeps them internal)
    S.captured = {}
    orig_dt = ana.do_trial_with_given_pseudo_data

    def dt(*a, **k):
        S.captured['events_list'] = k.get('events_list')
        S.captured['n_events_list'] = k.get('n_events_list')
        return orig_dt(*a, **k)
    ana.do_trial_with_given_pseudo_data = dt
    S.ana = ana
    S.events = [None, None]
    S.n_events = [0, 0]
    S.sig = {}
    S.n_sig = 0
    return S


# ---------------------------------------------------------------------------- oracle -> model operations
class Trace:
    def __init__(self, log):
        self.log = list(log)
        self.pos = 0

    def next(self, kind):
        while self.pos < len(self.log):
            e = self.log[self.pos]
            self.pos += 1
            if e[0] == kind:
                return e
        return None

    def peek_is(self, kind, skip=('uniform',)):
        p = self.pos
        while p < len(self.log) and self.log[p][0] in skip:
            p += 1
        return p < len(self.log) and self.log[p][0] == kind


def scr_term(S, enc, i, tr):
    sk = S.scr_kinds[i]
    if sk is None:
        return 'ScrNone'
    e = tr.next('scr')
    if e is None:
        return 'ScrNone'
    cols = e[2]
    if sk == 'uniform':
        draws = e[3] if e[3] is not None else []
        lo, hi = S.ra_range[i]
        k = 29 if 'float32' in e[4] else 0
        return f'(ScrUniform {k} {fbits(lo)} {fbits(hi)} {zl([fbits(x) for x in np.asarray(draws).tolist()])})'
    if sk in ('i3time', 'seasonal'):
        return f"({'ScrI3Time' if sk == 'i3time' else 'ScrSeasonal'} {zl(enc.col(cols['time']))} {zl(enc.col(cols['ra']))})"
    return f"(ScrTime {zl(enc.col(cols['time']))} {zl(enc.col(cols['ra']))} {zl(enc.col(cols['dec']))})"


def ops_bkg(S, enc, tr, was_cached):
    ops = []
    for i in range(2):
        mk = S.mkinds[i]
        dc = S.cfgd['ds'][i]
        if mk == 'fixed':
            ops.append(f'GenBkgFixed {nat(i)} {scr_term(S, enc, i, tr)}')
            continue
        keep = fl(['mcweight', 'mc_user'])
        cfgf = fl(S.cfg_fields)

        def presel_term():
            if dc['presel'] == 'mask':
                e = tr.next('presel')
                return f'(Some (SIdx {zl(e[1].tolist() if e else [])}))'
            return 'None'
        if mk == 'mc':
            ps = 'None' if was_cached[i] else presel_term()
            e = tr.next('choice')
            idx = e[1].tolist() if e else []
            ops.append(f'GenBkgMC {nat(i)} {cfgf} {keep} {ps} {zl(idx)} {scr_term(S, enc, i, tr)}')
        else:
            scr = scr_term(S, enc, i, tr)
            # rates are computed on the scrambled copy: read them from the spy free functions again
            comps = S.last_comps[i]
            ps = presel_term()
            e = tr.next('choice')
            idx = e[1].tolist() if e else []
            cterm = '[' + '; '.join(f'({nat(fid(n))}, {zl(enc.col(v))})' for n, v in comps) + ']'
            ops.append(f'GenBkgComp {nat(i)} {cfgf} {keep} {scr} {cterm} {ps} {zl(idx)}')
    return ops


def post_term(enc, e):
    src = e[1]
    out = []
    for k in np.unique(src):
        m = (src == k)
        out.append(f"({bl(m.tolist())}, ({zl(enc.col(e[2]['ra'][m]))}, {zl(enc.col(e[2]['dec'][m]))}, "
                   f"{zl(enc.col(e[2]['sin_dec'][m]))}))")
    return '[' + '; '.join(out) + ']'


def ops_sig(S, enc, tr):
    """GenSig operations for the data sets that received signal events (dict order = ascending ds_idx)"""
    ops = []
    e = tr.next('choice')
    if e is None:
        return ops, []
    meta = e[1]
    dss = [int(d) for d in np.unique(meta['ds_idx'])]
    for ds in dss:
        dm = meta['ds_idx'] == ds
        n = int(np.count_nonzero(dm))
        groups = []
        for shg in np.unique(meta[dm]['shg_idx']):
            gm = dm & (meta['shg_idx'] == shg)
            idx = meta[gm]['ev_idx'].tolist()
            pe = tr.next('post')
            ie = tr.next('invalid')
            inv = ie[1].tolist()
            rounds = []
            need = int(np.count_nonzero(ie[1]))
            got = 0
            while need > 0 and got < need:
                ce = tr.next('choice')
                if ce is None:
                    break
                m2 = ce[1]
                m2 = m2[(m2['ds_idx'] == ds) & (m2['shg_idx'] == shg)]
                ridx = m2['ev_idx'].tolist()
                if len(ridx) > 0:
                    pe2 = tr.next('post')
                    ie2 = tr.next('invalid')
                    validm = np.invert(ie2[1])
                    rounds.append(f'({zl(ridx)}, ({post_term(enc, pe2)}, {bl(validm.tolist())}))')
                    got += int(np.count_nonzero(validm))
                else:
                    rounds.append(f'({zl(ridx)}, ([], []))')
            groups.append(f"(mkG {zl(idx)} {post_term(enc, pe)} {bl(inv)} [{'; '.join(rounds)}])")
        ops.append(f"GenSig {nat(ds)} {nat(n)} 0 [{'; '.join(groups)}]")
    return ops, dss


def ops_eval(S, enc, log):
    """evaluation / maximisation of both data sets: what the real evaluation wrote into tdm.events (the global fit
    parameter dependent data fields), in order"""
    ops = []
    for i in range(2):
        w = [f"({nat(fid('gfp_w'))}, FFresh {zl(enc.col(e[2]))})" for e in log if e[0] == 'gfp' and e[1] == i]
        ops.append(f"Evaluate {nat(i)} [{'; '.join(w)}]")
    return ops


def ops_init(S, enc, tr, unblind=False):
    """the stages of TrialDataManager.initialize_trial for both data sets; oracle values come from the spies
    (data field functions, selection, argsort)"""
    ops = []
    for i in range(2):
        tc = S.tdmcfg[i]
        ops.append(f'UnblindCopy {nat(i)}' if unblind else f'InitSet {nat(i)}')
        pre = []
        if tc['pre']:
            e = tr.next('pre')
            pre = [f"({nat(fid('pre_a'))}, FFresh {zl(enc.col(e[2]) if e else [])})"]
        ops.append(f"InitPre {nat(i)} [{'; '.join(pre)}]")
        if tc['esm'] == 'mask':
            e = tr.next('esm')
            ops.append(f"InitSelect {nat(i)} (ESSel (SIdx {zl(e[1].tolist() if e else [])}))")
        else:
            ops.append(f"InitSelect {nat(i)} {'ESAll' if tc['esm'] == 'all' else 'ESNone'}")
        srt = 'None'
        if tc['index']:
            e = tr.next('sort')
            srt = f"(Some ({nat(fid(tc['index']))}, {zl(e[2].tolist() if e else [])}))"
        st = []
        for nm, kind in tc['static']:
            name = 'sin_dec' if kind == 'over' else nm
            if kind == 'alias':
                st.append(f"({nat(fid(name))}, FAlias {nat(fid('ra'))})")
            else:
                e = tr.next('stat')
                st.append(f"({nat(fid(name))}, FFresh {zl(enc.col(e[2]) if e else [])})")
        ops.append(f"InitFinish {nat(i)} {srt} [{'; '.join(st)}]")
    return ops


# ---------------------------------------------------------------------------- observation of the implementation
def impl_roots(S):
    roots = [[d.exp for d in S.datas], [d.mc for d in S.datas],
             [getattr(m, '_cache_mc', None) for m in S.methods],
             list(S.events), [S.sig.get(i) for i in range(2)],
             [t.events for t in S.ana._tdm_list]]
    return roots


def observe_impl(S, enc):
    roots = impl_roots(S)
    views = []
    entries = []   # (kind, ds, fid, array)
    for k, row in enumerate(roots):
        vr = []
        for i, t in enumerate(row):
            if t is None:
                vr.append(None)
                continue
            vr.append(([(fid(n), enc.col(t[n])) for n in t.field_name_list], len(t)))
            for n in t.field_name_list:
                entries.append(((k, i, fid(n)), t[n]))
        views.append(vr)
    # sharing relation between non-empty columns
    share = set()
    info = []
    for key, a in entries:
        if a.size == 0:
            info.append(None)
            continue
        p = a.__array_interface__['data'][0]
        info.append((p, p + a.nbytes))
    for x in range(len(entries)):
        if info[x] is None:
            continue
        for y in range(x + 1, len(entries)):
            if info[y] is None:
                continue
            if info[x][0] < info[y][1] and info[y][0] < info[x][1] and np.shares_memory(entries[x][1], entries[y][1]):
                share.add((entries[x][0], entries[y][0]))
    # object identity
    flat = [(k, i, t) for k, row in enumerate(roots) for i, t in enumerate(row) if t is not None]
    same = set()
    for x in range(len(flat)):
        for y in range(x + 1, len(flat)):
            if flat[x][2] is flat[y][2]:
                same.add(((flat[x][0], flat[x][1]), (flat[y][0], flat[y][1])))
    return views, share, same


def canon_model_obs(enc, obs):
    """parsed Coq value of `observe w` -> the same shape as observe_impl"""
    (mviews, mlocs, mtlocs) = obs
    views = []
    lens = {}
    for k, row in enumerate(mviews):
        vr = []
        for i, v in enumerate(row):
            if v == 'None':
                vr.append(None)
                continue
            assert v[0] == 'Some', v
            cols, ln = v[1]
            cc = []
            for (f, c) in cols:
                assert c[0] == 'Some', c
                vals = [enc.canon(x) for x in c[1]]
                cc.append((f, vals))
                lens[(k, i, f)] = len(vals)
            vr.append((cc, ln))
        views.append(vr)
    ent = []
    for e in mlocs:
        (k, i, f, b) = e
        ent.append(((k, i, f), b))
    share = set()
    for x in range(len(ent)):
        for y in range(x + 1, len(ent)):
            if ent[x][1] == ent[y][1] and lens.get(ent[x][0], 0) > 0 and lens.get(ent[y][0], 0) > 0:
                share.add((ent[x][0], ent[y][0]))
    flat = []
    for k, row in enumerate(mtlocs):
        for i, o in enumerate(row):
            if o != 'None':
                flat.append((k, i, o[1]))
    same = set()
    for x in range(len(flat)):
        for y in range(x + 1, len(flat)):
            if flat[x][2] == flat[y][2]:
                same.add(((flat[x][0], flat[x][1]), (flat[y][0], flat[y][1])))
    return views, share, same


def exc_kind(ex):
    return type(ex).__name__


def snapshot(S):
    return [(table_bytes(d.exp), table_bytes(d.mc), table_bytes(d.grl)) for d in S.datas]


# ---------------------------------------------------------------------------- running one session
CALLS = ['bkg', 'sig', 'sig_only', 'trial_bkg_sig', 'init', 'eval', 'trial', 'unblind', 'drop']


def run_session(ctx, sess):
    """run the implementation; returns (model expression, [impl observations], enc)"""
    from skyllh.core.random import RandomStateService
    enc = Enc()
    S = build(ctx, sess['cfg'], enc, sess)
    rss = RandomStateService(sess['cfg']['seed'] % 1000 + 1)
    rss._random = SpyRandom(sess['cfg']['seed'] % 1000 + 1)
    # composite rates: record via wrapper on the method's dict
    S.last_comps = [None, None]
    for i, m in enumerate(S.methods):
        if S.mkinds[i] == 'comp':
            d = m._bkg_component_rate_calc_func_dict
            for nm in list(d):
                def mkf(f, nm=nm, i=i):
                    def g(dataset, data, events):
                        r = f(dataset, data, events)
                        S.last_comps[i].append((nm, np.array(r, copy=True)))
                        return r
                    return g
                d[nm] = mkf(d[nm])
    exps, mcs = S.exps_term, S.mcs_term          # the tables as they were BEFORE any construction
    snap0 = S.snap0
    # the construction of the analysis objects is the first call of every session
    groups = ['[' + '; '.join(S.cons_ops) + ']', '[]']
    impl_obs = [('Ok', observe_impl(S, enc))]
    ana = S.ana
    for call in sess['calls']:
        ctx.count('call:' + call)
        del LOG[:]
        was_cached = [getattr(m, '_cache_mc', None) is not None for m in S.methods]
        S.last_comps = [[], []]
        pre_tables = None
        status = 'Ok'
        ops = []
        try:
            if call == 'bkg':
                (nl, el) = ana.generate_background_events(rss)
                S.events, S.n_events = list(el), list(nl)
            elif call == 'sig':
                S.sig = {}
                (ns, nl, el) = ana.generate_signal_events(rss, mean_n_sig=sess['mean_sig'], sig_kwargs={'poisson': False},
                                                          n_events_list=list(S.n_events), events_list=list(S.events))
                S.events, S.n_events, S.n_sig = list(el), list(nl), ns
            elif call == 'sig_only':
                if ana._sig_generator is None:
                    ana.construct_signal_generator()
                (ns, d) = ana._sig_generator.generate_signal_events(rss=rss, mean=sess['mean_sig'], poisson=False)
                S.sig, S.n_sig = dict(d), ns
            elif call == 'trial_bkg_sig':
                sl = [S.sig.get(i) for i in range(2)]
                bl_ = list(S.events)
                try:
                    ana.do_trial_with_given_bkg_and_sig_pseudo_data(
                        seed=1, mean_n_sig=sess['mean_sig'], n_sig=S.n_sig, n_bkg_events_list=list(S.n_events),
                        n_sig_events_list=[len(s) if s is not None else 0 for s in sl],
                        bkg_events_list=bl_, sig_events_list=sl, minimizer_rss=rss)
                finally:
                    S.events = bl_
                    S.sig = {}
            elif call == 'init':
                pre_tables = list(S.events)
                ana.initialize_trial(list(S.events), list(S.n_events))
            elif call == 'eval':
                ana._llhratio.evaluate(np.array([1.0, 2.5]))
            elif call == 'trial':
                S.sig = {}
                S.captured.clear()
                try:
                    ana.do_trial(rss, mean_n_sig=sess['mean_sig'], sig_kwargs={'poisson': False})
                finally:
                    if S.captured.get('events_list') is not None:
                        S.events = list(S.captured['events_list'])
                        S.n_events = list(S.captured['n_events_list'])
                pre_tables = list(S.events)
            elif call == 'unblind':
                ana.unblind(rss)
                pre_tables = [t.events for t in ana._tdm_list]
            elif call == 'drop':
                S.events, S.n_events, S.sig = [None, None], [0, 0], {}
        except Exception as ex:   # noqa: BLE001 -- error kinds are part of the comparison
            status = exc_kind(ex)
            ctx.count('raised:' + status)
        # ---- model operations of this call, oracle arguments from the spies
        tr = Trace(LOG)
        if call == 'bkg':
            ops = ops_bkg(S, enc, tr, was_cached)
        elif call == 'sig':
            (ops, dss) = ops_sig(S, enc, tr)
            ops = [f'DropSig {nat(i)}' for i in range(2)] + ops + [f'Merge {nat(i)}' for i in dss]
        elif call == 'sig_only':
            (ops, dss) = ops_sig(S, enc, tr)
            ops = [f'DropSig {nat(i)}' for i in range(2)] + ops      # the caller keeps only the latest dictionary
        elif call == 'trial_bkg_sig':
            ops = [f'Merge {nat(i)}' for i in range(2)] + ops_init(S, enc, tr) \
                + ops_eval(S, enc, LOG)
        elif call == 'init':
            ops = ops_init(S, enc, tr)
        elif call == 'eval':
            ops = ops_eval(S, enc, LOG)
        elif call == 'trial':
            ops = [f'DropSig {nat(i)}' for i in range(2)] + ops_bkg(S, enc, tr, was_cached)
            (o2, dss) = ops_sig(S, enc, tr) if sess['mean_sig'] != 0 else ([], [])
            ops += o2 + [f'Merge {nat(i)}' for i in dss]
            ops += ops_init(S, enc, tr) + ops_eval(S, enc, LOG)
        elif call == 'unblind':
            ops = ops_init(S, enc, tr, unblind=True) \
                + ops_eval(S, enc, LOG)
        elif call == 'drop':
            ops = [f'DropEvents {nat(i)}' for i in range(2)]
        groups.append('[' + '; '.join(ops) + ']')
        # locals of the call go out of scope / the caller drops the signal arrays, also when the call raised
        groups.append('[' + '; '.join(f'DropSig {nat(i)}' for i in range(2)) + ']'
                      if call in ('sig', 'trial', 'trial_bkg_sig') else '[]')
        impl_obs.append((status, observe_impl(S, enc)))
        # ---- predicate: a freshly generated background is made from the stored data only (seeded C07-2: a cached copy
        # that is re-scrambled in place accumulates the signal merged in earlier trials)
        if call == 'bkg' and status == 'Ok':
            for i in range(2):
                ev = S.events[i]
                if ev is None:
                    continue
                doc = DOC.get(S.scr_kinds[i], []) if S.scr_kinds[i] else []
                if S.mkinds[i] == 'fixed':
                    src, rows = S.datas[i].exp, None
                elif S.mkinds[i] == 'mc' and S.cfgd['ds'][i]['presel'] != 'mask':
                    src = S.datas[i].mc
                    rows = [e[1] for e in LOG if e[0] == 'choice' and e[1].dtype.names is None]
                    rows = rows[[j for j in range(2) if S.mkinds[j] != 'fixed'].index(i)] if rows else None
                    if rows is None:
                        continue
                else:
                    continue
                n_want = len(src) if rows is None else len(rows)
                bad = []
                if len(ev) != n_want:
                    bad.append(f'{len(ev)} rows instead of {n_want}')
                else:
                    for f in ev.field_name_list:
                        if f in doc or f not in src:
                            continue
                        want = src[f] if rows is None else src[f][rows]
                        if ev[f].dtype != want.dtype or not np.array_equal(ev[f], want):
                            bad.append('field ' + f)
                if bad:
                    ctx.violation('Analysis.bkg:' + S.mkinds[i], 'generated-background-not-from-stored-data',
                                  f'dataset {i}: {bad[:4]}', case=sess, impl=bad[:6],
                                  predicate='a generated background has the rows of the stored data (all of exp / the drawn '
                                            'MC rows) and equals them in every non-documented field')
        # ---- predicate: byte snapshots of exp / mc
        snap = snapshot(S)
        if snap != snap0:
            which = [('exp', 'mc', 'grl')[j] + str(i) for i in range(2) for j in range(3) if snap[i][j] != snap0[i][j]]
            ctx.violation('Analysis.' + call, 'dataset-array-changed', f'{which} changed by {call}',
                          case=sess, impl=which, predicate='bytes, dtypes, field list and order of exp/mc unchanged')
            snap0 = snap
    expr = f"obs_calls [{'; '.join(groups)}] (init_world {exps} {mcs})"
    return expr, impl_obs, enc


def table_term(enc, t):
    return '[' + '; '.join(f'({nat(fid(n))}, {zl(enc.col(t[n]))})' for n in t.field_name_list) + ']'


ERRMAP = {'Ok': 'Ok'}


def compare_session(ctx, sess, impl_obs, enc, val):
    for ci, (status, iobs) in enumerate(impl_obs):
        ctx.corr_cases += 1
        (ms, _) = val[2 * ci]
        (_, mobs) = val[2 * ci + 1]
        mstat = 'Ok' if (ms == ('Ok', 'tt') or ms[0] == 'Ok') else ms[1]
        try:
            mc = canon_model_obs(enc, mobs)
        except Exception as ex:   # noqa: BLE001
            ctx.disagree('alias.parse', sess, None, repr(mobs)[:300], detail=f'cannot read model value: {ex}')
            return
        call = (['construct'] + list(sess['calls']))[ci]
        if call == 'eval' and status != 'Ok' and mstat != 'Ok':
            # a bare evaluation on trial data that is missing or only half initialised (an earlier initialize_trial
            # raised): WHICH exception class the real evaluation chain raises (AttributeError on events None, TypeError
            # on the missing source-event index table, ...) is not part of the property and not modelled; that it
            # raises, and the state it leaves, are compared
            status = mstat = 'raises'
        if mstat != status:
            ctx.disagree('alias.status:' + call, dict(sess, at=ci), status, mstat, detail='status differs')
            return
        for name, a, b in (('views', iobs[0], mc[0]), ('sharing', iobs[1], mc[1]), ('identity', iobs[2], mc[2])):
            if a != b:
                if name == 'views':
                    d = [(k, i) for k in range(6) for i in range(2) if a[k][i] != b[k][i]]
                    det = f'root views differ at (kind, dataset) {d}'
                    ia, ib = [a[k][i] for k, i in d][:2], [b[k][i] for k, i in d][:2]
                else:
                    det = f'{name}: impl-only {sorted(a - b)[:6]} model-only {sorted(b - a)[:6]}'
                    ia, ib = sorted(a - b)[:6], sorted(b - a)[:6]
                ctx.disagree(f'alias.{name}:' + call, dict(sess, at=ci), ia, ib, detail=det)
                return


# ---------------------------------------------------------------------------- generators
def gen_cfg(rng, i_case):
    bk = ['fixed', 'mc', 'comp']
    sk = ['uniform', 'i3time', 'seasonal', 'coretime']
    ds = []
    for i in range(2):
        b = bk[(i_case + i) % 3] if rng.random() < 0.7 else rng.choice(bk)
        s = sk[(i_case // 3 + i) % 4] if rng.random() < 0.7 else rng.choice(sk)
        if b != 'fixed' and rng.random() < 0.2:
            s = None
        static = []
        r = rng.random()
        if r < 0.3:
            static = [('stat_a', 'fresh')]
        elif r < 0.5:
            static = [('stat_a', 'alias'), ('stat_b', 'fresh')]
        elif r < 0.65:
            static = [('sin_dec', 'over')]
        ds.append({'n_exp': rng.randint(3, 7), 'n_mc': rng.randint(6, 10), 'ra32': rng.random() < 0.6,
                   'bkg': b, 'scr': s, 'ra_range': rng.choice([None, None, (1.0, 5.0), (4.5, 6.0)]),
                   'presel': rng.choice([None, 'all', 'mask']), 'mean': rng.choice([3, 5, 8]),
                   'tdm': {'index': rng.choice([None, None, 'time', 'run', 'dec']),
                           'pre': rng.choice([None, None, 'ok']), 'static': static,
                           'esm': rng.choice([None, 'all', 'mask']), 'gfp': rng.random() < 0.5},
                   'comps': rng.choice(['two', 'two', 'none']), 'prob': rng.choice([None, None, 'stored'])})
    return {'seed': rng.randrange(10 ** 6), 'ds': ds, 'valid_range': rng.random() < 0.5}


def gen_session(ctx, rng, i_case, malformed=False):
    cfg = gen_cfg(rng, i_case)
    n = rng.randint(1, 6)
    if malformed:
        first = rng.choice(['init', 'eval', 'trial_bkg_sig', 'sig_only', 'sig'])
        calls = [first] + [rng.choice(CALLS) for _ in range(n - 1)]
        if rng.random() < 0.4:
            cfg['ds'][rng.randrange(2)]['tdm']['pre'] = 'badlen'
        ctx.count('session:malformed')
    else:
        calls = []
        have = False
        for _ in range(n):
            if not have:
                c = rng.choice(['bkg', 'bkg', 'trial', 'unblind', 'sig_only'])
            else:
                c = rng.choice(CALLS)
            have = have or c in ('bkg', 'trial')
            calls.append(c)
        ctx.count('session:regular')
    ctx.count(f'len:{len(calls)}')
    return {'cfg': cfg, 'calls': calls, 'mean_sig': rng.choice([0, 2, 3, 5])}


def corpus_sessions():
    """regression corpus: the sessions that showed the two defects repaired in /repo"""
    def dsc(**kw):
        d = {'n_exp': 6, 'n_mc': 9, 'ra32': True, 'bkg': 'fixed', 'scr': 'uniform', 'ra_range': None, 'presel': None,
             'mean': 5, 'tdm': {'index': 'time', 'pre': 'ok', 'static': [('stat_a', 'fresh')], 'esm': None, 'gfp': True}, 'comps': 'two'}
        d.update(kw)
        return d
    return [
        {'cfg': {'seed': 7, 'ds': [dsc(), dsc(bkg='mc', scr='i3time')], 'valid_range': True},
         'calls': ['unblind', 'bkg', 'unblind', 'trial', 'unblind'], 'mean_sig': 3},
        {'cfg': {'seed': 8, 'ds': [dsc(bkg='comp', scr='coretime', presel='mask'), dsc(scr='seasonal')], 'valid_range': False},
         'calls': ['trial', 'unblind', 'bkg', 'sig', 'init', 'eval'], 'mean_sig': 5},
        # every MC based method WITHOUT a scrambler (seeded C07-1: the composite method then worked on data.mc itself)
        {'cfg': {'seed': 9, 'ds': [dsc(bkg='comp', scr=None, presel=None), dsc(bkg='mc', scr=None, presel='all')],
                 'valid_range': False},
         'calls': ['bkg', 'trial', 'bkg', 'unblind'], 'mean_sig': 2},
        {'cfg': {'seed': 10, 'ds': [dsc(bkg='comp', scr=None, presel='mask'), dsc(bkg='comp', scr='uniform', presel='all')],
                 'valid_range': False},
         'calls': ['bkg', 'bkg', 'sig', 'init'], 'mean_sig': 3},
        # generate background, merge signal via the real Analysis path, generate background again (seeded C07-2)
        {'cfg': {'seed': 12, 'ds': [dsc(bkg='fixed', scr='uniform'), dsc(bkg='fixed', scr='i3time')], 'valid_range': False},
         'calls': ['bkg', 'sig', 'bkg', 'sig_only', 'trial_bkg_sig', 'bkg'], 'mean_sig': 5},
        {'cfg': {'seed': 13, 'ds': [dsc(bkg='mc', scr='uniform', presel=None), dsc(bkg='comp', scr='coretime')],
                 'valid_range': False},
         'calls': ['bkg', 'sig', 'bkg', 'sig', 'bkg'], 'mean_sig': 5},
        # probability callback returning a stored MC field (seeded C07-8), MC sampling and composite method
        {'cfg': {'seed': 14, 'ds': [dsc(bkg='mc', scr='uniform', presel=None, prob='stored'),
                                    dsc(bkg='comp', scr=None, presel='all', prob='stored')], 'valid_range': False},
         'calls': ['bkg', 'bkg', 'trial', 'unblind'], 'mean_sig': 2},
        # composite method with an EMPTY component dictionary, with and without scrambler (audit mutation 2)
        {'cfg': {'seed': 11, 'ds': [dsc(bkg='comp', scr='uniform', comps='none'), dsc(bkg='comp', scr=None, comps='none')],
                 'valid_range': False},
         'calls': ['bkg', 'trial', 'eval', 'unblind'], 'mean_sig': 2},
    ]


# ---------------------------------------------------------------------------- stub-RNG probe of the narrowing
def narrowing_probe(ctx):
    """UniformRAScramblingMethod with prescribed draws next to the range limits, float32 and float64 `ra`;
    bit-exact comparison with the model's ura_value, and the range predicate"""
    from skyllh.core.scrambling import UniformRAScramblingMethod
    from skyllh.core.storage import DataFieldRecordArray as DFRA
    exprs, impl, cases = [], [], []

    class R:
        def __init__(self, xs):
            self.xs = xs

        def uniform(self, lo, hi, size):
            return np.array(self.xs, dtype=np.float64)

    class RSS:
        def __init__(self, xs):
            self.random = R(xs)
    ranges = [None, (0.0, 2 * math.pi), (1.0, 5.0), (4.5, 6.0), (0.1, 0.7), (3.0, 2 * math.pi),
              (float(np.float32(1.1)), float(np.float32(2.3))), (1.1, 2.3), (6.0, 6.2831854),
              # lower bounds that round DOWN in float32 (the narrowed bound has to be moved inwards; seeded C07-3)
              (float(np.deg2rad(266)), 2 * math.pi), (4.6425, 6.0), (1.3, 2.7)]
    rng = ctx.rng
    for rr in ranges:
        lo, hi = rr if rr else (0.0, 2 * math.pi)
        for dt, k in ((np.float32, 29), (np.float64, 0)):
            xs = [lo, np.nextafter(hi, lo), np.nextafter(np.nextafter(hi, lo), lo), np.nextafter(lo, hi),
                  lo + 1e-9, lo + 3e-8, lo + 1e-7, lo + 3e-7]
            f32 = float(np.float32(hi))
            for q in (f32, float(np.nextafter(np.float32(hi), np.float32(0)))):
                for d in (-2, -1, 0, 1, 2):
                    x = q
                    for _ in range(abs(d)):
                        x = float(np.nextafter(x, math.inf if d > 0 else -math.inf))
                    xs.append(x)
            # round-to-even ties and arbitrary interior points
            mid = (float(np.float32(lo + (hi - lo) * 0.5)) + float(np.nextafter(np.float32(lo + (hi - lo) * 0.5), np.float32(9)))) / 2
            xs += [mid, float(np.nextafter(mid, 0)), float(np.nextafter(mid, 9))]
            xs += [lo + (hi - lo) * rng.random() for _ in range(6)]
            xs = [float(x) for x in xs if lo <= x < hi and (x == 0.0 or x > 1e-30)]
            data = DFRA(dict(ra=np.zeros(len(xs), dtype=dt), dec=np.arange(len(xs), dtype=np.float64)), copy=False)
            m = UniformRAScramblingMethod(ra_range=rr)
            m.scramble(RSS(xs), None, data)
            out = [float(v) for v in data['ra']]
            case = {'kind': 'narrowing', 'ra_range': [lo, hi], 'dtype': np.dtype(dt).name, 'draws': [x.hex() for x in xs]}
            ctx.case(case)
            ctx.count('narrowing:' + np.dtype(dt).name)
            if data['ra'].dtype != np.dtype(dt) or any(not (lo <= v < hi) for v in out):
                ctx.violation('scramble:uniform', 'ra-out-of-range', f'ra outside [{lo}, {hi}) after narrowing to {np.dtype(dt).name}',
                              case=case, impl=[v.hex() for v in out if not (lo <= v < hi)][:5], predicate='lo <= ra < hi')
            exprs.append(f'map (ura_value {k} {fbits(lo)} {fbits(hi)}) {zl([fbits(x) for x in xs])}')
            impl.append([fbits(v) for v in out])
            cases.append(case)
    return exprs, impl, cases


def replay_narrow(ctx, c):
    from skyllh.core.scrambling import UniformRAScramblingMethod
    from skyllh.core.storage import DataFieldRecordArray as DFRA
    lo, hi = c['ra_range']
    xs = [float.fromhex(h) for h in c['draws']]

    class R:
        def uniform(self, lo_, hi_, size):
            return np.array(xs, dtype=np.float64)

    class RSS:
        random = R()
    data = DFRA(dict(ra=np.zeros(len(xs), dtype=np.dtype(c['dtype']))), copy=False)
    UniformRAScramblingMethod(ra_range=(lo, hi)).scramble(RSS(), None, data)
    out = [float(v) for v in data['ra']]
    ctx.case(c)
    if any(not (lo <= v < hi) for v in out):
        ctx.violation('scramble:uniform', 'ra-out-of-range', 'ra outside the range after narrowing', case=c,
                      impl=[v.hex() for v in out if not (lo <= v < hi)][:5], predicate='lo <= ra < hi')


def seasonal_probe(ctx):
    """I3SeasonalVariationTimeScramblingMethod(data) on unsorted times with duplicates and events exactly on run
    edges: stored data unchanged by the construction, run weights = fraction of events in [start, stop); the masks of
    the model (kernel seas_mask on order-preserving bit patterns) against numpy"""
    from skyllh.core.dataset import DatasetData
    from skyllh.i3.dataset import I3DatasetData
    from skyllh.i3.scrambling import I3SeasonalVariationTimeScramblingMethod
    from skyllh.core.storage import DataFieldRecordArray as DFRA
    exprs, impl, cases = [], [], []
    for n in (1, 2, 5, 9):
        for variant in range(3):
            r = np.random.RandomState(100 * n + variant)
            edges = np.sort(58000 + np.round(r.uniform(0, 8, 4) * 8) / 8)
            edges[1] = max(edges[1], edges[0] + 0.125)
            edges[2] = max(edges[2], edges[1] + 0.125)
            edges[3] = max(edges[3], edges[2] + 0.125)
            t = 58000 + np.round(r.uniform(0, 8, n) * 8) / 8
            t[0] = edges[1]                                  # exactly on a start / stop edge
            if n >= 2:
                t[-1] = t[0]                                 # duplicate
            if n >= 5:
                t[2] = edges[3]                              # exactly on the last stop (outside)
                t = t[r.permutation(n)]                      # not in time order
            if not np.any((t >= edges[0]) & (t < edges[3])):
                continue
            exp = DFRA({'time': t.copy(), 'azi': r.uniform(0, 6, n), 'ra': r.uniform(0, 6, n).astype(np.float32),
                        'user_q': np.arange(n, dtype=np.int16)}, copy=False)
            grl = DFRA({'start': edges[:-1].copy(), 'stop': edges[1:].copy()}, copy=False)
            data = I3DatasetData(DatasetData(data_exp=exp, data_mc=exp.copy(), livetime=1.), grl)
            before = (table_bytes(data.exp), table_bytes(data.mc), table_bytes(data.grl))
            case = {'kind': 'seasonal', 'times': [float(x).hex() for x in t], 'edges': [float(x).hex() for x in edges]}
            ctx.case(case)
            ctx.count('seasonal-probe')
            m = I3SeasonalVariationTimeScramblingMethod(data)
            if (table_bytes(data.exp), table_bytes(data.mc), table_bytes(data.grl)) != before:
                ctx.violation('construct:scrambling-method:seasonal', 'dataset-array-changed',
                              'stored data changed by constructing I3SeasonalVariationTimeScramblingMethod', case=case,
                              predicate='bytes, dtypes, field list and order of exp/mc/grl unchanged')
            masks = [((t >= a) & (t < b)).tolist() for a, b in zip(edges[:-1], edges[1:])]
            cnt = np.array([sum(x) for x in masks], dtype=np.float64)
            if not np.allclose(m.run_weights, cnt / cnt.sum(), rtol=1e-12, atol=0):
                ctx.violation('construct:scrambling-method:seasonal', 'wrong-run-weights', 'run weights', case=case,
                              impl=m.run_weights.tolist(), model=(cnt / cnt.sum()).tolist())
            runs = '[' + '; '.join(f'({fbits(a)}, {fbits(b)})' for a, b in zip(edges[:-1], edges[1:])) + ']'
            exprs.append(f'seasonal_masks {runs} {zl([fbits(x) for x in t])}')
            impl.append(masks)
            cases.append(case)
    return exprs, impl, cases


def time_ra_probe(ctx):
    """every time based scrambling method, float32 and float64 `ra` fields, crafted azimuths so that the float64
    right ascension is exactly 0 / within one float32 ulp below 2 pi: what is STORED in `ra` (in the dtype it is stored
    in) must be inside [0, 2 pi) and must be the transform result itself (C07_time_ra_in_range's model)"""
    from skyllh.core.dataset import DatasetData
    from skyllh.i3.dataset import I3DatasetData
    from skyllh.core.scrambling import TimeScramblingMethod
    from skyllh.core.times import TimeGenerator, TimeGenerationMethod
    from skyllh.i3.scrambling import I3TimeScramblingMethod, I3SeasonalVariationTimeScramblingMethod
    from skyllh.i3.utils.coords import azi_to_ra_transform, hor_to_equ_transform
    from skyllh.core.storage import DataFieldRecordArray as DFRA
    two_pi = 2 * math.pi
    deltas = [0.0, 1e-12, 1e-9, 1e-8, 3e-8, 5e-8, 6.3e-8, 6.5e-8, 1e-7, 2.4e-7, 4.8e-7, 1e-6, 1.0, 3.0]
    mjds = np.array([58000.0 + 0.37 * j + 0.0123 * j * j for j in range(len(deltas))])
    theta = azi_to_ra_transform(np.zeros(len(mjds)), mjds)          # sidereal angle of each time, in [0, 2 pi)
    azi = np.mod(theta + np.array(deltas), two_pi)                   # ra = 2 pi - delta (up to rounding), 0 for delta 0
    # azimuth 1, 2, 3 ulp above the UNWRAPPED sidereal angle (formula of azi_to_ra_transform recomputed here): the angle
    # before the wrap is a tiny negative number, whose modulo rounds to exactly 2 pi (seeded C07-7)
    mj2 = np.array([58003.21 + 0.53 * j for j in range(9)])
    unwrapped = 2.54199002505 + 2 * np.pi * ((mj2 / 0.997269566) % 1)
    az2 = unwrapped.copy()
    for j in range(9):
        for _ in range(1 + j % 3):
            az2[j] = np.nextafter(az2[j], np.inf)
    mjds = np.concatenate([mjds, mj2])
    azi = np.concatenate([azi, az2])
    n = len(mjds)

    class TG(TimeGenerationMethod):
        def generate_times(self, rss, size):
            return mjds.copy()

    class R:
        def choice(self, a, size=None, p=None):
            return np.zeros(n, dtype=np.int64)

        def uniform(self, lo, hi, size=None):
            return mjds.copy()

    class RSS:
        random = R()
    for kind in ('i3time', 'seasonal', 'coretime'):
        for dt in (np.float32, np.float64):
            exp = DFRA({'time': np.full(n, 58001.0), 'azi': azi.copy(), 'zen': np.linspace(0.1, 3.0, n),
                        'ra': np.linspace(0.1, 6.0, n).astype(dt), 'dec': np.zeros(n, dtype=np.float32),
                        'user_q': np.arange(n, dtype=np.int16)}, copy=False)
            if kind == 'i3time':
                m = I3TimeScramblingMethod(TimeGenerator(TG()))
            elif kind == 'coretime':
                m = TimeScramblingMethod(timegen=TimeGenerator(TG()), hor_to_equ_transform=hor_to_equ_transform)
            else:
                grl = DFRA({'start': np.array([57990.0]), 'stop': np.array([58100.0])}, copy=False)
                m = I3SeasonalVariationTimeScramblingMethod(
                    I3DatasetData(DatasetData(data_exp=exp.copy(), data_mc=exp.copy(), livetime=1.), grl))
            want = azi_to_ra_transform(azi.copy(), mjds.copy())
            m.scramble(RSS(), None, exp)
            stored = exp['ra']
            vals = [float(v) for v in stored]
            case = {'kind': 'time-ra', 'method': kind, 'ra_dtype': np.dtype(dt).name,
                    'azi': [float(x).hex() for x in azi], 'mjd': [float(x).hex() for x in mjds]}
            ctx.case(case)
            ctx.count(f'time-ra:{kind}:{np.dtype(dt).name}')
            ctx.corr_cases += 1
            if any(not (0.0 <= w < two_pi) for w in want.tolist()):
                ctx.notes.append('azi_to_ra_transform left [0, 2pi) on a probe input (premise of C07_time_ra_in_range, C19)')
            bad = [v.hex() for v in vals if not (0.0 <= v < two_pi)]
            if bad:
                ctx.violation('scramble:' + kind, 'ra-out-of-range',
                              f'stored ra (dtype {stored.dtype}) outside [0, 2pi)', case=case, impl=bad[:5],
                              predicate='0 <= ra < 2pi in the dtype the field is stored in')
            if [fbits(v) for v in vals] != [fbits(w) for w in want.tolist()]:
                ctx.disagree('alias.time_ra_store', case, [v.hex() for v in vals][:6], [float(w).hex() for w in want][:6],
                             detail='the stored ra column is not the transform result itself (model: ScrI3Time/ScrSeasonal/ScrTime)')


# ---------------------------------------------------------------------------- extension: DataField._calc_static_values
def static_field_probe(ctx):
    """a real TrialDataManager with ONE static data field, initialised on a small events table: source-event fields
    (is_srcevt_data) and event fields, functions returning an array of the right / a wrong length, the array of an
    existing field, something that is not an ndarray; existing field names.  Status, value view and sharing of the
    events table against `static_obs`; predicate: a source-event field never touches the events array, an event field
    changes only its own binding"""
    from skyllh.core.storage import DataFieldRecordArray as DFRA
    from skyllh.core.trialdata import TrialDataManager
    rng = ctx.rng
    exprs, impl, cases = [], [], []

    class SHG:
        def __init__(self, n):
            self.n_sources = n
    kinds = ['ok', 'len_n', 'len_bad', 'notarray', 'alias', 'empty']
    ncase = ctx.budget(24, 200)
    for ci in range(ncase):
        n = rng.randint(1, 5)
        nsrc = 1 + (ci // 2) % 2
        srcevt = bool(ci % 2)
        kd = kinds[(ci // 4) % len(kinds)] if ci < 4 * len(kinds) else rng.choice(kinds)
        name = rng.choice(['stat_a', 'stat_a', 'dec'])          # a new field or an existing one
        tab = {f: [rng.randint(0, 40) for _ in range(n)] for f in ('ra', 'dec', 'time', 'user_q')}
        case = {'kind': 'static-field', 'n': n, 'n_sources': nsrc, 'srcevt': srcevt, 'ret': kd, 'name': name, 'table': tab}
        ctx.case(case)
        ctx.count(f"static:{'srcevt' if srcevt else 'event'}:{kd}")
        m, status = run_static_case(case)
        for msg in m['violations']:
            ctx.violation('DataField._calc_static_values', msg[0], msg[1], case=case, impl=m['view'],
                          predicate='a source-event data field never touches the events array; an event data field '
                                    'changes only its own binding')
        tterm = '[' + '; '.join(f'({nat(fid(f))}, {zl(tab[f])})' for f in tab) + ']'
        rterm = {'notarray': 'RNotArray', 'alias': f"(RArr (FAlias {nat(fid('ra'))}))"}.get(kd) or f"(RArr (FFresh {zl(m['vals'])}))"
        exprs.append(f"static_obs {tterm} {nat(fid(name))} {rterm} {'true' if srcevt else 'false'} {n * nsrc}")
        impl.append((status, m['view'], m['share']))
        cases.append(case)

    def canon(v):
        (ms, (mviews, mlocs)) = v
        st_ = 'Ok' if (ms == ('Ok', 'tt') or ms[0] == 'Ok') else ms[1]
        cols, ln = mviews[0][1]
        view = ([(f, list(c[1])) for (f, c) in cols], ln)
        ent = [(f, b) for (_, f, b) in mlocs]
        share = sorted((a[0], b[0]) for x, a in enumerate(ent) for b in ent[x + 1:] if a[1] == b[1] and ln > 0)
        return (st_, view, share)
    return ('alias.calc_static', 'DataField._calc_static_values differs from the model', canon, exprs, impl, cases)


def run_static_case(c):
    """the implementation side of one static-field case (also used by the replay)"""
    from skyllh.core.storage import DataFieldRecordArray as DFRA
    from skyllh.core.trialdata import TrialDataManager

    class SHG:
        n_sources = c['n_sources']
    n, kd, name, srcevt = c['n'], c['ret'], c['name'], c['srcevt']
    events = DFRA({f: np.array(v, dtype=np.float64) for f, v in c['table'].items()}, copy=False)
    before = {f: (events[f], events[f].tobytes()) for f in events.field_name_list}
    nv = n * c['n_sources']
    want = {'ok': nv if srcevt else n, 'len_n': n, 'len_bad': n + 1, 'empty': 0}.get(kd, n)
    vals = [(7 * j + 3) % 41 for j in range(want)]

    def func(tdm, shg_mgr, pmm):
        if kd == 'notarray':
            return list(vals)
        if kd == 'alias':
            return tdm.get_data('ra')
        return np.array(vals, dtype=np.float64)
    tdm = TrialDataManager()
    tdm.add_data_field(name, func, is_srcevt_data=srcevt)
    status = 'Ok'
    try:
        tdm.initialize_trial(SHG(), None, events)
    except Exception as ex:   # noqa: BLE001 -- the error kind is compared
        status = type(ex).__name__
    ev = tdm.events
    viol = []
    for f, (arr, raw) in before.items():
        if f == name and not srcevt:
            continue
        if f not in ev or ev[f] is not arr or ev[f].tobytes() != raw:
            viol.append(('other-field-changed', f'field {f} of the events array was re-bound or changed'))
    if srcevt and (name in ev) != (name in before):
        viol.append(('srcevt-field-written-into-events', f'source-event data field {name} appeared in the events array'))
    if len(ev) != n:
        viol.append(('length-changed', f'{n} -> {len(ev)} events'))
    view = ([(fid(f), [int(x) for x in ev[f].tolist()]) for f in ev.field_name_list], len(ev))
    ent = [(fid(f), ev[f]) for f in ev.field_name_list]
    share = sorted((a[0], b[0]) for x, a in enumerate(ent) for b in ent[x + 1:]
                   if a[1].size and b[1].size and np.shares_memory(a[1], b[1]))
    return {'view': view, 'share': share, 'vals': vals, 'violations': viol}, status


# ---------------------------------------------------------------------------- entry points
def run_sessions(ctx, sessions, tag):
    install_spies()
    exprs, keep = [], []
    try:
        for s in sessions:
            ctx.case(s, nontrivial=any(c in ('bkg', 'trial') for c in s['calls']))
            try:
                expr, impl_obs, enc = run_session(ctx, s)
            except Exception as ex:   # noqa: BLE001 -- a session the harness cannot drive is a broken check
                ctx.broken.append({'kind': 'harness', 'error': f'{type(ex).__name__}: {ex}', 'session': s})
                continue
            if len(expr) > 60000:
                # a signal redraw loop that ran for very many rounds: the history term is too large for a quick
                # vm_compute; the implementation side predicates were evaluated, the model comparison is skipped
                ctx.count('session:model-comparison-skipped(too long)')
                continue
            exprs.append(expr)
            keep.append((s, impl_obs, enc))
    finally:
        remove_spies()
    if not ctx.model_ok:
        ctx.notes.append('model did not build: implementation-only predicates were evaluated')
        return
    # one coqc per 30 sessions, 6 at a time (a single 400-term file is slow to print)
    import concurrent.futures
    csz = 6 if len(exprs) <= 24 else 30
    chunks = [exprs[j:j + csz] for j in range(0, len(exprs), csz)]
    try:
        with concurrent.futures.ThreadPoolExecutor(max_workers=6) as ex_:
            parts = list(ex_.map(lambda jc: common.coq_eval(f'c07{tag}{jc[0]}', IMPORTS, jc[1], timeout=900),
                                 enumerate(chunks)))
        vals = [v for part in parts for v in part]
    except RuntimeError as ex:
        ctx.broken.append({'kind': 'model-eval', 'error': str(ex)[:1500]})
        return
    for (s, impl_obs, enc), v in zip(keep, vals):
        compare_session(ctx, s, impl_obs, enc, v)


def run(ctx):
    import threading
    rng = ctx.rng
    # 1. probes (implementation side now, model side evaluated in the background while the sessions run):
    #    float32 narrowing at the range limits (stub RNG), construction of the seasonal scrambling method,
    #    RA write-back of the time based methods, get_selection / broadcast semantics of the table
    jobs = [('alias.ura_value', 'narrowed/clipped right ascensions differ', lambda v: list(v)) + narrowing_probe(ctx),
            ('alias.seasonal_masks', 'run masks differ', lambda v: [list(x) for x in v]) + seasonal_probe(ctx)]
    for extra in EXTRA_PROBES:
        jobs.append(extra(ctx))
    time_ra_probe(ctx)
    box = {}

    def eval_probes():
        try:
            allx = [e for j in jobs for e in j[3]]
            box['vals'] = common.coq_eval('c07p', IMPORTS, allx)
        except RuntimeError as ex:
            box['err'] = str(ex)[:1500]
    th = None
    if ctx.model_ok:
        th = threading.Thread(target=eval_probes)
        th.start()
    # 2. sessions
    n = ctx.budget(16, 360)
    sessions = corpus_sessions()
    i = 0
    while len(sessions) < n:
        sessions.append(gen_session(ctx, rng, i, malformed=(i % 6 == 5)))
        i += 1
    ctx.sample({'calls': sessions[-1]['calls'], 'cfg': sessions[-1]['cfg']})
    ctx.sample({'calls': sessions[0]['calls'], 'cfg': 'corpus: unblind with index field and static data field'})
    run_sessions(ctx, sessions, 's')
    if th is not None:
        th.join()
        if 'err' in box:
            ctx.broken.append({'kind': 'model-eval', 'error': box['err']})
        else:
            k = 0
            for (site, det, canon, exprs, impl, cases) in jobs:
                for c, a in zip(cases, impl):
                    v = box['vals'][k]
                    k += 1
                    ctx.corr_cases += 1
                    try:
                        mv = canon(v)
                    except Exception as ex:   # noqa: BLE001
                        mv = ['unparsed', repr(v)[:200], str(ex)]
                    if mv != a:
                        ctx.disagree(site, c, a, mv, detail=det)



# ---------------------------------------------------------------------------- probe of the table operations
TP_FIELDS = ['ra', 'dec', 'time', 'azi', 'run', 'user_q']
TP_DT = {'ra': np.float32, 'dec': np.float64, 'time': np.float64, 'azi': np.float32, 'run': np.int64, 'user_q': np.int16}


def table_probe(ctx):
    """DataFieldRecordArray used directly: get_selection with every index kind (single row, contiguous rows, empty,
    full / partial mask, negative, out of range, wrong mask length), copy (incl. a length-1 column that np.copyto
    broadcasts and a column of wrong length), set_selection (length-1 source = broadcast, wrong length, missing field,
    partial effects), append, sort, tidy_up, item assignment (new array / the array of another field); value views,
    the np.shares_memory relation between all columns of all tables and the error kinds against the model"""
    from skyllh.core.storage import DataFieldRecordArray as DFRA
    rng = ctx.rng
    exprs, impl, cases = [], [], []
    n_cases = ctx.budget(14, 160)
    for ci in range(n_cases):
        tabs = []
        nrow = rng.randint(3, 6)
        for ti in range(3):
            n = nrow if ti < 2 else rng.choice([1, 1, nrow, 2])
            names = [f for f in TP_FIELDS if ti == 0 or rng.random() < 0.8] or ['ra']
            tabs.append({f: [rng.randint(0, 40) for _ in range(n)] for f in names})
        # an inconsistent table: one column of length 1 (broadcast by copy) or of a wrong length
        if ci % 3 == 0:
            f = rng.choice(list(tabs[1])[1:] or list(tabs[1]))
            if f != list(tabs[1])[0]:
                tabs[1][f] = [rng.randint(0, 40) for _ in range(rng.choice([1, 1, 2]))]
        regs = []
        for tb in tabs:
            first = list(tb)[0]
            t = DFRA({f: np.array([0] * len(tb[first]), dtype=TP_DT[f]) for f in tb}, copy=False)
            for f in tb:
                t._data_fields[f] = np.array(tb[f], dtype=TP_DT[f])
            regs.append(t)
        ops_txt, stats = [], []
        kinds = ['sel1', 'selc', 'sele', 'maskall', 'mask', 'neg', 'oob', 'maskbad', 'copy', 'copyk', 'set', 'setb',
                 'append', 'sort', 'tidy', 'setitem', 'alias', 'selall']
        seq = [kinds[(ci + j) % len(kinds)] if j < 3 else rng.choice(kinds) for j in range(rng.randint(4, 8))]
        for kd in seq:
            r = rng.randrange(len(regs))
            n = len(regs[r])
            ctx.count('top:' + kd)
            try:
                if kd in ('sel1', 'selc', 'sele', 'neg', 'oob', 'selall'):
                    if kd == 'sel1':
                        idx = [rng.randrange(max(n, 1))]
                    elif kd == 'selc':
                        a = rng.randrange(max(n, 1))
                        idx = list(range(a, min(n, a + rng.randint(1, 3))))
                    elif kd == 'sele':
                        idx = []
                    elif kd == 'neg':
                        idx = [-1, 0]
                    elif kd == 'selall':
                        idx = list(range(n))
                    else:
                        idx = [0, n]
                    ops_txt.append(f'TSel {nat(r)} (SIdx {zl(idx)})')
                    regs.append(regs[r][np.array(idx, dtype=np.int64)])
                elif kd in ('maskall', 'mask', 'maskbad'):
                    m = [True] * n if kd == 'maskall' else [rng.random() < 0.5 for _ in range(n + (1 if kd == 'maskbad' else 0))]
                    ops_txt.append(f'TSel {nat(r)} (SMask {bl(m)})')
                    regs.append(regs[r][np.array(m, dtype=np.bool_)])
                elif kd in ('copy', 'copyk'):
                    keep = None if kd == 'copy' else [f for f in TP_FIELDS if rng.random() < 0.6]
                    ops_txt.append(f"TCopy {nat(r)} {'None' if keep is None else '(Some ' + fl(keep) + ')'}")
                    regs.append(regs[r].copy(keep_fields=keep))
                elif kd in ('set', 'setb'):
                    src = rng.randrange(len(regs))
                    k = len(regs[src]) if kd == 'set' else rng.randint(0, n)
                    idx = [rng.randrange(max(n, 1)) for _ in range(k)]
                    ops_txt.append(f'TSet {nat(r)} (SIdx {zl(idx)}) {nat(src)}')
                    regs[r][np.array(idx, dtype=np.int64)] = regs[src]
                elif kd == 'append':
                    src = rng.randrange(len(regs))
                    ops_txt.append(f'TAppend {nat(r)} {nat(src)}')
                    regs[r].append(regs[src])
                elif kd == 'sort':
                    f = rng.choice(TP_FIELDS)
                    col = regs[r]._data_fields.get(f)
                    perm = np.argsort(col).tolist() if col is not None else []      # the same call the code makes
                    ops_txt.append(f'TSort {nat(r)} {nat(fid(f))} {zl(perm)}')
                    regs[r].sort_by_field(f)
                elif kd == 'tidy':
                    keep = [f for f in TP_FIELDS if rng.random() < 0.7]
                    ops_txt.append(f'TTidy {nat(r)} {fl(keep)}')
                    regs[r].tidy_up(keep)
                elif kd == 'setitem':
                    f = rng.choice(TP_FIELDS + ['stat_a'])
                    vals = [rng.randint(0, 40) for _ in range(n if rng.random() < 0.8 else n + 1)]
                    ops_txt.append(f'TSetItem {nat(r)} {nat(fid(f))} {zl(vals)}')
                    regs[r][f] = np.array(vals, dtype=np.float64)
                else:
                    f, g = rng.choice(TP_FIELDS + ['stat_b']), rng.choice(TP_FIELDS)
                    ops_txt.append(f'TAlias {nat(r)} {nat(fid(f))} {nat(fid(g))}')
                    regs[r][f] = regs[r][g]
                stats.append('Ok')
            except Exception as ex:   # noqa: BLE001 -- error kinds are compared
                stats.append(type(ex).__name__)
                ctx.count('top-raised:' + type(ex).__name__)
        views = [([(fid(f), [int(v) for v in t[f].tolist()]) for f in t.field_name_list], len(t)) for t in regs]
        ent = [((ri, fid(f)), t[f]) for ri, t in enumerate(regs) for f in t.field_name_list]
        share = sorted((a[0], b[0]) for x, a in enumerate(ent) for b in ent[x + 1:]
                       if a[1].size and b[1].size and np.shares_memory(a[1], b[1]))
        case = {'kind': 'table', 'tables': tabs, 'ops': ops_txt}
        ctx.case(case)
        tterm = '[' + '; '.join('[' + '; '.join(f'({nat(fid(f))}, {zl(tb[f])})' for f in tb) + ']' for tb in tabs) + ']'
        exprs.append(f"tops_obs {tterm} [{'; '.join(ops_txt)}]")
        impl.append((stats, views, share))
        cases.append(case)

    def canon(v):
        (ss, (mviews, mlocs)) = v
        stats = ['Ok' if (x == ('Ok', 'tt') or x[0] == 'Ok') else x[1] for x in ss]
        views, lens = [], {}
        for ri, mv in enumerate(mviews):
            cols, ln = mv[1]
            vv = []
            for (f, c) in cols:
                vv.append((f, list(c[1])))
                lens[(ri, f)] = len(c[1])
            views.append((vv, ln))
        ent = [((ri, f), b) for (ri, f, b) in mlocs]
        share = sorted((a[0], b[0]) for x, a in enumerate(ent) for b in ent[x + 1:]
                       if a[1] == b[1] and lens.get(a[0], 0) and lens.get(b[0], 0))
        return (stats, views, share)
    return ('alias.table_ops', 'DataFieldRecordArray operation differs from the table model', canon, exprs, impl, cases)


EXTRA_PROBES = [table_probe, static_field_probe]


def replay(ctx, rp):
    c = rp.get('case') or {}
    if c.get('kind') == 'narrowing':
        return replay_narrow(ctx, c)
    if c.get('kind') == 'seasonal':
        return seasonal_probe(ctx)
    if c.get('kind') == 'time-ra':
        return time_ra_probe(ctx)
    if c.get('kind') == 'static-field':
        ctx.case(c)
        m, status = run_static_case(c)
        for msg in m['violations']:
            ctx.violation('DataField._calc_static_values', msg[0], msg[1], case=c, impl=m['view'])
        if ctx.model_ok:
            (site, det, canon, exprs, impl, cases) = static_field_probe(ctx)     # the whole stream against the model
            vals = common.coq_eval('c07sf', IMPORTS, exprs)
            for cc, a, v in zip(cases, impl, vals):
                ctx.corr_cases += 1
                if canon(v) != a:
                    ctx.disagree(site, cc, a, canon(v), detail=det)
        return
    if c.get('kind') == 'table':
        ctx.notes.append('table probe case: re-running the probes and the sessions')
        return run(ctx)
    if 'calls' in c and 'cfg' in c:
        s = {'cfg': c['cfg'], 'calls': c['calls'], 'mean_sig': c.get('mean_sig', 3)}
        for d in s['cfg']['ds']:
            d['tdm']['static'] = [tuple(x) for x in d['tdm']['static']]
            if d['ra_range']:
                d['ra_range'] = tuple(d['ra_range'])
        return run_sessions(ctx, [s], 'r')
    ctx.notes.append('replay file has no concrete input (broken obligation): re-running the full check')
    return run(ctx)
