"""C02 — returned gradients are the true derivatives for every parameter layout.

Correspondence: the real ParameterModelMapper / services / PDF ratios / llh ratios
(harness/c02_impl.py) against coq/model/M_Layout.v evaluated by vm_compute on the
same declaration list: record array (values, <name>:gpidx), every consumer's
decision for every fit-parameter id (is_global_fitparam_a_local_param, the
interpolation-parameter matching of the energy PDF ratio and of the signal PDF
set incl. the values mask, the a_jk / f_j gradient keys and which entries are
written), ns index, gradient-vector length, error kinds.
Predicates (failing-input search, on the implementation only): central finite
differences (Richardson) of the implementation's own value against the returned
gradient vector, entry by entry in declaration order of the floating parameters;
finite differences of the ns-gradient against calculate_ns_grad2 (stable regime);
no exception for a legal layout."""
import itertools
import math
import types

import numpy as np

from harness import common
from harness import c02_impl as I

GEN_MODULES = ['layout', 'llh']
MODEL_TARGETS = ['model/M_Layout.vo', 'model/M_Llh.vo', 'model/M_LlhGrad.vo', 'model/M_LlhE2E.vo', 'model/M_LayoutExt.vo']
PROOF_TARGETS = ['proofs/P_Layout.vo', 'proofs/P_LayoutDeriv.vo', 'proofs/P_LlhDeriv.vo', 'proofs/P_WeightsDeriv.vo',
                 'proofs/P_LlhGrad.vo', 'proofs/P_LlhStack.vo', 'proofs/P_LlhPipeGrad.vo', 'proofs/P_LlhE2E.vo', 'proofs/P_LayoutExt.vo']
LEVEL = 'proof'
RULE = ('layouts: ns + up to 3 further global parameters x {fixed,floating} x declaration orders x mappings '
        '(shared / per-source alias / subset of sources / unused local name) over 1..3 sources in 1..2 hypothesis '
        'groups, 1..3 datasets, Linear1D and Parabola1D interpolation, parameter points off-grid and on grid points; '
        'a case is non-trivial when it has >= 1 floating parameter besides ns or >= 2 sources, distinct by hash')
TRUSTED = [
    'Coq 8.16.1 kernel incl. vm_compute (no native_compute)',
    'axioms printed: layout theorems closed under the global context; derivative theorems use the standard Reals axioms '
    '(ClassicalDedekindReals.sig_not_dec, sig_forall_dec, functional_extensionality_dep) and Classical_Prop.classic (Coquelicot)',
    'translator/py2coq.py: per-element reading of the index/key comparisons (G_layout.v) and of the gradient formulas (G_llh.v)',
    'hand model M_Layout.v of the array plumbing (boolean-mask selection, zip, dict keys), validated on every run against the real classes',
    'local quantities (PDF ratios R_ik, detector yields Y_jk) are arbitrary differentiable functions in the theorems (premises is_derive ...); '
    'the interpolation methods themselves and scipy RectBivariateSpline derivatives are not verified here',
    'real-number reading: float rounding is outside the theorems; the finite-difference predicate uses tolerances',
    'composition: C02_pipeline chains f_j quotient rule + stacking + single-dataset + multi-dataset sum in the model\'s own functions with '
    'hypotheses only on the leaves a_jk(t), R_ik(t); C02_layout_leaf supplies those hypotheses from the layout. The instantiation of the '
    'pipeline with the layout-generated leaves (one closed theorem from declaration list to gradient vector) and the dependency flags of '
    'PDFRatioProduct are not machine-checked; the finite-difference predicate exercises them',
    'harness stubs: spatial signal/background PDFs returning prescribed arrays, table function behind the energy-ratio grid, '
    'yield table behind the real spline-based detector yield class, event selection returning prescribed pairs',
]

IMPORTS = ('From Coq Require Import ZArith List. Import ListNotations. Open Scope Z_scope.\n'
           'From Sky Require Import Result PyList M_Layout.\n')
SCALE = 1024   # parameter values are multiples of 1/1024: exact in float64, integers in the model


# ------------------------------------------------------------------ generation
def zval(x):
    v = x * SCALE
    assert v == int(v), x
    return int(v)


def gen_value(rng, kind):
    """a parameter value in [1.5, 3.5]; grid spacing of the interpolation grid is 0.25"""
    if kind == 'grid':
        return 1.5 + 0.25 * rng.randint(0, 8)
    while True:
        k = rng.randint(int(1.5 * 64), int(3.5 * 64))
        x = k / 64
        fr = (x / 0.25) % 1.0
        # keep away from grid points (kinks of Linear1D) and cell mid-points (kinks of Parabola1D)
        if min(fr, 1 - fr) > 0.08 and abs(fr - 0.5) > 0.08:
            return x


def gen_layout(rng, n_src, k_other, needed, fixed_pattern, order, ns_fixed=False, on_grid=False, assign=None):
    """declarations: ns (global name 0 -> local name 1 on all sources) and k_other parameters
    (global names 5..) feeding the local names in `needed` for every source"""
    others = [{'name': 5 + i, 'fixed': fixed_pattern[i], 'val': gen_value(rng, 'grid' if on_grid and i == 0 else 'off'),
               'names': [None] * n_src} for i in range(k_other)]
    if on_grid and others:
        others[0]['at_bound'] = True
    for s in range(n_src):
        inj = rng.sample(range(k_other), len(needed)) if k_other >= len(needed) else []
        if assign is not None:
            # forced per-source alias: source s takes needed[0] from parameter assign[s]
            rest = [i for i in range(k_other) if i != assign[s]]
            inj = [assign[s]] + rng.sample(rest, len(needed) - 1)
        for L, pi in zip(needed, inj):
            others[pi]['names'][s] = L
    for o in others:
        if all(n is None for n in o['names']):
            o['names'][rng.randrange(n_src)] = 12       # a local name nobody consumes
    ns = {'name': 0, 'fixed': ns_fixed, 'val': 0.0, 'names': [1] * n_src}
    decls = others[:]
    decls.insert(order % (k_other + 1), ns)
    if k_other >= 2 and (order // (k_other + 1)) % 2 == 1:
        # reverse the others
        idx = [i for i, d in enumerate(decls) if d['name'] != 0]
        vals = [decls[i] for i in idx][::-1]
        for i, d in zip(idx, vals):
            decls[i] = d
    return decls


def gen_dataset(rng, n_src, needed, regime, methods, kinds=None):
    n_sel = rng.randint(2, 7)
    n_raw = n_sel + rng.randint(0, 2)
    keep = sorted(rng.sample(range(n_raw), n_sel))
    if regime == 'taylor':
        N = n_sel
    elif regime == 'mixed':
        N = n_sel + rng.randint(1, 3)
    else:
        N = n_sel + rng.randint(0, 40) + 20
    pairs = []
    for k in range(n_src):
        if rng.random() < 0.5:
            evs = list(range(n_sel))
        else:
            evs = sorted(rng.sample(range(n_sel), rng.randint(1, n_sel)))
        pairs += [(k, e) for e in evs]
    bkg = [round(rng.uniform(0.2, 3.0), 6) for _ in range(n_raw)]
    if regime != 'taylor' and rng.random() < 0.3:
        bkg[keep[rng.randrange(n_sel)]] = 0.0           # zero-background event -> constant ratio
    if regime == 'taylor':
        sig = [round(rng.uniform(1e-7, 1e-6), 12) for _ in pairs]
    elif regime == 'mixed':
        # about half of the events get a tiny ratio (Taylor branch at ns ~ N), the others a large one (stable)
        tiny = {e for e in range(n_sel) if e % 2 == 0}
        sig = [round(rng.uniform(1e-7, 1e-6), 12) if e in tiny else round(rng.uniform(2.0, 8.0), 6) for (_k, e) in pairs]
    else:
        sig = [round(rng.uniform(0.1, 6.0), 6) for _ in pairs]
    er = [(L, methods[i % len(methods)], rng.randint(0, 50), (kinds[i % len(kinds)] if kinds else rng.choice(['i3', 'sigset', 'sigset', 'i3', 'sigprod'])))
          for i, L in enumerate(needed)]
    return {'n_raw': n_raw, 'N': N, 'keep': keep, 'pairs': pairs, 'bkg': bkg, 'sig': sig, 'eratios': er}


def gen_case(ctx, rng, spec=None):
    spec = spec or {}
    n_src = spec.get('n_src', rng.choice([1, 2, 2, 3]))
    k_other = spec.get('k_other', rng.choice([0, 1, 2, 2, 3, 3]))
    n_needed = min(k_other, spec.get('n_needed', rng.choice([1, 2, 2])))
    needed = [10, 11][:n_needed]
    fixed_pattern = spec.get('fixed', [rng.random() < 0.4 for _ in range(k_other)])
    order = spec.get('order', rng.randrange(2 * (k_other + 1)))
    regime = spec.get('regime', rng.choice(['taylor', 'mixed', 'mixed']) if rng.random() < 0.2 else 'stable')
    on_grid = spec.get('on_grid', rng.random() < 0.12)
    ns_fixed = spec.get('ns_fixed', False)
    decls = gen_layout(rng, n_src, k_other, needed, fixed_pattern, order, ns_fixed=ns_fixed, on_grid=on_grid,
                        assign=spec.get('assign'))
    if spec.get('equal_values'):
        # per-source aliases of one interpolation parameter sitting at the SAME value (e.g. the common seed):
        # the ratio may evaluate one spline for all sources there, but only exactly there
        v0 = gen_value(rng, 'off')
        for d in decls:
            if d['name'] != 0:
                d['val'] = v0
    if spec.get('dup'):
        # malformed: a second parameter under an already used local name of source 0
        decls.append({'name': 9, 'fixed': False, 'val': 2.0, 'names': [1] + [None] * (n_src - 1)})
    # hypothesis groups
    if n_src >= 2 and rng.random() < 0.5:
        cut = rng.randint(1, n_src - 1)
        sizes = [cut, n_src - cut]
    else:
        sizes = [n_src]
    groups = [(n, rng.choice(needed + [None]) if needed else None) for n in sizes]
    n_ds = 1 if regime in ('taylor', 'mixed') else spec.get('n_ds', rng.choice([1, 2, 2, 3]))
    methods = spec.get('methods', rng.choice([['linear'], ['parabola'], ['linear', 'parabola'], ['parabola', 'linear']]))
    ratio_needed = [] if spec.get('yield_only') else needed
    datasets = [gen_dataset(rng, n_src, ratio_needed, regime, methods, spec.get('kinds')) for _ in range(n_ds)]
    if spec.get('yield_only'):
        # the floating parameter enters ONLY through the detector yields; the inner ratio is a real
        # PDFRatioProduct of two parameter-free ratios (get_gradient returns the scalar 0)
        groups = [(n, needed[0]) for (n, _y) in groups]
        for dsd in datasets:
            dsd['const_product'] = True
        ctx.count('yield_only_parameter')
    for dsd in datasets:
        for e in dsd['eratios']:
            ctx.count('ratio_kind:' + e[3])
    if spec.get('assign') is not None:
        ctx.count('forced_alias_same_interp_param')
    vec = []
    for d in decls:
        if not d['fixed']:
            if d['name'] == 0:
                if regime == 'taylor':
                    d['val'] = datasets[0]['N'] - 1.0 / 1024
                elif regime == 'mixed':
                    d['val'] = datasets[0]['N'] - 1.0 / 1024
                else:
                    d['val'] = rng.randint(1 * 64, 6 * 64) / 64
            vec.append(d['val'])
    others_d = [d for d in decls if d['name'] != 0 and d['name'] != 9]
    if needed and others_d and regime != 'taylor' and spec.get('sobp', rng.random() < 0.5):
        Lb = needed[-1]          # the local name the background density depends on
        feeders = [d for d in others_d if Lb in d['names']]
        for dsd in datasets:
            bd = rng.choice(feeders)
            b0 = [round(rng.uniform(0.3, 2.5), 6) for _ in range(dsd['n_raw'])]
            if rng.random() < 0.6:
                b0[dsd['keep'][rng.randrange(len(dsd['keep']))]] = 0.0      # zero background -> constant ratio, gradient 0
            dsd['sobp'] = {'pn': needed[0], 'bn': Lb, 'cs': 0.3, 'cb': -0.2, 'gname': bd['name'],
                           'fixed_val': bd['val'] if bd['fixed'] else None, 'b0': b0,
                           's0': [round(rng.uniform(0.5, 2.0), 6) for _ in dsd['pairs']]}
        ctx.count('sobp_factor:' + ('bkg_fixed' if bd['fixed'] else 'bkg_floating'))
    if spec.get('gf_field', rng.random() < 0.15):
        flo = [d['name'] for d in decls if not d['fixed']]
        if flo:
            datasets[-1]['gf_field'] = rng.choice(flo)
            ctx.count('global_fitparam_data_field')
    case_extra = {'fd_h': 2e-6} if spec.get('equal_values') else {}
    case = {'n_src': n_src, 'decs': [round(rng.uniform(-1.2, 1.2), 3) for _ in range(n_src)],
            'weights': [rng.choice([0.5, 1.0, 2.0, 3.0]) for _ in range(n_src)], 'groups': groups, 'n_ds': n_ds,
            'decls': decls, 'datasets': datasets, 'vec': vec, 'regime': regime, 'on_grid': on_grid,
            'needed': needed}
    case.update(case_extra)
    ctx.count(f'n_src:{n_src}')
    ctx.count(f'n_other_params:{k_other}')
    ctx.count(f'n_datasets:{n_ds}')
    ctx.count(f'n_groups:{len(groups)}')
    ctx.count('regime:' + regime)
    ctx.count('fixed_before_floating' if any(
        d['fixed'] and any(not e['fixed'] for e in decls[i + 1:]) for i, d in enumerate(decls)) else 'floating_first')
    for d in decls:
        if d['name'] != 0:
            kinds = {n for n in d['names'] if n is not None}
            nn = sum(n is not None for n in d['names'])
            ctx.count('map:' + ('alias' if len(kinds) > 1 else 'shared' if nn == n_src else 'subset'))
    for m in methods:
        ctx.count('interp:' + m)
    if on_grid:
        ctx.count('value_on_grid_point')
    return case


# ------------------------------------------------------------------ model side
def opt(n):
    return 'None' if n is None else f'(Some {n})'


def model_expr(case):
    ds = '; '.join(
        f"mkG {d['name']} {'true' if d['fixed'] else 'false'} {common.zlit(zval(d['val']))} [{'; '.join(opt(n) for n in d['names'])}]"
        for d in case['decls'])
    vec = common.zlist([zval(v) for v in case['vec']])
    groups = '; '.join(f"({n}%nat, {opt(y)})" for n, y in case['groups'])
    pn = '; '.join(common.zlist(p) for p in pnames_sets(case))
    val_src = common.zlist([p[0] for p in case['datasets'][0]['pairs']])
    return (f"(do m <- build {case['n_src']} ([{ds}] : list (@gdecl Z)); "
            f"observe m {vec} [{groups}] [{pn}] {val_src})")


def pnames_sets(case):
    s = [[L] for L in case['needed']]
    if len(case['needed']) == 2:
        s.append(list(case['needed']))
    s.append([12])
    return s


def canon_model(v, n_values=0):
    if isinstance(v, tuple) and v[0] == 'Err':
        return ['Err', v[1]]
    assert isinstance(v, tuple) and v[0] == 'Ok', v
    x = v[1]
    # ((((((names, cols), perfid), sigkeys), kms), cols), nsidx), glen)  -- left-nested pairs flattened by the parser
    flat = list(x)
    while len(flat) < 8 and isinstance(flat[0], tuple):
        flat = list(flat[0]) + flat[1:]
    (names, cols, perfid, sigkeys, kms, fcols, nsidx, glen) = flat
    out = {'names': list(names)}
    out['cols'] = [[[None if c == 'None' else c[1] for c in vals], list(g)] for (vals, g) in cols]
    pf = []
    for row in perfid:
        r = []
        for (isloc, (isall, parts)) in row:
            if isall:
                r.append([isloc, [True] * n_values])
            else:
                mask = None
                for (_p, m) in parts:
                    mask = list(m) if mask is None else [a or b for a, b in zip(mask, m)]
                r.append([isloc, mask if mask is not None else 'none'])
        pf.append(r)
    out['perfid'] = pf
    sp = []
    for row in sigkeys:          # per name set, per fid: (contributes, (isall, parts))
        r = []
        for (contrib, (isall, parts)) in row:
            if not contrib:
                r.append('none')
            elif isall:
                r.append([True] * n_values)
            else:
                mask = [False] * n_values
                for (_p, m) in parts:
                    mask = [a or b for a, b in zip(mask, m)]
                r.append(mask)
        sp.append(r)
    out['sigpat'] = sp
    keys = {}
    n_src = None
    for (k, (start, mask)) in kms:
        keys.setdefault(k, {})
        for i, b in enumerate(mask):
            if b:
                keys[k][start + i] = True
    out['akeys'] = {str(k): sorted(v) for k, v in sorted(keys.items())}
    out['fcols'] = sorted(fcols)
    out['ns_idx'] = ['Ok', nsidx[1]] if nsidx[0] == 'Ok' else ['Err', nsidx[1]]
    out['glen'] = glen
    return out


# ------------------------------------------------------------------ implementation side
def exc_kind(ex):
    return type(ex).__name__


def observe_impl(ctx, case, W):
    """the implementation's view of the layout, in the canonical form of canon_model"""
    from skyllh.core.parameters import ParameterModelMapper
    from skyllh.core.signalpdf import SignalMultiDimGridPDFSet
    if any(W.map_errors):
        return ['Err', next(e for e in W.map_errors if e)]
    vec = np.array(case['vec'], dtype=np.float64)
    try:
        rec = W.pmm.create_src_params_recarray(vec)
    except Exception as ex:      # noqa: BLE001
        return ['Err', exc_kind(ex)]
    inv = {v: k for k, v in I.LOCAL.items()}
    names = sorted(inv[n] for n in rec.dtype.names if ':' not in n)
    out = {'names': names}
    out['cols'] = [[[None if math.isnan(x) else zval(float(x)) for x in rec[I.local_name(n)]],
                    [int(g) for g in rec[I.local_name(n) + ':gpidx']]] for n in names]
    nfl = W.pmm.n_global_floating_params
    tdm = W.tdms[0]
    # the services (needed by the stacked ratio) and the keys
    try:
        W.a_service.calculate(rec)
        W.f_service.calculate()
    except Exception as ex:      # noqa: BLE001
        return ['Err', exc_kind(ex)]
    (a_jk, a_grads) = W.a_service.get_weights()
    (f_j, f_grads) = W.f_service.get_weights()
    # energy ratios of dataset 0, by local name
    er_by_name = {inv[er._interpol_param_names[0]]: er for er in W.eratios[0]}
    for er in W.eratios[0]:
        er.get_ratio(tdm, rec)
    pf = []
    for fid in range(nfl):
        row = []
        for pn in pnames_sets(case):
            isloc = bool(ParameterModelMapper.is_global_fitparam_a_local_param(
                fitparam_id=fid, params_recarray=rec, local_param_names=[I.local_name(n) for n in pn]))
            dec = 'none'
            if len(pn) == 1 and pn[0] in er_by_name:
                er = er_by_name[pn[0]]
                g = er.get_gradient(tdm, rec, fid)
                full = er._cache['grads'][0]
                if np.shares_memory(g, full) and len(g) == len(full) and np.all(g == full):
                    dec = [True] * len(g)
                else:
                    if np.any((g != 0) & (g != full)):
                        ctx.violation('SplinedI3EnergySigSetOverBkgPDFRatio.get_gradient', 'foreign-gradient-value',
                                      'a returned gradient entry is neither 0 nor the interpolation gradient',
                                      case=case, impl=[float(x) for x in g])
                    m = [bool(x) for x in (g != 0)]
                    dec = m if any(m) else 'none'
                    if np.any(full == 0):
                        dec = 'unobservable'
            else:
                dec = 'skip'
            row.append([isloc, dec])
        pf.append(row)
    out['perfid'] = pf
    # SignalMultiDimGridPDFSet.get_pd: the real method on a minimal carrier object
    sp = []
    val_src = [int(k) for k in tdm.src_evt_idxs[0]]
    for pn in pnames_sets(case):
        names_l = [I.local_name(n) for n in pn]
        nval = tdm.get_n_values()
        garr = np.array([[1.0 + i + 0.01 * v for v in range(nval)] for i in range(len(names_l))])
        fake = types.SimpleNamespace(
            _cfg=types.SimpleNamespace(is_tracing_enabled=False), pmm=W.pmm, _interpol_param_names=names_l,
            _cache_eventdata=None,
            _interpol_method=lambda tdm, eventdata, params_recarray, tl=None: (np.ones(nval), garr.copy()))
        try:
            (_pd, gd) = SignalMultiDimGridPDFSet.get_pd(fake, tdm=tdm, params_recarray=rec)
        except Exception as ex:      # noqa: BLE001
            sp.append(['Err', exc_kind(ex)])
            continue
        row = []
        keys = sorted(gd.keys())
        for a_i, ka in enumerate(keys):
            for kb in keys[a_i + 1:]:
                if np.shares_memory(gd[ka], gd[kb]):
                    ctx.violation('SignalMultiDimGridPDFSet.get_pd', 'gradient-entries-share-memory',
                                  f'grads[{ka}] and grads[{kb}] are the same buffer', case=case,
                                  impl=[int(ka), int(kb)], predicate='one array per fit parameter')
        for fid in range(nfl):
            # independent oracle: entry v belongs to fid iff the source of v takes one of the
            # interpolation parameters from the fid-th floating parameter
            want = np.zeros(nval)
            for i, nm_l in enumerate(names_l):
                if nm_l in rec.dtype.names:
                    for v in range(nval):
                        if rec[nm_l + ':gpidx'][val_src[v]] == fid + 1:
                            want[v] = garr[i][v]
            got = gd.get(fid)
            if got is None:
                got = np.zeros(nval)
                row.append('none')
            else:
                row.append([bool(x) for x in (got != 0)])
            if not np.array_equal(np.asarray(got, dtype=float), want):
                ctx.violation('SignalMultiDimGridPDFSet.get_pd', 'gradient-misattached',
                              f'grads[{fid}] for interpolation parameters {names_l}', case=case,
                              impl=[float(x) for x in got], model=[float(x) for x in want],
                              predicate='grads[fid][v] = d pd_v / d(local parameter) where source(v) takes it from fid, else 0')
        sp.append(row)
    out['sigpat'] = sp
    keys = {}
    for k, arr in a_grads.items():
        keys[str(int(k))] = sorted(int(i) for i in np.nonzero(arr[0])[0])
    out['akeys'] = dict(sorted(keys.items(), key=lambda kv: int(kv[0])))
    out['fcols'] = sorted(int(k) for k in f_grads.keys())
    try:
        out['ns_idx'] = ['Ok', int(W.pmm.get_gflp_idx('ns'))]
    except Exception as ex:      # noqa: BLE001
        out['ns_idx'] = ['Err', exc_kind(ex)]
    out['glen'] = None
    return out


def same_layout(impl, model):
    if isinstance(impl, list) or isinstance(model, list):
        return impl == model
    for k in ('names', 'cols', 'sigpat', 'akeys', 'fcols', 'ns_idx'):
        if impl[k] != model[k]:
            return False
    if len(impl['perfid']) != len(model['perfid']):
        return False
    for ri, rm in zip(impl['perfid'], model['perfid']):
        for (il, idec), (ml, mdec) in zip(ri, rm):
            if il != ml:
                return False
            if idec in ('skip', 'unobservable'):
                continue
            if idec != mdec:
                return False
    return impl['glen'] is None or impl['glen'] == model['glen']


def richardson(f, x, h):
    d1 = (f(x + h) - f(x - h)) / (2 * h)
    d2 = (f(x + h / 2) - f(x - h / 2)) / h
    return (4 * d2 - d1) / 3


def richardson_right(f, x, h):
    """right-hand derivative (one-sided, inward from a lower bound / at a kink of Linear1D)"""
    def d(hh):
        return (-3.0 * f(x) + 4.0 * f(x + hh) - f(x + 2.0 * hh)) / (2.0 * hh)
    return (4.0 * d(h / 2) - d(h)) / 3.0


def on_kink(case, d, x):
    return case['on_grid'] and d['name'] != 0 and abs((x / 0.25) - round(x / 0.25)) < 1e-9


def fd_predicates(ctx, case, W, impl_layout):
    """finite differences of the implementation's own value vs the returned gradients"""
    vec = list(case['vec'])
    nfl = len(vec)
    legal = not any(W.map_errors) and any(d['name'] == 0 and not d['fixed'] for d in case['decls'])
    try:
        (val, grads) = I.evaluate_multi(W, vec)
    except Exception as ex:      # noqa: BLE001
        if legal and len(vec) == W.pmm.n_global_floating_params:
            ctx.violation('MultiDatasetTCLLHRatio.evaluate', 'raises-' + exc_kind(ex), f'legal layout raises: {ex}',
                          case=case, impl=exc_kind(ex), predicate='no legal layout makes the evaluation fail')
        return None
    if not math.isfinite(val) or not all(math.isfinite(g) for g in grads):
        ctx.violation('MultiDatasetTCLLHRatio.evaluate', 'non-finite', 'value or gradient not finite',
                      case=case, impl=[val, grads])
        return None
    try:
        nsv = [vec[k] for k, d in enumerate([d for d in case['decls'] if not d['fixed']]) if d['name'] == 0][0]
        margins, n_st, n_un = [], 0, 0
        (fw, _fg) = W.f_service.get_weights()
        for j, swr in enumerate(W.swr):
            Nj = float(W.tdms[j].n_events)
            for r in np.asarray(swr._cache_R_i, dtype=float):
                al = nsv * float(fw[j]) * (r - 1.0) / Nj
                margins.append(abs(al + 0.999))
                if al > -0.999:
                    n_st += 1
                else:
                    n_un += 1
        ctx.count('events_regime:' + ('mixed' if n_st and n_un else 'all_stable' if n_st else 'all_taylor'))
        if margins and min(margins) < 1e-4:
            ctx.count('fd_skipped_near_threshold')
            return len(grads)
    except Exception:      # noqa: BLE001
        pass
    if len(grads) != nfl:
        ctx.violation('MultiDatasetTCLLHRatio.evaluate', 'gradient-length', 'gradient vector length != n_floating',
                      case=case, impl=len(grads), predicate='one entry per floating parameter')
    fl = [d for d in case['decls'] if not d['fixed']]
    for i in range(nfl):
        d = fl[i]
        h = case.get('fd_h', 2e-4) if d['name'] != 0 else 1e-3
        if case['regime'] in ('taylor', 'mixed') and d['name'] == 0:
            h = 1e-5

        def fval(x, i=i):
            v = list(vec)
            v[i] = x
            return I.evaluate_multi(W, v)[0]
        if on_kink(case, d, vec[i]):
            # the parameter sits on a grid point AND on its lower bound: the code returns the right-hand slope
            fd = richardson_right(fval, vec[i], 1e-3)
            ctx.count('fd_checks_one_sided_at_grid_point_and_bound')
        else:
            fd = richardson(fval, vec[i], h)
        scale = max(abs(fd), abs(grads[i]), 1e-3 * (abs(val) + 1.0))
        ctx.count('fd_checks')
        if abs(fd - grads[i]) > 2e-5 * scale + 1e-8:
            ctx.violation('MultiDatasetTCLLHRatio.evaluate', 'gradient-not-derivative:' + ('ns' if d['name'] == 0 else 'p'),
                          f'entry {i} (parameter {I.global_name(d["name"])}) = {grads[i]!r}, finite difference {fd!r}',
                          case=case, impl=grads, model=fd,
                          predicate='grads[i] == d value / d (i-th floating parameter in declaration order)')
    # single-dataset ratio on its own
    j = len(W.llh) - 1
    try:
        (v1, g1) = I.evaluate_single(W, j, vec)
        for i in range(nfl):
            d = fl[i]
            h = case.get('fd_h', 2e-4) if d['name'] != 0 else (1e-5 if case['regime'] in ('taylor', 'mixed') else 1e-3)

            def f1(x, i=i):
                v = list(vec)
                v[i] = x
                return I.evaluate_single(W, j, v)[0]
            fd = richardson_right(f1, vec[i], 1e-3) if on_kink(case, d, vec[i]) else richardson(f1, vec[i], h)
            scale = max(abs(fd), abs(g1[i]), 1e-3 * (abs(v1) + 1.0))
            ctx.count('fd_checks_single')
            if abs(fd - g1[i]) > 2e-5 * scale + 1e-8:
                ctx.violation('ZeroSigH0SingleDatasetTCLLHRatio.evaluate',
                              'gradient-not-derivative:' + ('ns' if d['name'] == 0 else 'p'),
                              f'entry {i} = {g1[i]!r}, finite difference {fd!r}', case=case, impl=g1, model=fd)
    except Exception as ex:      # noqa: BLE001
        if legal:
            ctx.violation('ZeroSigH0SingleDatasetTCLLHRatio.evaluate', 'raises-' + exc_kind(ex), str(ex), case=case)
    # second derivative in ns (stable regime only)
    if case['regime'] == 'stable' and legal:
        try:
            ns_i = [k for k, d in enumerate(fl) if d['name'] == 0][0]
            rec = W.pmm.create_src_params_recarray(np.array(vec))
            I.evaluate_multi(W, vec)
            g2 = float(W.multi.calculate_ns_grad2(ns=vec[ns_i], ns_pidx=ns_i, src_params_recarray=rec))

            def gns(x):
                v = list(vec)
                v[ns_i] = x
                return I.evaluate_multi(W, v)[1][ns_i]
            fd2 = richardson(gns, vec[ns_i], 1e-3)
            ctx.count('fd_checks_grad2')
            if abs(fd2 - g2) > 2e-5 * max(abs(fd2), abs(g2)) + 1e-8:
                ctx.violation('MultiDatasetTCLLHRatio.calculate_ns_grad2', 'grad2-not-derivative',
                              f'{g2!r} vs finite difference {fd2!r}', case=case, impl=g2, model=fd2)
        except Exception as ex:      # noqa: BLE001
            ctx.violation('MultiDatasetTCLLHRatio.calculate_ns_grad2', 'raises-' + exc_kind(ex), str(ex), case=case)
    return len(grads)


def history_probes(ctx, case, W):
    """metamorphic history probes on the REAL llh-ratio objects (tools/HARDENING.md): the value,
    the gradient vector and calculate_ns_grad2 must be functions of the current point only."""
    if any(W.map_errors) or case['regime'] != 'stable':
        return
    fl = [d for d in case['decls'] if not d['fixed']]
    if not any(d['name'] == 0 for d in fl) or len(case['vec']) != len(fl):
        return
    ns_i = [k for k, d in enumerate(fl) if d['name'] == 0][0]
    p1 = list(case['vec'])
    others = [k for k in range(len(fl)) if k != ns_i]
    p2 = list(p1)                      # same ns, another floating parameter moved
    for k in others:
        p2[k] = p1[k] + 0.0625 + 0.03125 * k
    p3 = list(p1)
    p3[ns_i] = p1[ns_i] + 0.5          # other ns
    p0 = list(p2)
    p0[ns_i] = 0.0                     # the lower bound: ns*f_j repeats whatever f_j is
    q0 = list(p1)
    q0[ns_i] = 0.0
    ctx.count('history_probes')

    def multi_g2(Wx, pt):
        rec = Wx.pmm.create_src_params_recarray(np.array(pt))
        return float(Wx.multi.calculate_ns_grad2(ns=pt[ns_i], ns_pidx=ns_i, src_params_recarray=rec))

    def fresh(pt, single=None):
        Wf = I.make_world(case)
        if single is None:
            r = I.evaluate_multi(Wf, pt)
            return r, multi_g2(Wf, pt)
        r = I.evaluate_single(Wf, single, pt)
        return r, float(Wf.llh[single].calculate_ns_grad2(ns=pt[ns_i]))

    def close(a, b):
        return abs(a - b) <= 1e-9 * max(abs(a), abs(b)) + 1e-12

    def same_eval(r, q):
        return close(r[0], q[0]) and len(r[1]) == len(q[1]) and all(close(x, y) for x, y in zip(r[1], q[1]))

    try:
        # ---- multi-dataset object: repeat / interleave / arguments-are-inputs / results owned by caller
        arg = np.array(p1, dtype=np.float64)
        snap = arg.copy()
        (v1, g1) = W.multi.evaluate(arg)
        keep = np.array(g1, copy=True)
        (v1b, g1b) = W.multi.evaluate(arg)
        if not np.array_equal(arg, snap):
            ctx.violation('MultiDatasetTCLLHRatio.evaluate', 'argument-modified', 'fitparam_values changed by evaluate', case=case)
        if np.shares_memory(g1, g1b):
            ctx.violation('MultiDatasetTCLLHRatio.evaluate', 'result-shares-memory', 'gradient arrays of two calls share memory', case=case)
        if float(v1) != float(v1b) or not np.array_equal(g1, g1b):
            ctx.violation('MultiDatasetTCLLHRatio.evaluate', 'history:repeat-differs', 'same point twice, different result',
                          case=case, impl=[float(v1), float(v1b)])
        ga = multi_g2(W, p1)
        r2 = I.evaluate_multi(W, p2)
        if not np.array_equal(g1, keep):
            ctx.violation('MultiDatasetTCLLHRatio.evaluate', 'result-overwritten', 'gradient of an earlier call changed', case=case)
        gb = multi_g2(W, p2)                       # same ns as the call before, other point
        (f2, f2g2) = fresh(p2)
        if not same_eval(r2, f2):
            ctx.violation('MultiDatasetTCLLHRatio.evaluate', 'history:differs-from-fresh', 'evaluate(p1); evaluate(p2) != fresh evaluate(p2)',
                          case={'case': case, 'sequence': [p1, p2]}, impl=r2, model=f2)
        if not close(gb, f2g2):
            ctx.violation('MultiDatasetTCLLHRatio.calculate_ns_grad2', 'history:stale-second-derivative',
                          'evaluate(p1); ns_grad2(ns); evaluate(p2); ns_grad2(ns) differs from a fresh object at p2',
                          case={'case': case, 'sequence': [p1, p2]}, impl=gb, model=f2g2,
                          predicate='ns_grad2 is a function of the current point only')
        r1c = I.evaluate_multi(W, p1)              # interleave: back to p1
        if not same_eval(r1c, (float(v1), [float(x) for x in keep])):
            ctx.violation('MultiDatasetTCLLHRatio.evaluate', 'history:interleave-differs', 'p1, p2, p1: third differs from first',
                          case={'case': case, 'sequence': [p1, p2, p1]}, impl=r1c)
        if not close(multi_g2(W, p1), ga):
            ctx.violation('MultiDatasetTCLLHRatio.calculate_ns_grad2', 'history:stale-second-derivative', 'p1, p2, p1', case=case)
        # the bound ns = 0 (per-dataset argument 0*f_j repeats for every parameter point)
        I.evaluate_multi(W, q0)
        multi_g2(W, q0)
        I.evaluate_multi(W, p0)
        gz = multi_g2(W, p0)
        (_fz, fz2) = fresh(p0)
        if not close(gz, fz2):
            ctx.violation('MultiDatasetTCLLHRatio.calculate_ns_grad2', 'history:stale-second-derivative',
                          'at ns = 0 after a visit of ns = 0 at another parameter point',
                          case={'case': case, 'sequence': [q0, p0]}, impl=gz, model=fz2)
        # ---- every single-dataset object: the same sequence, ns_grad2 against FD of the ns-gradient at the CURRENT point
        for j in range(len(W.llh)):
            for (a, b) in ((p1, p2), (p2, p3), (p3, p1)):
                I.evaluate_single(W, j, a)
                W.llh[j].calculate_ns_grad2(ns=a[ns_i])
                rb = I.evaluate_single(W, j, b)
                g2 = float(W.llh[j].calculate_ns_grad2(ns=b[ns_i]))
                g2r = float(W.llh[j].calculate_ns_grad2(ns=b[ns_i]))
                if g2 != g2r:
                    ctx.violation('ZeroSigH0SingleDatasetTCLLHRatio.calculate_ns_grad2', 'history:repeat-differs', 'two calls in a row', case=case)

                def gns(x, j=j, b=b):
                    v = list(b)
                    v[ns_i] = x
                    return I.evaluate_single(W, j, v)[1][ns_i]
                fd2 = richardson(gns, b[ns_i], 1e-3)
                I.evaluate_single(W, j, b)
                ctx.count('history_grad2_checks')
                if abs(fd2 - g2) > 2e-5 * max(abs(fd2), abs(g2)) + 1e-8:
                    ctx.violation('ZeroSigH0SingleDatasetTCLLHRatio.calculate_ns_grad2', 'history:stale-second-derivative',
                                  f'after evaluate({a}); ns_grad2; evaluate({b}): {g2!r}, finite difference of the ns-gradient at the current point {fd2!r}',
                                  case={'case': case, 'sequence': [a, b], 'dataset': j}, impl=g2, model=fd2,
                                  predicate='ns_grad2 = d grads[ns] / d ns at the point of the last evaluate')
            (fr, frg2) = fresh(p1, single=j)
            r = I.evaluate_single(W, j, p1)
            if not same_eval(r, fr) or not close(float(W.llh[j].calculate_ns_grad2(ns=p1[ns_i])), frg2):
                ctx.violation('ZeroSigH0SingleDatasetTCLLHRatio.evaluate', 'history:differs-from-fresh', 'after a sequence of points',
                              case={'case': case, 'dataset': j}, impl=r, model=fr)
        # ---- new trial: the same object re-initialised equals a fresh one
        for llh in W.llh:
            llh.initialize_for_new_trial()
        rn = I.evaluate_multi(W, p2)
        if not same_eval(rn, f2) or not close(multi_g2(W, p2), f2g2):
            ctx.violation('MultiDatasetTCLLHRatio.evaluate', 'history:differs-from-fresh', 'after initialize_for_new_trial',
                          case={'case': case}, impl=rn, model=f2)
    except Exception as ex:      # noqa: BLE001
        ctx.violation('history_probes', 'raises-' + exc_kind(ex), str(ex), case=case)


def hxs(xs):
    return ' '.join(common.fhex(float(x)) for x in xs)


def collect_float(ctx, case, W, jobs):
    """lines for the extracted gradient model (ocaml/c02): M_LlhGrad.pipeline_eval on the inputs the
    code has inside evaluate (a_jk rows, their gradient rows, the (source, event, R_ik, dR_ik) tables)
    and M_LlhGrad.sob_eval for the parameter dependent signal-over-background factor"""
    if any(W.map_errors):
        return
    fl = [d for d in case['decls'] if not d['fixed']]
    if not any(d['name'] == 0 for d in fl) or len(case['vec']) != len(fl):
        return
    vec = list(case['vec'])
    ns_i = [k for k, d in enumerate(fl) if d['name'] == 0][0]
    try:
        (val, grads) = I.evaluate_multi(W, vec)
        rec = W.pmm.create_src_params_recarray(np.array(vec))
        g2 = float(W.multi.calculate_ns_grad2(ns=vec[ns_i], ns_pidx=ns_i, src_params_recarray=rec))
        (a_jk, a_grads) = W.a_service.get_weights()
        fids = [k for k in range(len(fl)) if k != ns_i] or [None]
        for fid in fids:
            toks = ['pipe', common.fhex(1e-3), common.fhex(vec[ns_i]), str(len(W.llh))]
            for j, tdm in enumerate(W.tdms):
                inner = W.swr[j].pdfratio
                (src, evt) = tdm.src_evt_idxs
                R = np.asarray(inner.get_ratio(tdm=tdm, src_params_recarray=rec), dtype=float)
                dR = inner.get_gradient(tdm=tdm, src_params_recarray=rec, fitparam_id=fid) if fid is not None else 0
                dR = np.zeros_like(R) if isinstance(dR, int) else np.asarray(dR, dtype=float)
                if dR.shape != R.shape:
                    ctx.violation('PDFRatio.get_gradient', 'gradient-shape', f'shape {dR.shape} for {R.shape} values', case=case)
                    return
                a = a_jk[j]
                toks += [common.fhex(float(tdm.n_events)), str(tdm.n_selected_events), str(len(a)), hxs(a)]
                if fid is not None and fid in a_grads:
                    toks += ['1', hxs(a_grads[fid][j])]
                else:
                    toks += ['0']
                toks.append(str(len(R)))
                for v in range(len(R)):
                    toks += [str(int(src[v])), str(int(evt[v])), common.fhex(R[v]), common.fhex(dR[v])]
            gp = grads[fid] if fid is not None else 0.0
            jobs.append((' '.join(toks), ('pipe', case, fid, [val, grads[ns_i], gp, g2])))
        # the four quotient-rule cases of SigOverBkgPDFRatio.get_gradient, row by row
        for j, sp in enumerate(W.sobp):
            if sp is None:
                continue
            (sobp, sigp, bkgp) = sp
            tdm = W.tdms[j]
            (src, evt) = tdm.src_evt_idxs
            ratio = np.asarray(sobp.get_ratio(tdm=tdm, src_params_recarray=rec), dtype=float)
            s_pd = np.asarray(sobp._cache_sig_pd, dtype=float)
            b_ev = np.asarray(sobp._cache_bkg_pd, dtype=float)
            for fid in range(len(fl)):
                g = np.asarray(sobp.get_gradient(tdm=tdm, src_params_recarray=rec, fitparam_id=fid), dtype=float)
                sd = fid in sobp._cache_sig_grads
                bd = fid in sobp._cache_bkg_grads
                ctx.count('sob_case:' + ('both' if sd and bd else 'sig' if sd else 'bkg' if bd else 'none'))
                sg = np.asarray(sobp._cache_sig_grads[fid], dtype=float) if sd else np.zeros_like(s_pd)
                bg = np.asarray(sobp._cache_bkg_grads[fid], dtype=float) if bd else np.zeros_like(b_ev)
                if g.shape != s_pd.shape:
                    ctx.violation('SigOverBkgPDFRatio.get_gradient', 'gradient-shape', f'{g.shape} vs {s_pd.shape}', case=case)
                    continue
                for v in range(len(s_pd)):
                    e = int(evt[v])
                    if b_ev[e] == 0.0:
                        ctx.count('sob_zero_bkg_rows')
                    line = ' '.join(['sob', common.fhex(sobp.zero_bkg_ratio_value), common.fhex(s_pd[v]), common.fhex(sg[v]),
                                     common.fhex(b_ev[e]), common.fhex(bg[e]), '1' if sd else '0', '1' if bd else '0'])
                    jobs.append((line, ('sob', case, fid, [ratio[v], g[v]])))
    except Exception as ex:      # noqa: BLE001
        legal = True
        ctx.violation('gradient-pipeline', 'raises-' + exc_kind(ex), f'{type(ex).__name__}: {ex}', case=case,
                      predicate='no legal layout makes the evaluation fail')


def run_float(ctx, jobs):
    if not jobs:
        return
    exe = getattr(ctx, '_c02_exe', None)
    if exe is None:
        exe = common.ocaml_build(ctx, 'c02')
        ctx._c02_exe = exe
    if exe is None:
        return
    try:
        out = common.ocaml_run(exe, [j[0] for j in jobs])
    except RuntimeError as ex:
        ctx.broken.append({'kind': 'model-eval', 'error': str(ex)[:1000]})
        return
    if len(out) != len(jobs):
        ctx.broken.append({'kind': 'model-eval', 'error': f'{len(out)} results for {len(jobs)} lines'})
        return
    for (line, (kind, case, fid, want)), res in zip(jobs, out):
        ctx.corr_cases += 1
        ctx.count('float_model_' + kind)
        try:
            got = [float.fromhex(t) for t in res.split()]
        except ValueError:
            got = None
        ok = got is not None and len(got) == len(want)
        if ok:
            for w, g in zip(want, got):
                w = float(w)
                if math.isnan(w) or math.isnan(g) or math.isinf(w) or math.isinf(g):
                    ok = ok and (w == g or (math.isnan(w) and math.isnan(g)))
                else:
                    ok = ok and abs(w - g) <= 1e-8 * max(1.0, abs(w), abs(g))
        if not ok:
            ctx.disagree('gradient-model.' + kind, {'case': case, 'fitparam_id': fid, 'line': line[:4000]},
                         [float(x) for x in want], got,
                         detail='(value, grads[ns], grads[p], ns_grad2) of the extracted model on doubles vs the real classes'
                         if kind == 'pipe' else '(ratio, gradient) of one row of SigOverBkgPDFRatio')


# ------------------------------------------------------------------ extension stream:
# TrialDataManager.get_values_mask_for_source_mask (real method on the real TrialDataManager of a world)
# against M_LayoutExt.values_mask_res, exact; predicate = brute force over the (source, event) table
VM_IMPORTS = ('From Coq Require Import ZArith List. Import ListNotations. Open Scope Z_scope.\n'
              'From Sky Require Import Result PyList M_Layout M_LayoutExt.\n')


def vm_case_run(ctx, W, j, mask):
    """-> (canonical impl result, model expression)"""
    tdm = W.tdms[j]
    src = [int(k) for k in tdm.src_evt_idxs[0]]
    nsrc = int(tdm.n_sources)
    try:
        r = tdm.get_values_mask_for_source_mask(np.array(mask, dtype=bool))
        impl = ['Ok', [bool(x) for x in r]]
        want = [0 <= k < len(mask) and bool(mask[k]) for k in src]
        if impl[1] != want:
            ctx.violation('TrialDataManager.get_values_mask_for_source_mask', 'wrong-values-mask',
                          'a value is selected although its source is not (or vice versa)',
                          case={'vm': {'src': src, 'n_sources': nsrc, 'mask': [bool(b) for b in mask]}},
                          impl=impl[1], model=want, predicate='values_mask[v] == src_mask[src_idxs[v]]')
    except Exception as ex:      # noqa: BLE001
        impl = ['Err', exc_kind(ex)]
        if len(mask) == nsrc:
            ctx.violation('TrialDataManager.get_values_mask_for_source_mask', 'raises-' + exc_kind(ex),
                          'raises for a mask of the right length',
                          case={'vm': {'src': src, 'n_sources': nsrc, 'mask': [bool(b) for b in mask]}}, impl=impl)
    expr = (f"values_mask_res {nsrc}%nat [{'; '.join('true' if b else 'false' for b in mask)}] {common.zlist(src)}")
    return impl, expr, {'vm': {'src': src, 'n_sources': nsrc, 'mask': [bool(b) for b in mask], 'dataset': j}}


def vm_compare(ctx, items, tag):
    if not items or not ctx.model_ok:
        return
    try:
        vals = common.coq_eval('c02vm' + tag, VM_IMPORTS, [e for (_i, e, _c) in items])
    except RuntimeError as ex:
        ctx.broken.append({'kind': 'model-eval', 'error': str(ex)[:1000]})
        return
    for (impl, _e, c), v in zip(items, vals):
        ctx.corr_cases += 1
        ctx.count('values_mask_stream:' + impl[0])
        m = ['Ok', list(v[1])] if isinstance(v, tuple) and v[0] == 'Ok' else (['Err', v[1]] if isinstance(v, tuple) else ['?', repr(v)])
        if m != impl:
            ctx.disagree('trialdata.values_mask', c, impl, m)


def vm_stream(ctx, rng, W, items, n_masks):
    for j in range(len(W.tdms)):
        nsrc = int(W.tdms[j].n_sources)
        masks = [[True] * nsrc, [False] * nsrc]
        for _ in range(n_masks):
            masks.append([rng.random() < 0.5 for _ in range(nsrc)])
        # malformed: wrong length (numpy raises IndexError for a boolean index of the wrong size)
        masks.append([True] * (nsrc + 1))
        if nsrc > 1:
            masks.append([True] * (nsrc - 1))
        for m in masks:
            items.append(vm_case_run(ctx, W, j, m))


# ------------------------------------------------------------------ driver
def corpus_cases(ctx, rng):
    """regression corpus: the layouts of the two repaired defects (known_findings `fixed`):
    a fixed parameter declared before the floating ones (gpidx = index among all parameters),
    and a parameter applying to a subset of the sources (get_values_mask_for_source_mask NameError), and a trial data manager with a data
    field that depends on a global fit parameter (evaluate raised AttributeError)"""
    out = []
    for spec in ({'n_src': 2, 'k_other': 2, 'n_needed': 1, 'fixed': [True, False], 'order': 1, 'regime': 'stable', 'on_grid': False, 'n_ds': 2,
                  'gf_field': True},
                 {'n_src': 2, 'k_other': 3, 'n_needed': 2, 'fixed': [True, False, False], 'order': 2, 'regime': 'stable', 'on_grid': False, 'n_ds': 2},
                 {'n_src': 3, 'k_other': 2, 'n_needed': 1, 'fixed': [False, False], 'order': 0, 'regime': 'stable', 'on_grid': False, 'n_ds': 1}):
        out.append(gen_case(ctx, rng, spec))
        out[-1]['probe'] = True
    # mixed stable / Taylor regime (some events below, some above the threshold) and the parameter dependent
    # signal-over-background factor with zero-background events (audit: escaping gradient mutations)
    for spec in ({'n_src': 1, 'k_other': 1, 'n_needed': 1, 'fixed': [False], 'order': 0, 'regime': 'mixed', 'on_grid': False, 'sobp': False},
                 {'n_src': 2, 'k_other': 2, 'n_needed': 1, 'fixed': [False, False], 'order': 1, 'regime': 'mixed', 'on_grid': False, 'sobp': True},
                 {'n_src': 2, 'k_other': 2, 'n_needed': 2, 'fixed': [True, False], 'order': 2, 'regime': 'mixed', 'on_grid': False, 'sobp': True},
                 {'n_src': 2, 'k_other': 2, 'n_needed': 1, 'fixed': [False, False], 'order': 0, 'regime': 'stable', 'on_grid': False, 'sobp': True, 'n_ds': 2},
                 {'n_src': 3, 'k_other': 3, 'n_needed': 2, 'fixed': [False, True, False], 'order': 3, 'regime': 'stable', 'on_grid': False, 'sobp': True, 'n_ds': 1},
                 {'n_src': 1, 'k_other': 1, 'n_needed': 1, 'fixed': [False], 'order': 1, 'regime': 'taylor', 'on_grid': False}):
        out.append(gen_case(ctx, rng, spec))
    # round 4: (a) per-source aliases of the interpolation parameter at EQUAL values, probed with a step far below
    # 1e-5 (seeded C02-7: relative tolerance in the "all sources share gamma" test); (b) a SignalPDFProduct of two
    # PDF sets interpolated in the same parameter (seeded C02-8: product-rule terms overwritten), shared and alias
    for spec in ({'n_src': 2, 'k_other': 2, 'n_needed': 1, 'fixed': [False, False], 'order': 0, 'assign': [0, 1], 'n_ds': 1,
                  'methods': ['linear'], 'kinds': ['i3'], 'equal_values': True},
                 {'n_src': 3, 'k_other': 2, 'n_needed': 1, 'fixed': [False, False], 'order': 1, 'assign': [0, 1, 1], 'n_ds': 2,
                  'methods': ['parabola'], 'kinds': ['i3'], 'equal_values': True},
                 {'n_src': 2, 'k_other': 1, 'n_needed': 1, 'fixed': [False], 'order': 0, 'n_ds': 1,
                  'methods': ['linear'], 'kinds': ['sigprod']},
                 {'n_src': 2, 'k_other': 2, 'n_needed': 1, 'fixed': [False, False], 'order': 2, 'assign': [0, 1], 'n_ds': 2,
                  'methods': ['parabola'], 'kinds': ['sigprod']},
                 {'n_src': 3, 'k_other': 3, 'n_needed': 2, 'fixed': [False, True, False], 'order': 1, 'n_ds': 1,
                  'methods': ['linear', 'parabola'], 'kinds': ['sigprod', 'i3']}):
        spec.update({'regime': 'stable', 'on_grid': False, 'sobp': False, 'gf_field': False})
        out.append(gen_case(ctx, rng, spec))
        out[-1]['probe'] = True
    # a floating parameter that only the detector yields read, several sources, parameter-free product ratio
    # (seeded C02-2: the source-weight contribution dropped by an early return), single and multi dataset
    for spec in ({'n_src': 2, 'k_other': 1, 'n_needed': 1, 'fixed': [False], 'order': 0, 'n_ds': 1},
                 {'n_src': 3, 'k_other': 1, 'n_needed': 1, 'fixed': [False], 'order': 1, 'n_ds': 2},
                 {'n_src': 3, 'k_other': 2, 'n_needed': 1, 'fixed': [False, False], 'order': 2, 'n_ds': 3, 'assign': [0, 1, 0]},
                 {'n_src': 2, 'k_other': 2, 'n_needed': 1, 'fixed': [True, False], 'order': 1, 'n_ds': 2, 'assign': [1, 1]}):
        spec.update({'yield_only': True, 'regime': 'stable', 'on_grid': False, 'sobp': False, 'gf_field': False})
        out.append(gen_case(ctx, rng, spec))
        out[-1]['probe'] = True
    return out


def alias_specs():
    """two or three floating parameters aliased to the SAME interpolation parameter, each on a proper
    subset of >= 2 sources (disjoint by construction: map_param rejects a second parameter under the
    same local name of a source), both interpolation methods, through the real signal PDF set"""
    for (n_src, k, assign) in ((2, 2, [0, 1]), (2, 2, [1, 0]), (3, 2, [0, 0, 1]), (3, 2, [0, 1, 0]),
                               (3, 3, [0, 1, 2]), (3, 3, [2, 0, 1]), (3, 3, [0, 0, 1])):
        for meth in ('linear', 'parabola'):
            for kind in ('sigset', 'i3'):
                for n_needed in ((1,) if k == 2 else (1, 2)):
                    yield {'n_src': n_src, 'k_other': k, 'n_needed': n_needed, 'fixed': [False] * k, 'assign': assign,
                           'methods': [meth], 'kinds': [kind], 'regime': 'stable', 'on_grid': False}


def enumerated_specs():
    """all fixed/floating patterns x declaration orders for 0..3 further parameters"""
    for k in range(0, 4):
        for fixed in itertools.product([False, True], repeat=k):
            for order in range(2 * (k + 1) if k >= 2 else (k + 1)):
                for n_src in (1, 2, 3):
                    yield {'k_other': k, 'fixed': list(fixed), 'order': order, 'n_src': n_src}


def process(ctx, cases, tag):
    exprs, impls, jobs, vm_items = [], [], [], []
    for ci, c in enumerate(cases):
        ctx.case({'decls': c['decls'], 'groups': c['groups'], 'vec': c['vec'], 'pairs': c['datasets'][0]['pairs']},
                 nontrivial=(len(c['vec']) >= 2 or c['n_src'] >= 2))
        try:
            W = I.make_world(c)
        except Exception as ex:      # noqa: BLE001
            ctx.violation('harness.make_world', 'raises-' + exc_kind(ex), str(ex), case=c)
            impls.append(None)
            exprs.append(model_expr(c))
            continue
        lay = observe_impl(ctx, c, W)
        if isinstance(lay, dict):
            n = fd_predicates(ctx, c, W, lay)
            lay['glen'] = n
            collect_float(ctx, c, W, jobs)
            if ci % 4 == 0 or c.get('probe'):
                vm_stream(ctx, ctx.rng, W, vm_items, 2)
            if ctx.thorough() or c.get('probe') or ci % 3 == 0:
                history_probes(ctx, c, W)
        impls.append(lay)
        exprs.append(model_expr(c))
    if not ctx.model_ok:
        ctx.notes.append('model did not build: implementation-only predicates were evaluated')
        return
    run_float(ctx, jobs)
    vm_compare(ctx, vm_items, tag)
    try:
        vals = common.coq_eval('c02' + tag, IMPORTS, exprs)
    except RuntimeError as ex:
        ctx.broken.append({'kind': 'model-eval', 'error': str(ex)[:1500]})
        return
    for c, imp, v in zip(cases, impls, vals):
        if imp is None:
            continue
        ctx.corr_cases += 1
        try:
            m = canon_model(v, len(c['datasets'][0]['pairs']))
        except Exception as ex:      # noqa: BLE001
            m = ['unparsed', repr(v)[:300], str(ex)]
        if isinstance(imp, list) and isinstance(m, list) and imp[0] == 'Err' and m[0] == 'Err':
            ctx.count('error_kind:' + imp[1])
        if not same_layout(imp, m):
            ctx.disagree('layout.observe', c, imp, m)


def run(ctx):
    rng = ctx.rng
    cases = corpus_cases(ctx, rng)
    specs = list(enumerated_specs())
    if not ctx.thorough():
        specs = [s for i, s in enumerate(specs) if i % 5 == 0]
    al = list(alias_specs())
    if not ctx.thorough():
        al = [s for s in al if s['kinds'] == ['sigset'] or s['assign'] in ([0, 1], [0, 0, 1])]
    specs = al + specs
    for s in specs:
        cases.append(gen_case(ctx, rng, dict(s)))
        if 'assign' in s:
            cases[-1]['probe'] = True
    n_random = ctx.budget(40, 700)
    for _ in range(n_random):
        cases.append(gen_case(ctx, rng))
    # malformed stream: duplicate local name, ns fixed, wrong vector length
    for _ in range(ctx.budget(4, 30)):
        cases.append(gen_case(ctx, rng, {'dup': True}))
        cases.append(gen_case(ctx, rng, {'ns_fixed': True}))
        c = gen_case(ctx, rng)
        c['vec'] = c['vec'] + [2.0]
        cases.append(c)
    ctx.count('malformed_cases', 3 * ctx.budget(4, 30))
    ctx.sample({'decls': cases[0]['decls'], 'groups': cases[0]['groups'], 'vec': cases[0]['vec']})
    ctx.sample({'decls': cases[-5]['decls'], 'groups': cases[-5]['groups'], 'vec': cases[-5]['vec']})
    process(ctx, cases, '')


def replay(ctx, rp):
    c = rp.get('case')
    if c and 'vm' in c:
        # values-mask stream: rebuild a minimal trial data manager holding exactly that (source, event) table
        vm = c['vm']
        n_src = max(int(vm['n_sources']), 1)
        pairs = [(int(k), i) for i, k in enumerate(vm['src'])]
        case = {'n_src': n_src, 'decs': [0.1] * n_src, 'weights': [1.0] * n_src, 'groups': [(n_src, None)], 'n_ds': 1,
                'decls': [{'name': 0, 'fixed': False, 'val': 1.0, 'names': [1] * n_src}],
                'datasets': [{'n_raw': max(len(pairs), 1), 'N': len(pairs) + 20, 'keep': list(range(max(len(pairs), 1))),
                              'pairs': pairs, 'bkg': [1.0] * max(len(pairs), 1), 'sig': [1.0] * len(pairs), 'eratios': []}],
                'vec': [1.0], 'regime': 'stable', 'on_grid': False, 'needed': []}
        W = I.make_world(case)
        items = [vm_case_run(ctx, W, 0, vm['mask'])]
        ctx.case(vm)
        vm_compare(ctx, items, 'r')
        return
    if not c or 'decls' not in c:
        ctx.notes.append('replay file has no concrete input (broken obligation): re-running the full check')
        return run(ctx)
    c['groups'] = [tuple(g) for g in c['groups']]
    for d in c['datasets']:
        d['pairs'] = [tuple(p) for p in d['pairs']]
        d['eratios'] = [tuple(e) for e in d['eratios']]
    process(ctx, [c], 'r')
