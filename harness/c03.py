"""C03 — dataset and source weights form a partition of unity; composition laws.

Correspondence: the REAL SrcDetSigYieldWeightsService, DatasetSignalWeightFactorsService,
SourceWeightedPDFRatio, ZeroSigH0SingleDatasetTCLLHRatio and MultiDatasetTCLLHRatio (table-driven
stub detector yields, a stub inner PDF ratio returning prescribed R_ik, a stub TrialDataManager
returning a prescribed (source, event) pair table) against coq/model/M_Weights.v, extracted to
OCaml and executed on IEEE doubles.
Predicates (failing-input search): the property itself evaluated on the implementation's results
with independent oracles in exact rational arithmetic (fractions.Fraction) and with metamorphic
re-runs of the implementation (all permutations of datasets / sources, regrouping, common scale)."""
import itertools
import math
import warnings
from fractions import Fraction

import numpy as np

from harness import common
from harness.common import fhex

GEN_MODULES = ['weights']
MODEL_TARGETS = ['model/M_Weights.vo']
PROOF_TARGETS = ['proofs/P_WeightsComp.vo', 'proofs/P_WeightsSvc.vo', 'proofs/P_WeightsTable.vo', 'proofs/P_WeightsPerm.vo']
LEVEL = 'proof'
RULE = ('yield tables with J<=4 datasets, K<=5 sources in 1..3 hypothesis groups, entries log-uniform over '
        '12 decades incl. exact zeros, zero dataset rows and zero source columns; pair tables duplicate-free '
        '(plus a malformed stream: duplicates, bad event index, wrong yield length, wrong dataset index, '
        'all-zero table); all permutations of datasets and of sources enumerated, regrouping, scale factors '
        '10^-6..10^6 and exact powers of two; a case is non-trivial when the table has a positive total and '
        'is distinct by hash of (weights, yields, pair tables, ns)')
TRUSTED = [
    'Coq 8.16.1 kernel incl. vm_compute (no native_compute)',
    'axioms printed per theorem: the standard-library real-number axioms (ClassicalDedekindReals.sig_not_dec, '
    'sig_forall_dec, functional_extensionality_dep) and Classical_Prop.classic',
    'translator/py2coq.py: per-element reading of the numpy statements (24 kernels of G_weights.v: slices, row / '
    'mask / index expressions, a_jk, f_j, stacked-ratio update and normalisation, ns*f, the dataset sum, and '
    'the value formulas of the single-dataset log-likelihood ratio)',
    'extraction (ExtrOcamlBasic only) and the hand-written OCaml driver / float record (ocaml/common, ocaml/c03)',
    'hand model M_Weights.v of loops, slices, masks, numpy `+=` through an index array and reductions, '
    'validated by this correspondence (self-contained: it repeats, over its own kernels, the pieces shared '
    'with C01 in M_Llh.v)',
    'theorems speak about the real-number reading; float rounding (and numpy\'s pairwise summation order) is a '
    'named gap covered only by the tolerance of the correspondence',
    'the duplicate-free (source, event) pair table is a hypothesis of the weighted-mean theorems (it is the '
    'invariant of the event selection, property C05); without it C03_stacked_dup_refuted shows what happens',
    'stubs: table-driven DetSigYield, inner PDFRatio, Mock TrialDataManager / DetSigYieldService / Minimizer',
    'oracles of the predicates: exact rational arithmetic (fractions.Fraction) and math.fsum/log1p',
]

EPS = 2.0 ** -52
_SK = None


def sk():
    """lazy import of the skyllh classes (the repo path is set by ./check)"""
    global _SK
    if _SK is None:
        from unittest.mock import Mock
        from skyllh.core.config import Config
        from skyllh.core.detsigyield import DetSigYield, DetSigYieldBuilder
        from skyllh.core.flux_model import SteadyPointlikeFFM
        from skyllh.core.parameters import Parameter, ParameterModelMapper
        from skyllh.core.services import (DatasetSignalWeightFactorsService, DetSigYieldService,
                                          SrcDetSigYieldWeightsService)
        from skyllh.core.source_hypo_grouping import SourceHypoGroup, SourceHypoGroupManager
        from skyllh.core.source_model import PointLikeSource
        from skyllh.core.pdfratio import PDFRatio, SourceWeightedPDFRatio
        from skyllh.core.llhratio import ZeroSigH0SingleDatasetTCLLHRatio, MultiDatasetTCLLHRatio
        from skyllh.core.trialdata import TrialDataManager
        from skyllh.core.minimizer import Minimizer

        class TableYield(DetSigYield):
            """detector signal yield of ONE (dataset, group) cell.  Like a real DetSigYield it puts what it
            needs per source into the source record array (here: the prescribed yields of THIS detector,
            field `Y`, plus the source weight as a witness of which sources the array was built from) and
            evaluates that record array in __call__: a record array built by another dataset's detector,
            or for an older source list, gives other yields."""
            def __init__(self, table):
                self._t = np.array(table, dtype=np.float64)

            def sources_to_recarray(self, sources):
                rec = np.zeros((len(self._t),), dtype=[('Y', np.double), ('nsrc', np.int64)])
                rec['Y'] = self._t
                rec['nsrc'] = len(sources)
                return rec

            def __call__(self, src_recarray, src_params_recarray):
                y = src_recarray['Y'] * src_params_recarray['eta']
                return (y, {})

        class NoBuilder(DetSigYieldBuilder):
            def __init__(self, **kw):
                super().__init__(**kw)

            def construct_detsigyield(self, **kw):
                pass

        class StubRatio(PDFRatio):
            """inner PDF ratio returning the prescribed (N_values,) array R_ik"""
            def __init__(self, vals, **kw):
                super().__init__(sig_param_names=None, bkg_param_names=None, **kw)
                self._v = np.array(vals, dtype=np.float64)

            def initialize_for_new_trial(self, tdm, tl=None, **kw):
                pass

            def get_ratio(self, tdm, src_params_recarray, tl=None):
                return self._v if getattr(self, 'alias', False) else self._v.copy()

            def get_gradient(self, tdm, src_params_recarray, fitparam_id, tl=None):
                return 0

        class NS:
            pass
        s = NS()
        s.__dict__.update(locals())
        s.cfg = Config()
        s.mini = Mock(spec_set=['__class__'])
        s.mini.__class__ = Minimizer
        s.opa = float(ZeroSigH0SingleDatasetTCLLHRatio._one_plus_alpha)
        _SK = s
    return _SK


# ----------------------------------------------------------------------------- implementation

def exc_name(ex):
    return type(ex).__name__


def mk_tdm(S, n_events, n_sel, vals):
    tdm = S.Mock(spec_set=['__class__', 'n_events', 'n_selected_events', 'src_evt_idxs',
                           'has_global_fitparam_data_fields', 'n_pure_bkg_events',
                           'calculate_source_data_fields', 'change_shg_mgr'])
    tdm.__class__ = S.TrialDataManager
    tdm.n_events = n_events
    tdm.n_selected_events = n_sel
    tdm.src_evt_idxs = (np.array([v[0] for v in vals], dtype=np.int64),
                        np.array([v[1] for v in vals], dtype=np.int64))
    tdm.has_global_fitparam_data_fields = False
    tdm.n_pure_bkg_events = n_events - n_sel
    return tdm


def eta_of(k):
    """fixed per-source parameter `eta` (by global source position, as the ParameterModelMapper hands it
    out in src_params_recarray); powers of two, so that (Y / eta) * eta == Y exactly"""
    return 2.0 ** ((k % 5) - 2)


def eta_vecs(case):
    out, k = [], 0
    for W in case['groups']:
        out.append(np.array([eta_of(k + i) for i in range(len(W))], dtype=np.float64))
        k += len(W)
    return out


def stub_table(case, j, g):
    """what the stub detector of cell (j, g) stores: the prescribed yields divided by the sources' eta
    (the stub multiplies with the eta values it finds in ITS slice of src_params_recarray)"""
    y = np.array(case['Y'][j][g], dtype=np.float64)
    e = eta_vecs(case)[g]
    return y / e if len(y) == len(e) else y


def effective_Y(case, j, g):
    """the yields the service receives from the stub of cell (j, g)"""
    y = case['Y'][j][g]
    e = eta_vecs(case)[g]
    if len(y) == len(e):
        return list(y)
    try:
        return [float(x) for x in np.array(y, dtype=np.float64) * e]
    except ValueError:
        return list(y)


class Stack:
    """The real objects for one configuration.  `observe()` drives them; `apply(case2)` turns the
    SAME long-lived objects into another configuration of the same shape (J, group sizes, number of
    llh ratios) the way an analysis does it: the sources of the SourceHypoGroupManager are re-ordered /
    re-weighted in place, the (stub) detector yields and trial data are replaced, and the public
    change_shg_mgr(...) path is called."""

    def __init__(self, case, alias=False):
        S = sk()
        self.S = S
        self.case = case
        J = case['J']
        groups = case['groups']
        shgs, allsrc = [], []
        for g, W in enumerate(groups):
            srcs = [S.PointLikeSource(name=f'S{g}_{i}', ra=0., dec=0.1, weight=float(w)) for i, w in enumerate(W)]
            allsrc += srcs
            shgs.append(S.SourceHypoGroup(
                sources=srcs, fluxmodel=S.SteadyPointlikeFFM(Phi0=1, energy_profile=None, cfg=S.cfg),
                detsigyield_builders=S.NoBuilder(cfg=S.cfg), sig_gen_method=None))
        self.shg_mgr = S.SourceHypoGroupManager(shgs)
        self.pmm = S.ParameterModelMapper(models=allsrc)
        self.pmm.map_param(S.Parameter('gamma', 2.0, 1.0, 4.0))       # floating, declared before ns
        for k, src in enumerate(allsrc):
            self.pmm.map_param(S.Parameter(f'eta{k}', eta_of(k)), models=[src], model_param_names='eta')
        self.pmm.map_param(S.Parameter('ns', 1.0, 0, 1e9))
        self.ns_pidx = self.pmm.get_gflp_idx('ns')
        self.npar = self.pmm.n_global_floating_params
        self.notified_ok = True
        self.arr = np.empty((J, len(groups)), dtype=object)
        for j in range(J):
            for g in range(len(groups)):
                self.arr[j, g] = S.TableYield(stub_table(case, j, g))
                self.arr[j, g].alias = alias
        svc = S.Mock(spec_set=['__class__', 'arr', 'shg_mgr', 'n_datasets', 'n_shgs'])
        svc.__class__ = S.DetSigYieldService
        svc.arr = self.arr
        svc.shg_mgr = self.shg_mgr
        svc.n_datasets = J
        svc.n_shgs = len(groups)
        self.ws = S.SrcDetSigYieldWeightsService(detsigyield_service=svc)
        self.fs = S.DatasetSignalWeightFactorsService(src_detsigyield_weights_service=self.ws)
        self.tdms, self.stubs, self.sws, self.lls, self.m, self.m_err = [], [], [], [], None, None
        ds = case.get('ds')
        if ds is not None:
            for d in ds:
                tdm = mk_tdm(S, d['N'], d['nsel'], d['vals'])
                stub = S.StubRatio([v[2] for v in d['vals']], cfg=S.cfg)
                stub.alias = alias
                sw = S.SourceWeightedPDFRatio(
                    dataset_idx=d['didx'], src_detsigyield_weights_service=self.ws, pdfratio=stub, cfg=S.cfg)
                self.tdms.append(tdm)
                self.stubs.append(stub)
                self.sws.append(sw)
                self.lls.append(S.ZeroSigH0SingleDatasetTCLLHRatio(
                    pmm=self.pmm, minimizer=S.mini, shg_mgr=self.shg_mgr, tdm=tdm, pdfratio=sw, cfg=S.cfg))
            try:
                self.m = S.MultiDatasetTCLLHRatio(
                    pmm=self.pmm, minimizer=S.mini, src_detsigyield_weights_service=self.ws,
                    ds_sig_weight_factors_service=self.fs, llhratio_list=self.lls, cfg=S.cfg)
            except (ValueError, IndexError) as ex:
                self.m_err = ('Err', exc_name(ex))

    def fit(self, ns):
        """fitparam_values as a float64 ndarray: gamma at its index, ns at ns_pidx"""
        x = np.full((self.npar,), 2.0, dtype=np.float64)
        x[self.ns_pidx] = ns
        return x

    def apply(self, case2, p=None):
        """same shape required; p = permutation of the flattened sources (new i is old p[i]) or None"""
        c0 = self.case
        assert (case2['J'] == c0['J'] and len(case2['groups']) == len(c0['groups'])
                and sum(len(g) for g in case2['groups']) == sum(len(g) for g in c0['groups']))
        shgl = self.shg_mgr.shg_list
        objs = [src for shg in shgl for src in shg.source_list]
        if p is not None:
            objs = [objs[i] for i in p]
        k = 0
        for shg, W in zip(shgl, case2['groups']):
            shg.source_list[:] = objs[k:k + len(W)]
            for src, w in zip(shg.source_list, W):
                src.weight = float(w)
            k += len(W)
        for j in range(case2['J']):
            for g in range(len(case2['groups'])):
                self.arr[j, g]._t = stub_table(case2, j, g)
        if case2.get('ds') is not None:
            assert len(case2['ds']) == len(self.tdms)
            for d, tdm, stub, sw in zip(case2['ds'], self.tdms, self.stubs, self.sws):
                assert sw.dataset_idx == d['didx']
                tdm.n_events = d['N']
                tdm.n_selected_events = d['nsel']
                tdm.src_evt_idxs = (np.array([v[0] for v in d['vals']], dtype=np.int64),
                                    np.array([v[1] for v in d['vals']], dtype=np.int64))
                tdm.n_pure_bkg_events = d['N'] - d['nsel']
                stub._v = np.array([v[2] for v in d['vals']], dtype=np.float64)
        self.case = case2
        # the public notification path
        if self.m is not None:
            before = [t.change_shg_mgr.call_count for t in self.tdms]
            self.m.change_shg_mgr(self.shg_mgr)
            # every single-dataset llh ratio function (and through it its TrialDataManager) is notified
            self.notified_ok = all(t.change_shg_mgr.call_count == b + 1 for t, b in zip(self.tdms, before)) \
                and all(ll.shg_mgr is self.shg_mgr for ll in self.lls)
            self.m.initialize_for_new_trial()
        else:
            self.ws.change_shg_mgr(self.shg_mgr)

    def observe(self):
        """weights: ('Ok', a_jk rows, f_j) | ('Err', kind)
           stack:   per dataset ('Ok', R_i) | ('Err', kind) | None
           multi:   ('Ok', value) | ('Err', kind) ;  single: per dataset value at ns*f_j (or None)"""
        S, case = self.S, self.case
        J = case['J']
        out = {'weights': None, 'stack': [], 'multi': None, 'single': []}
        ns = float(case.get('ns', 0.0))
        fit = self.fit(ns)
        spr = self.pmm.create_src_params_recarray(fit)
        ws, fs = self.ws, self.fs
        ds = case.get('ds')
        with np.errstate(all='ignore'), warnings.catch_warnings():
            warnings.simplefilter('ignore')
            # MultiDatasetTCLLHRatio.evaluate itself has to bring the services up to date: when an llh
            # ratio function exists it is called FIRST and the services are only read afterwards
            if ds is not None and self.m is not None:
                try:
                    (val, grads) = self.m.evaluate(fit)
                    out['multi'] = ('Ok', float(val))
                    assert grads.shape == (self.npar,)
                except (ValueError, IndexError) as ex:
                    out['multi'] = ('Err', exc_name(ex))
            elif ds is not None:
                out['multi'] = self.m_err
            try:
                if out['multi'] is None or out['multi'][0] != 'Ok':
                    ws.calculate(spr)
                    fs.calculate()
                a_jk = ws.get_weights()[0]
                f = fs.get_weights()[0]
                assert a_jk.shape == (J, self.shg_mgr.n_sources) and f.shape == (J,), (a_jk.shape, f.shape)
                out['weights'] = ('Ok', [[float(x) for x in r] for r in a_jk], [float(x) for x in f])
            except (ValueError, IndexError, TypeError, KeyError) as ex:
                out['weights'] = ('Err', exc_name(ex))
            if ds is None:
                return out
            for d, tdm, sw in zip(ds, self.tdms, self.sws):
                if out['weights'][0] == 'Ok':
                    try:
                        r = sw.get_ratio(tdm, spr)
                        assert r.shape == (d['nsel'],)
                        out['stack'].append(('Ok', [float(x) for x in r]))
                    except (ValueError, IndexError) as ex:
                        out['stack'].append(('Err', exc_name(ex)))
                else:
                    out['stack'].append(None)
            # the single-dataset functions on their own, at ns * f_j  (additivity, implementation level)
            if out['multi'] is not None and out['multi'][0] == 'Ok':
                f = fs.get_weights()[0]
                for j, ll in enumerate(self.lls):
                    try:
                        out['single'].append(float(ll.evaluate(self.fit(ns * f[j]))[0]))
                    except (ValueError, IndexError):
                        out['single'].append(None)
        return out


def run_impl(case):
    """Drive freshly built real objects on one case (see Stack.observe)."""
    return Stack(case).observe()


# ----------------------------------------------------------------------------- model lines

def group_tokens(case):
    J = case['J']
    t = []
    for g, W in enumerate(case['groups']):
        t.append(str(len(W)))
        t += [fhex(w) for w in W]
        for j in range(J):
            y = effective_Y(case, j, g)
            t.append(str(len(y)))
            t += [fhex(v) for v in y]
    return t


def vals_tokens(vals):
    t = [str(len(vals))]
    for (s, e, r) in vals:
        t += [str(int(s)), str(int(e)), fhex(r)]
    return t


def line_weights(case):
    """the service as an object: stub tables + the eta value of every source position; the model
    multiplies every cell's table with the eta values of the slice of source parameters it computes"""
    J = case['J']
    K = sum(len(W) for W in case['groups'])
    t = ['weights', str(J), str(len(case['groups'])), str(K)] + [fhex(eta_of(k)) for k in range(K)]
    for g, W in enumerate(case['groups']):
        t.append(str(len(W)))
        t += [fhex(w) for w in W]
        for j in range(J):
            y = stub_table(case, j, g)
            t.append(str(len(y)))
            t += [fhex(v) for v in y]
    return ' '.join(t)


def line_stack(a_k, d, which='stack'):
    return ' '.join([which, str(len(a_k))] + [fhex(x) for x in a_k] + [str(d['nsel'])] + vals_tokens(d['vals']))


def line_multi(case, opa):
    t = ['multi', fhex(opa), fhex(case['ns']), str(case['J']), str(len(case['groups']))] + group_tokens(case)
    t.append(str(len(case['ds'])))
    for d in case['ds']:
        t += [str(d['didx']), fhex(float(d['N'])), str(d['nsel'])] + vals_tokens(d['vals'])
    return ' '.join(t)


def parse_fl(tok):
    if tok == 'nan':
        return float('nan')
    if tok == 'inf':
        return float('inf')
    if tok == '-inf':
        return float('-inf')
    return float.fromhex(tok)


def parse_model(kind, line):
    w = line.split()
    if not w or w[0] == 'ERR':
        return ('unparsed', line)
    if w[0] == 'Err':
        return ('Err', w[1])
    if kind == 'weights':
        body = ' '.join(w[1:])
        a_txt, _, f_txt = body.partition('|')
        rows = [[parse_fl(t) for t in r.split()] for r in a_txt.split(';')]
        if a_txt.strip() == '':
            rows = []
        return ('Ok', rows, [parse_fl(t) for t in f_txt.split()])
    if kind == 'stack':
        return ('Ok', [parse_fl(t) for t in w[1:]])
    if kind == 'multi':
        return ('Ok', parse_fl(w[1]))
    raise ValueError(kind)


def close(x, y, tol):
    if math.isnan(x) or math.isnan(y):
        return math.isnan(x) and math.isnan(y)
    if math.isinf(x) or math.isinf(y):
        return x == y
    return abs(x - y) <= tol


# ----------------------------------------------------------------------------- oracles (exact rationals)

def F(x):
    return Fraction(float(x))


def flat_W(case):
    return [w for W in case['groups'] for w in W]


def table_exact(case):
    """a_jk = W_k * Y_jk as exact rationals (None when a yield has the wrong length)"""
    W = flat_W(case)
    rows = []
    for j in range(case['J']):
        y = []
        for g, Wg in enumerate(case['groups']):
            yy = case['Y'][j][g]
            if len(yy) != len(Wg):
                return None
            y += yy
        rows.append([F(w) * F(v) for w, v in zip(W, y)])
    return rows


def f_exact(a):
    tot = sum(sum(r) for r in a)
    if tot == 0:
        return None
    return [sum(r) / tot for r in a]


def f_manual_float(a_float):
    """the manual's un-simplified expression sum_k f_k * f_{j|k} (eqs. fk, dataset-weight-factor-*),
    evaluated in floating point; None where it is 0/0"""
    a = np.array(a_float, dtype=np.float64)
    col = a.sum(axis=0)
    tot = a.sum()
    if tot == 0 or np.any(col == 0):
        return None
    fk = col / tot
    return [float(np.sum(fk * a[j] / col)) for j in range(a.shape[0])]


def stacked_exact(a_k, d):
    """R_i = sum_k a_k R_ik / sum_k a_k over the listed pairs (requires a duplicate-free table)"""
    A = sum(F(x) for x in a_k)
    if A == 0:
        return None
    num = [Fraction(0)] * d['nsel']
    absnum = [Fraction(0)] * d['nsel']
    for (s, e, r) in d['vals']:
        if s < len(a_k):
            num[e] += F(a_k[s]) * F(r)
            absnum[e] += abs(F(a_k[s]) * F(r))
    return [n / A for n in num], [n / abs(A) for n in absnum]


def lam(alpha, a):
    if a > alpha:
        return math.log1p(a)
    t = (a - alpha) / (1 + alpha)
    return math.log1p(alpha) + t - 0.5 * t * t


def value_oracle(case, opa):
    """sum_j [ sum_i Lam(ns f_j X_i) + (N_j - N'_j) log(1 - ns f_j / N_j) ] from the exact f_j, R_i;
    returns (value, scale) or None outside the guard"""
    a = table_exact(case)
    if a is None:
        return None
    f = f_exact(a)
    if f is None:
        return None
    terms = []
    for j, d in enumerate(case['ds']):
        if d['didx'] != j:
            return None
        st = stacked_exact([float(x) for x in a[j]], d) if sum(a[j]) != 0 else None
        if st is None:
            return None
        nsj = case['ns'] * float(f[j])
        if not nsj < d['N']:
            return None
        for r in st[0]:
            x = (float(r) - 1.0) / d['N']
            terms.append(lam(opa - 1.0, nsj * x))
        terms.append((d['N'] - d['nsel']) * math.log1p(-nsj / d['N']))
    return math.fsum(terms), math.fsum(abs(t) for t in terms)


# ----------------------------------------------------------------------------- generators

def logu(rng, lo=-6, hi=6):
    return 10.0 ** rng.uniform(lo, hi)


def gen_table(ctx, rng, J=None, K=None, regime=None):
    J = J or rng.choice([1, 2, 2, 3, 3, 4])
    K = K or rng.choice([1, 2, 3, 3, 4, 5])
    # composition of K into 1..3 groups
    G = rng.randint(1, min(3, K))
    cuts = sorted(rng.sample(range(1, K), G - 1)) if G > 1 else []
    sizes = [b - a for a, b in zip([0] + cuts, cuts + [K])]
    regime = regime or rng.choice(['plain', 'plain', 'zeros', 'zero-row', 'zero-col', 'wide', 'equal', 'tiny-huge', 'ultra-small'])
    ctx.count('table:' + regime)
    ctx.count(f'J={J}')
    ctx.count(f'K={K}')
    ctx.count(f'G={G}')
    span = {'plain': (-1, 1), 'zeros': (-2, 2), 'zero-row': (-1, 1), 'zero-col': (-1, 1),
            'wide': (-6, 6), 'equal': (0, 0), 'tiny-huge': (-6, 6), 'ultra-small': (-16, -13)}[regime]
    W = [logu(rng, *span) if regime != 'equal' else 1.0 for _ in range(K)]
    Yt = [[logu(rng, *span) for _ in range(K)] for _ in range(J)]
    if regime == 'zeros':
        for j in range(J):
            for k in range(K):
                if rng.random() < 0.3:
                    Yt[j][k] = 0.0
    if regime == 'zero-row' and J > 1:
        j0 = rng.randrange(J)
        Yt[j0] = [0.0] * K
    if regime == 'zero-col' and K > 1:
        k0 = rng.randrange(K)
        for j in range(J):
            Yt[j][k0] = 0.0
    if regime == 'tiny-huge':
        for j in range(J):
            for k in range(K):
                Yt[j][k] = rng.choice([1e-6, 1e6, 1.0]) * rng.uniform(1, 2)
    if all(v == 0.0 for r in Yt for v in r):
        Yt[0][0] = 1.0
    if K >= 2 and rng.random() < 0.15:
        # a source switched off by a weight of exactly zero (on the real SourceModel objects)
        W[rng.randrange(K)] = 0.0
        ctx.count('zero-source-weight')
    groups, Y = [], [[] for _ in range(J)]
    k = 0
    for n in sizes:
        groups.append(W[k:k + n])
        for j in range(J):
            Y[j].append(Yt[j][k:k + n])
        k += n
    return {'J': J, 'groups': groups, 'Y': Y}


def gen_vals(ctx, rng, K, nsel, full=None):
    """duplicate-free pair table, source-major like the event selection produces it, or shuffled"""
    pairs = [(s, e) for s in range(K) for e in range(nsel)]
    full = rng.random() < 0.4 if full is None else full
    if not full:
        pairs = [p for p in pairs if rng.random() < 0.6]
    if rng.random() < 0.3:
        rng.shuffle(pairs)
    vals = []
    for (s, e) in pairs:
        u = rng.random()
        if u < 0.08:
            r = 0.0
        elif u < 0.2:
            r = 10.0 ** rng.uniform(-6, 13)
        else:
            r = 10.0 ** rng.uniform(-2, 3)
        vals.append([s, e, r])
    ctx.count('pairs:full' if full else 'pairs:partial')
    return vals


def gen_multi(ctx, rng, J=None, K=None, regime=None):
    c = gen_table(ctx, rng, J, K, regime)
    J = c['J']
    K = sum(len(W) for W in c['groups'])
    ds = []
    for j in range(J):
        nsel = rng.choice([0, 1, 2, 3, 5, 8, 20])
        N = nsel + rng.choice([0, 1, 10, 1000])
        if N == 0:
            N = 1
        ds.append({'didx': j, 'N': N, 'nsel': nsel, 'vals': gen_vals(ctx, rng, K, nsel)})
    c['ds'] = ds
    nmin = min(d['N'] for d in ds)
    reg = rng.choice(['zero', 'tiny', 'interior', 'interior', 'large', 'negative'])
    ctx.count('ns:' + reg)
    c['ns'] = {'zero': 0.0, 'tiny': 1e-9 * nmin, 'interior': rng.uniform(0.01, 0.5) * nmin,
               'large': 0.9 * nmin, 'negative': -0.01 * nmin}[reg]
    return c


def gen_malformed(ctx, rng):
    c = gen_multi(ctx, rng, regime='plain')
    K = sum(len(W) for W in c['groups'])
    kind = rng.choice(['dup-pair', 'bad-evt', 'bad-yield-len', 'bcast-yield', 'bad-didx', 'neg-didx',
                       'wrong-n-llh', 'all-zero', 'foreign-src'])
    ctx.count('malformed:' + kind)
    d = c['ds'][rng.randrange(len(c['ds']))]
    if kind == 'dup-pair':
        if d['nsel'] == 0:
            d['nsel'] = 1
            d['N'] += 1
        d['vals'] = d['vals'] + [[0, 0, 2.0], [0, 0, 3.0]]
    elif kind == 'bad-evt':
        d['vals'] = d['vals'] + [[rng.randrange(K), d['nsel'] + rng.randint(0, 2), 1.5]]
    elif kind == 'foreign-src':
        # a pair of a source index >= n_sources is never touched (no error, even with a bad event index)
        d['vals'] = d['vals'] + [[K + rng.randint(0, 2), d['nsel'] + 3, 1.5]]
    elif kind == 'bad-yield-len':
        j, g = rng.randrange(c['J']), rng.randrange(len(c['groups']))
        c['Y'][j][g] = c['Y'][j][g] + [1.0, 2.0]
    elif kind == 'bcast-yield':
        j, g = rng.randrange(c['J']), rng.randrange(len(c['groups']))
        c['Y'][j][g] = [rng.uniform(0.5, 2)]
    elif kind == 'bad-didx':
        d['didx'] = c['J'] + rng.randint(0, 1)
    elif kind == 'neg-didx':
        d['didx'] = -rng.randint(1, c['J'])
    elif kind == 'wrong-n-llh':
        c['ds'] = c['ds'] + [dict(c['ds'][0])] if rng.random() < 0.5 or len(c['ds']) == 1 else c['ds'][:-1]
    elif kind == 'all-zero':
        c['Y'] = [[[0.0] * len(W) for W in c['groups']] for _ in range(c['J'])]
    c['malformed'] = kind
    return c


# ----------------------------------------------------------------------------- transformations

def flatten(case):
    """(W flat, Y[j] flat) or None when a yield has a foreign length"""
    W = flat_W(case)
    Y = []
    for j in range(case['J']):
        row = []
        for g, Wg in enumerate(case['groups']):
            if len(case['Y'][j][g]) != len(Wg):
                return None
            row += case['Y'][j][g]
        Y.append(row)
    return W, Y


def regroup(W, Y, sizes, ds, ns):
    groups, YY = [], [[] for _ in Y]
    k = 0
    for n in sizes:
        groups.append(W[k:k + n])
        for j in range(len(Y)):
            YY[j].append(Y[j][k:k + n])
        k += n
    c = {'J': len(Y), 'groups': groups, 'Y': YY}
    if ds is not None:
        c['ds'] = ds
        c['ns'] = ns
    return c


def perm_sources(case, p, sizes=None):
    """new source i is old source p[i]; pair tables relabelled; optional new group sizes"""
    W, Y = flatten(case)
    inv = {old: new for new, old in enumerate(p)}
    ds = None
    if case.get('ds') is not None:
        ds = [dict(d, vals=[[inv[s], e, r] for (s, e, r) in d['vals']]) for d in case['ds']]
    sizes = sizes or [len(g) for g in case['groups']]
    return regroup([W[i] for i in p], [[row[i] for i in p] for row in Y], sizes, ds, case.get('ns'))


def perm_datasets(case, p):
    """new dataset i is old dataset p[i]"""
    c = {'J': case['J'], 'groups': case['groups'], 'Y': [case['Y'][i] for i in p]}
    if case.get('ds') is not None:
        c['ds'] = [dict(case['ds'][i], didx=n) for n, i in enumerate(p)]
        c['ns'] = case['ns']
    return c


def scale_weights(case, cst):
    c = dict(case)
    c['groups'] = [[w * cst for w in W] for W in case['groups']]
    return c


# ----------------------------------------------------------------------------- predicates

P_FJ = 'DatasetSignalWeightFactorsService.get_weights'
P_AJK = 'SrcDetSigYieldWeightsService.get_weights'
P_SW = 'SourceWeightedPDFRatio.get_ratio'
P_MULTI = 'MultiDatasetTCLLHRatio.evaluate'


def in_guard(case):
    """the property's domain: well-formed, non-negative table with a positive total"""
    if case.get('malformed'):
        return False
    a = table_exact(case)
    return a is not None and sum(sum(r) for r in a) > 0


def predicates_weights(ctx, case, impl):
    if impl['weights'][0] != 'Ok':
        if in_guard(case):
            ctx.violation(P_AJK, 'raises-' + impl['weights'][1], 'raises on a well-formed table', case=case, impl=impl['weights'])
        return
    if not in_guard(case):
        return
    (_, a, f) = impl['weights']
    ex = table_exact(case)
    for j in range(case['J']):
        for k in range(len(ex[j])):
            if not close(a[j][k], float(ex[j][k]), 2 * EPS * abs(float(ex[j][k])) + 5e-324):
                ctx.violation(P_AJK, 'a_jk-not-W-times-Y', f'a[{j}][{k}] = {a[j][k]} but W_k*Y_jk = {float(ex[j][k])}',
                              case=case, impl=a, predicate='a_jk = W_k * Y_jk, every entry written by exactly one group slice')
    fe = f_exact(ex)
    if len(f) != case['J']:
        ctx.violation(P_FJ, 'wrong-length', f'{len(f)} fractions for {case["J"]} datasets', case=case, impl=f)
        return
    if any(not (x >= 0.0) for x in f):
        ctx.violation(P_FJ, 'negative-fraction', f'f = {f}', case=case, impl=f, predicate='f_j >= 0')
    # the consumer of the partition of unity (signal_generator.py: rss.random.choice(..., p=ds_weights))
    try:
        np.random.RandomState(1).choice(len(f), size=3, p=np.array(f))
    except ValueError as ex:
        ctx.violation(P_FJ, 'rejected-as-probabilities', f'numpy rejects f_j as a probability vector: {ex}',
                      case=case, impl=f, predicate='f_j usable as p= of RandomState.choice')
    if not abs(math.fsum(f) - 1.0) <= 8 * EPS:
        ctx.violation(P_FJ, 'sum-not-one', f'sum f_j = {math.fsum(f)!r}', case=case, impl=f, predicate='|sum_j f_j - 1| <= 8 eps')
    for j in range(case['J']):
        if not close(f[j], float(fe[j]), 64 * EPS * float(fe[j]) + 5e-324):
            ctx.violation(P_FJ, 'differs-from-definition', f'f[{j}] = {f[j]!r}, exact {float(fe[j])!r}', case=case, impl=f,
                          predicate='f_j = sum_k a_jk / sum_jk a_jk')
    fm = f_manual_float(a)
    if fm is not None:
        ctx.count('manual-expression-defined')
        for j in range(case['J']):
            if not close(f[j], fm[j], 64 * EPS):
                ctx.violation(P_FJ, 'differs-from-manual', f'f[{j}] = {f[j]!r}, manual sum_k f_k f_(j|k) = {fm[j]!r}',
                              case=case, impl=f, predicate='code = manual eq. f_j = sum_k f_k f_{j|k}')
    else:
        ctx.count('manual-expression-0/0-code-defined')


def predicates_stack(ctx, case, impl):
    if impl['weights'][0] != 'Ok' or not in_guard(case):
        return
    a = impl['weights'][1]
    for j, d in enumerate(case['ds']):
        st = impl['stack'][j]
        a_k = a[d['didx']]
        if sum(a_k) == 0:
            continue
        if st[0] != 'Ok':
            ctx.violation(P_SW, 'raises-' + st[1], 'raises on a valid pair table', case=case, impl=st)
            continue
        ex, sc = stacked_exact(a_k, d)
        full = {}
        for (s, e, r) in d['vals']:
            full.setdefault(e, []).append(r)
        for e in range(d['nsel']):
            tol = 16 * EPS * float(sc[e]) + 5e-324
            if not close(st[1][e], float(ex[e]), tol):
                ctx.violation(P_SW, 'not-weighted-mean', f'R[{e}] = {st[1][e]!r}, sum_k a_k R_ik / A = {float(ex[e])!r} (dataset {j})',
                              case=case, impl=st[1], predicate='R_i = sum_k a_k R_ik / sum_k a_k')
            rs = full.get(e, [])
            if len(rs) == len(a_k) and all(x > 0 for x in a_k):
                lo, hi = min(rs), max(rs)
                if not (lo * (1 - 16 * EPS) <= st[1][e] <= hi * (1 + 16 * EPS)):
                    ctx.violation(P_SW, 'outside-min-max', f'R[{e}] = {st[1][e]!r} not in [{lo!r}, {hi!r}]', case=case, impl=st[1],
                                  predicate='min_k R_ik <= R_i <= max_k R_ik')


def predicates_multi(ctx, case, impl, opa):
    if not in_guard(case) or impl['multi'] is None:
        return
    if impl['multi'][0] != 'Ok':
        ctx.violation(P_MULTI, 'raises-' + impl['multi'][1], 'raises on a well-formed configuration', case=case, impl=impl['multi'])
        return
    v = impl['multi'][1]
    if any(s is None for s in impl['single']):
        ctx.violation(P_MULTI, 'single-raises', 'a single-dataset function raises on its own', case=case, impl=impl['single'])
        return
    add = math.fsum(impl['single'])
    orc = value_oracle(case, opa)
    if orc is None:
        # outside the oracle's domain (a dataset without yield, foreign dataset index): additivity at the
        # level of the implementation is still required
        sc = math.fsum(abs(x) for x in impl['single'])
        if not (math.isnan(v) or math.isinf(sc)) and not close(v, add, 1e-12 * (sc + 1.0)):
            ctx.violation(P_MULTI, 'not-additive', f'value {v!r} but sum_j llh_j(ns f_j) = {add!r}', case=case, impl=v, model=add,
                          predicate='multi value = sum_j single_j(ns * f_j)')
        return
    (want, scale) = orc
    tol = 1e-12 * (scale + 1.0)
    if not close(v, add, tol):
        ctx.violation(P_MULTI, 'not-additive', f'value {v!r} but sum_j llh_j(ns f_j) = {add!r}', case=case, impl=v, model=add,
                      predicate='multi value = sum_j single_j(ns * f_j)')
    if not close(v, want, 1e-9 * (scale + 1.0)):
        ctx.violation(P_MULTI, 'differs-from-manual', f'value {v!r}, manual formula {want!r}', case=case, impl=v, model=want,
                      predicate='value = sum_j logLambda_j(ns f_j) with exact f_j and stacked R_i')
    if case['ns'] == 0.0 and v != 0.0:
        ctx.violation(P_MULTI, 'nonzero-at-ns0', f'value {v!r} at ns = 0', case=case, impl=v)


def sorted_close(xs, ys, tol):
    return len(xs) == len(ys) and all(close(x, y, tol) for x, y in zip(sorted(xs), sorted(ys)))


def metamorphic(ctx, case, impl, opa, nperm_src, nperm_ds, rng):
    """re-run the implementation on permuted / regrouped / rescaled inputs"""
    if not in_guard(case) or impl['weights'][0] != 'Ok':
        return
    f = impl['weights'][2]
    J = case['J']
    K = len(flat_W(case))
    has_ds = case.get('ds') is not None and impl['multi'] is not None and impl['multi'][0] == 'Ok'
    orc = value_oracle(case, opa) if has_ds else None
    vtol = 1e-10 * ((orc[1] if orc else 0.0) + 1.0)
    ok_val = has_ds and orc is not None and not math.isnan(impl['multi'][1])

    def rtol_stack(j):
        d = case['ds'][j]
        a_k = impl['weights'][1][d['didx']]
        if sum(a_k) == 0:
            return None
        return [64 * EPS * float(s) + 5e-324 for s in stacked_exact(a_k, d)[1]]

    # ---- datasets
    perms = list(itertools.permutations(range(J)))
    if len(perms) > nperm_ds:
        perms = [perms[0]] + rng.sample(perms[1:], nperm_ds - 1)
    for p in perms[1:]:
        c2 = perm_datasets(case, list(p))
        r2 = run_impl(c2)
        ctx.count('metamorphic:dataset-permutation')
        if r2['weights'][0] != 'Ok' or not all(close(r2['weights'][2][n], f[i], 64 * EPS) for n, i in enumerate(p)):
            ctx.violation(P_FJ, 'dataset-permutation-changes-fractions', f'perm {p}: {r2["weights"]} vs {f}', case=case,
                          impl=r2['weights'], predicate='f(perm datasets) = perm f')
        if ok_val:
            if r2['multi'][0] != 'Ok' or not close(r2['multi'][1], impl['multi'][1], vtol):
                ctx.violation(P_MULTI, 'dataset-permutation-changes-value', f'perm {p}: {r2["multi"]} vs {impl["multi"]}',
                              case=case, impl=r2['multi'], model=impl['multi'], predicate='value invariant under dataset permutation')
    # ---- sources (with regrouping)
    perms = list(itertools.permutations(range(K)))
    if len(perms) > nperm_src:
        perms = [perms[0]] + rng.sample(perms[1:], nperm_src - 1)
    for n, p in enumerate(perms):
        sizes = None
        if n % 3 == 1 or n == 0:     # also change the grouping (the identity permutation only regrouped)
            G = rng.randint(1, min(3, K))
            cuts = sorted(rng.sample(range(1, K), G - 1)) if G > 1 else []
            sizes = [b - a for a, b in zip([0] + cuts, cuts + [K])]
            if n == 0 and sizes == [len(g) for g in case['groups']]:
                continue
        c2 = perm_sources(case, list(p), sizes)
        r2 = run_impl(c2)
        ctx.count('metamorphic:source-permutation' + ('+regroup' if sizes else ''))
        if r2['weights'][0] != 'Ok' or not all(close(x, y, 64 * EPS) for x, y in zip(r2['weights'][2], f)):
            ctx.violation(P_FJ, 'source-permutation-changes-fractions', f'perm {p} sizes {sizes}: {r2["weights"]} vs {f}',
                          case=case, impl=r2['weights'], predicate='f invariant under source permutation / regrouping')
        if has_ds:
            for j in range(J):
                tl = rtol_stack(j)
                s1, s2 = impl['stack'][j], r2['stack'][j]
                if tl is None or s1 is None or s1[0] != 'Ok':
                    continue
                if s2 is None or s2[0] != 'Ok' or not all(close(x, y, t) for x, y, t in zip(s1[1], s2[1], tl)):
                    ctx.violation(P_SW, 'source-permutation-changes-ratio', f'perm {p} sizes {sizes} dataset {j}: {s2} vs {s1}',
                                  case=case, impl=s2, model=s1, predicate='R_i invariant under consistent source permutation')
        if ok_val:
            if r2['multi'][0] != 'Ok' or not close(r2['multi'][1], impl['multi'][1], vtol):
                ctx.violation(P_MULTI, 'source-permutation-changes-value', f'perm {p}: {r2["multi"]} vs {impl["multi"]}',
                              case=case, impl=r2['multi'], model=impl['multi'], predicate='value invariant under source permutation')
    # ---- order of the value array (pair table rows)
    if has_ds:
        c2 = dict(case, ds=[dict(d, vals=rng.sample(d['vals'], len(d['vals']))) for d in case['ds']])
        r2 = run_impl(c2)
        ctx.count('metamorphic:pair-table-order')
        for j in range(J):
            s1, s2 = impl['stack'][j], r2['stack'][j]
            if s1 is None or s1[0] != 'Ok':
                continue
            if s2 is None or s2[0] != 'Ok' or not all(close(x, y, 0.0) for x, y in zip(s1[1], s2[1])):
                ctx.violation(P_SW, 'value-order-changes-ratio', f'dataset {j}: {s2} vs {s1}', case=case, impl=s2, model=s1,
                              predicate='R_i independent of the order of the (source,event) value array')
    # ---- common scale of the source weights
    for cst, exact in [(2.0 ** rng.randint(-20, 20), True), (10.0 ** rng.uniform(-6, 6), False)]:
        c2 = scale_weights(case, cst)
        r2 = run_impl(c2)
        ctx.count('metamorphic:scale' + (':pow2' if exact else ':general'))
        tolf = 0.0 if exact else 64 * EPS
        if r2['weights'][0] != 'Ok' or not all(close(x, y, tolf) for x, y in zip(r2['weights'][2], f)):
            ctx.violation(P_FJ, 'scale-changes-fractions', f'c = {cst!r}: {r2["weights"]} vs {f}', case=case, impl=r2['weights'],
                          predicate='f invariant under W -> c W')
        if has_ds:
            for j in range(J):
                tl = rtol_stack(j)
                s1, s2 = impl['stack'][j], r2['stack'][j]
                if tl is None or s1 is None or s1[0] != 'Ok':
                    continue
                if s2 is None or s2[0] != 'Ok' or not all(close(x, y, 0.0 if exact else t) for x, y, t in zip(s1[1], s2[1], tl)):
                    ctx.violation(P_SW, 'scale-changes-ratio', f'c = {cst!r} dataset {j}: {s2} vs {s1}', case=case, impl=s2, model=s1,
                                  predicate='R_i invariant under W -> c W')
        if ok_val:
            if r2['multi'][0] != 'Ok' or not close(r2['multi'][1], impl['multi'][1], 0.0 if exact else vtol):
                ctx.violation(P_MULTI, 'scale-changes-value', f'c = {cst!r}: {r2["multi"]} vs {impl["multi"]}', case=case,
                              impl=r2['multi'], model=impl['multi'], predicate='value invariant under W -> c W')


# ----------------------------------------------------------------------------- long-lived services

P_CHG = 'SrcDetSigYieldWeightsService.change_shg_mgr'


def strip_hist(case):
    return {k: v for k, v in case.items() if k not in ('history', 'perm')}


def run_history(case):
    """case['history'] = [{'case': c0}, {'case': c1, 'perm': p1}, ...]: ONE set of long-lived objects
    is built for c0 and taken through every step and finally to `case` itself (case['perm']) by
    in-place changes + change_shg_mgr; every configuration is evaluated on the way"""
    h = case['history']
    st = Stack(h[0]['case'])
    st.observe()
    for step in h[1:]:
        st.apply(step['case'], step.get('perm'))
        st.observe()
    st.apply(strip_hist(case), case.get('perm'))
    obs = st.observe()
    obs['notified_ok'] = st.notified_ok
    return obs


def same_obs(a, b):
    def eq(x, y):
        if isinstance(x, float) and isinstance(y, float):
            return close(x, y, 0.0)
        if isinstance(x, (list, tuple)) and isinstance(y, (list, tuple)):
            return len(x) == len(y) and all(eq(u, v) for u, v in zip(x, y))
        return x == y
    return all(eq(a[k], b[k]) for k in ('weights', 'stack', 'multi'))


def long_lived(ctx, case, opa, rng, lines, checks):
    """re-use one service / ratio / llh-ratio instance across the configuration and its permuted,
    re-weighted, re-scaled variants; compare with freshly built objects (bit-identical), with the
    exact oracles and with the model"""
    if not in_guard(case):
        return
    J = case['J']
    K = len(flat_W(case))
    variants = []
    if K >= 2:
        p = list(range(K))
        while p == list(range(K)):
            rng.shuffle(p)
        variants.append(('source-permutation', perm_sources(case, p), p))
    sizes = [len(W) for W in case['groups']]
    big = [g for g, n in enumerate(sizes) if n >= 2]
    if len(sizes) >= 2 and big:
        # same sources, same number of groups, other group sizes (a source moves to another group)
        ga = big[0]
        gb = (ga + 1) % len(sizes)
        ns_ = list(sizes)
        ns_[ga] -= 1
        ns_[gb] += 1
        variants.append(('regroup', perm_sources(case, list(range(K)), ns_), None))
    rw = strip_hist(case)
    rw['groups'] = [[logu(rng, -2, 2) for _ in W] for W in case['groups']]
    variants.append(('new-weights', rw, None))
    variants.append(('scale', scale_weights(strip_hist(case), 10.0 ** rng.uniform(-3, 3)), None))
    if J >= 2 and (case.get('ds') is None or all(d['didx'] == j for j, d in enumerate(case['ds']))):
        q = list(range(J))
        rng.shuffle(q)
        variants.append(('dataset-permutation', perm_datasets(case, q), None))
    variants.append(('back-to-start', strip_hist(case), None))
    st = Stack(case)
    st.observe()
    hist = [{'case': strip_hist(case)}]
    for tag, c2, p in variants:
        c2 = strip_hist(c2)
        try:
            st.apply(c2, p)
        except (ValueError, IndexError, AssertionError) as ex:
            ctx.violation(P_CHG, 'raises-' + exc_name(ex), f'change_shg_mgr path raises ({tag})',
                          case=dict(c2, history=list(hist), perm=p))
            return
        obs = st.observe()
        fresh = run_impl(c2)
        ctx.count('long-lived:' + tag)
        rep = dict(c2, history=list(hist), perm=p)
        if not st.notified_ok:
            ctx.violation('MultiDatasetTCLLHRatio.change_shg_mgr', 'single-dataset-llhratio-not-notified',
                          'change_shg_mgr did not reach every single-dataset llh ratio function / TrialDataManager',
                          case=rep, predicate='change_shg_mgr is forwarded to every llhratio of llhratio_list')
        if not same_obs(obs, fresh):
            ctx.violation(P_CHG, 'long-lived-differs-from-fresh',
                          f'after {tag} + change_shg_mgr the long-lived objects give {obs["weights"]}, '
                          f'freshly built ones {fresh["weights"]}',
                          case=rep, impl={k: obs[k] for k in ('weights', 'stack', 'multi')},
                          model={k: fresh[k] for k in ('weights', 'stack', 'multi')},
                          predicate='long-lived service after change_shg_mgr == freshly constructed service')
        predicates_weights(ctx, rep, obs)
        if c2.get('ds') is not None:
            predicates_stack(ctx, rep, obs)
            predicates_multi(ctx, rep, obs, opa)
        queue_model(rep, obs, opa, lines, checks)
        hist.append({'case': c2, 'perm': p})


# ----------------------------------------------------------------------------- history probes

P_SINGLE = 'ZeroSigH0SingleDatasetTCLLHRatio.evaluate'
P_CALC = 'SrcDetSigYieldWeightsService.calculate'


def probe_partner(case, rng):
    """a second, different configuration of the same shape (other weights, other dataset order, other ns)"""
    c2 = strip_hist(case)
    c2 = {k: v for k, v in c2.items() if k not in ('probe', 'other')}
    if c2['J'] >= 2 and (c2.get('ds') is None or all(d['didx'] == j for j, d in enumerate(c2['ds']))):
        q = list(range(c2['J']))
        q = q[1:] + q[:1]
        c2 = perm_datasets(c2, q)
    c2 = dict(c2)
    c2['groups'] = [[logu(rng, -1, 1) for _ in W] for W in c2['groups']]
    if c2.get('ds') is not None:
        c2['ns'] = 0.5 * case['ns'] + 0.01
    return c2


def probes(ctx, case, case2, opa):
    """Generic history probes on the REAL objects (tools/HARDENING.md): repeat, interleave, two instances
    built before first use and called alternately, arguments-are-inputs (every ndarray argument and every
    stored input array snapshotted), returned-values-owned-by-the-caller.  Expected values come from
    freshly built twins.  The stubs hand out their stored arrays themselves (no copy), so an in-place
    operation on a yield / ratio array shows up in the snapshots."""
    base = {k: v for k, v in case.items() if k not in ('probe', 'other')}
    rep = dict(base, probe=True, other=case2)
    fresh, fresh2 = run_impl(base), run_impl(case2)
    if fresh['weights'][0] != 'Ok' or fresh2['weights'][0] != 'Ok':
        return
    has_multi = (base.get('ds') is not None and fresh['multi'] is not None and fresh['multi'][0] == 'Ok'
                 and fresh2['multi'] is not None and fresh2['multi'][0] == 'Ok'
                 and all(x is not None and x[0] == 'Ok' for x in fresh['stack'])
                 and all(x is not None for x in fresh['single']))
    st, st2 = Stack(base, alias=True), Stack(case2, alias=True)      # both built before first use
    ctx.count('probes:' + ('multi' if has_multi else 'services'))

    def viol(site, kind, detail, impl=None, model=None):
        ctx.violation(site, kind, detail, case=rep, impl=impl, model=model,
                      predicate='the result is a function of the current inputs only; arguments are inputs')

    def stored(s):
        out = [('yield', j, g, s.arr[j, g]._t) for j in range(s.arr.shape[0]) for g in range(s.arr.shape[1])]
        out += [('src_recarray', j, g, np.array(r['Y'])) for j, row in enumerate(s.ws.src_recarray_list_list)
                for g, r in enumerate(row)]
        out += [('R_ik', n, 0, x._v) for n, x in enumerate(s.stubs)]
        out += [('src_idxs', n, 0, t.src_evt_idxs[0]) for n, t in enumerate(s.tdms)]
        out += [('evt_idxs', n, 0, t.src_evt_idxs[1]) for n, t in enumerate(s.tdms)]
        out.append(('weights', 0, 0, np.array([src.weight for src in s.shg_mgr.source_list], dtype=np.float64)))
        return out

    def snap(s):
        return [(n, a, b, x.tobytes()) for (n, a, b, x) in stored(s)]

    def check_stored(site, s, before):
        for (n, a, b, x), (_, _, _, y) in zip(snap(s), before):
            if x != y:
                viol(site, 'modifies-stored-input:' + n, f'{n}[{a},{b}] was changed in place by the call')

    def call(site, s, fn, args):
        """args: dict name -> ndarray argument; returns fn()'s result"""
        b_args = {k: v.tobytes() for k, v in args.items()}
        b_st = snap(s)
        r = fn()
        for k, v in args.items():
            if v.tobytes() != b_args[k]:
                viol(site, 'modifies-argument:' + k, f'the caller\'s {k} was changed by the call')
        check_stored(site, s, b_st)
        return r

    def same(x, y):
        x, y = np.asarray(x, dtype=np.float64), np.asarray(y, dtype=np.float64)
        return x.shape == y.shape and x.tobytes() == y.tobytes() or bool(np.array_equal(x, y, equal_nan=True))

    with np.errstate(all='ignore'), warnings.catch_warnings():
        warnings.simplefilter('ignore')
        try:
            fit = st.fit(float(base.get('ns', 1.0)))
            fit2 = st2.fit(float(case2.get('ns', 1.0)))
            spr = st.pmm.create_src_params_recarray(fit)
            spr2 = st2.pmm.create_src_params_recarray(fit2)
            # ---- the weight services: repeat, alternate with the other instance, earlier results
            call(P_CALC, st, lambda: st.ws.calculate(spr), {'src_params_recarray': spr})
            st.fs.calculate()
            a1, f1 = st.ws.get_weights()[0], st.fs.get_weights()[0]
            a1c, f1c = a1.copy(), f1.copy()
            if not (same(a1, fresh['weights'][1]) and same(f1, fresh['weights'][2])):
                viol(P_CALC, 'differs-from-fresh-twin', 'first calculate differs from a freshly built service',
                     impl=[a1.tolist(), f1.tolist()], model=fresh['weights'])
            call(P_CALC, st2, lambda: st2.ws.calculate(spr2), {'src_params_recarray': spr2})
            st2.fs.calculate()
            if not (same(st2.ws.get_weights()[0], fresh2['weights'][1]) and same(st2.fs.get_weights()[0], fresh2['weights'][2])):
                viol(P_CALC, 'second-instance-differs-from-fresh-twin', 'the second instance differs from its fresh twin',
                     impl=[st2.ws.get_weights()[0].tolist()], model=fresh2['weights'])
            call(P_CALC, st, lambda: st.ws.calculate(spr), {'src_params_recarray': spr})
            st.fs.calculate()
            if not (same(st.ws.get_weights()[0], a1c) and same(st.fs.get_weights()[0], f1c)):
                viol(P_CALC, 'repeat-differs', 'calculate twice (another instance in between) gives different a_jk / f_j',
                     impl=[st.ws.get_weights()[0].tolist(), st.fs.get_weights()[0].tolist()], model=[a1c.tolist(), f1c.tolist()])
            if not (same(a1, a1c) and same(f1, f1c)):
                viol(P_CALC, 'earlier-result-changed', 'the arrays returned by the first get_weights() changed afterwards')
            if not has_multi:
                return
            # ---- stacked ratios: repeat, interleave the other datasets / the other instance
            r_first = []
            for n, (sw, tdm) in enumerate(zip(st.sws, st.tdms)):
                r = call(P_SW, st, lambda: sw.get_ratio(tdm, spr), {'src_params_recarray': spr})
                r_first.append((r, r.copy()))
                if not same(r, fresh['stack'][n][1]):
                    viol(P_SW, 'differs-from-fresh-twin', f'dataset {n}: long-lived objects differ from a fresh twin',
                         impl=r.tolist(), model=fresh['stack'][n][1])
            for sw, tdm in zip(st2.sws, st2.tdms):
                call(P_SW, st2, lambda: sw.get_ratio(tdm, spr2), {'src_params_recarray': spr2})
            for n, (sw, tdm) in enumerate(zip(st.sws, st.tdms)):
                r = call(P_SW, st, lambda: sw.get_ratio(tdm, spr), {'src_params_recarray': spr})
                (r0, r0c) = r_first[n]
                if not same(r, r0c):
                    viol(P_SW, 'repeat-differs', f'dataset {n}: get_ratio twice gives different ratios', impl=r.tolist(), model=r0c.tolist())
                if not same(r0, r0c):
                    viol(P_SW, 'earlier-result-changed', f'dataset {n}: the array returned by the first call changed afterwards')
                if r is not r0 and np.shares_memory(r, r0) and r.size:
                    viol(P_SW, 'results-share-memory', f'dataset {n}: results of two calls share memory')
            # ---- multi-dataset value: the caller's float64 array is handed over again and again
            want, want2 = fresh['multi'][1], fresh2['multi'][1]
            (v1, g1) = call(P_MULTI, st, lambda: st.m.evaluate(fit), {'fitparam_values': fit})
            g1c = np.array(g1, copy=True)
            if not same(v1, want):
                viol(P_MULTI, 'differs-from-fresh-twin', f'first evaluate {float(v1)!r}, fresh twin {want!r}', impl=float(v1), model=want)
            (w1, h1) = call(P_MULTI, st2, lambda: st2.m.evaluate(fit2), {'fitparam_values': fit2})
            if not same(w1, want2):
                viol(P_MULTI, 'second-instance-differs-from-fresh-twin', f'{float(w1)!r} vs fresh twin {want2!r}', impl=float(w1), model=want2)
            (v2, g2) = call(P_MULTI, st, lambda: st.m.evaluate(fit), {'fitparam_values': fit})
            if not (same(v2, v1) and same(g2, g1c)):
                viol(P_MULTI, 'repeat-differs', f'evaluate twice with the same fitparam_values array: {float(v1)!r} then {float(v2)!r}',
                     impl=float(v2), model=float(v1))
            if not same(g1, g1c):
                viol(P_MULTI, 'earlier-result-changed', 'the gradient array returned by the first evaluate changed afterwards')
            if g2 is not g1 and np.shares_memory(g1, g2):
                viol(P_MULTI, 'results-share-memory', 'gradient arrays of two evaluate calls share memory')
            # same array handed to the other llh ratio function, then back
            (w2, _) = call(P_MULTI, st2, lambda: st2.m.evaluate(fit2), {'fitparam_values': fit2})
            if not same(w2, w1):
                viol(P_MULTI, 'repeat-differs', f'second instance: {float(w1)!r} then {float(w2)!r}', impl=float(w2), model=float(w1))
            # ---- single-dataset functions with the caller's arrays, additivity for the caller's ns
            f = st.fs.get_weights()[0]
            singles = []
            for n, ll in enumerate(st.lls):
                fj = st.fit(fit[st.ns_pidx] * f[n])
                (x1, _) = call(P_SINGLE, st, lambda: ll.evaluate(fj, src_params_recarray=spr),
                               {'fitparam_values': fj, 'src_params_recarray': spr})
                (x2, _) = call(P_SINGLE, st, lambda: ll.evaluate(fj, src_params_recarray=spr),
                               {'fitparam_values': fj, 'src_params_recarray': spr})
                if not same(x1, x2):
                    viol(P_SINGLE, 'repeat-differs', f'dataset {n}: {float(x1)!r} then {float(x2)!r}', impl=float(x2), model=float(x1))
                if not same(x1, fresh['single'][n]):
                    viol(P_SINGLE, 'differs-from-fresh-twin', f'dataset {n}: {float(x1)!r} vs {fresh["single"][n]!r}',
                         impl=float(x1), model=fresh['single'][n])
                singles.append(float(x1))
            # ---- interleave: other ns, second derivative, other instance; then the first call again
            other = st.fit(0.37 * fit[st.ns_pidx] + 0.003)
            call(P_MULTI, st, lambda: st.m.evaluate(other), {'fitparam_values': other})
            try:
                st.m.calculate_ns_grad2(ns=other[st.ns_pidx], ns_pidx=st.ns_pidx, src_params_recarray=spr)
            except Exception:   # noqa: BLE001  (not an observable of this property)
                ctx.count('probes:ns_grad2-raised')
            call(P_MULTI, st2, lambda: st2.m.evaluate(fit2), {'fitparam_values': fit2})
            (v3, g3) = call(P_MULTI, st, lambda: st.m.evaluate(fit), {'fitparam_values': fit})
            if not (same(v3, v1) and same(g3, g1c)):
                viol(P_MULTI, 'interleave-differs', f'evaluate after other calls: {float(v1)!r} then {float(v3)!r}', impl=float(v3), model=float(v1))
            orc = value_oracle(base, opa)
            if orc is not None and not close(float(v3), math.fsum(singles), 1e-12 * (orc[1] + 1.0)):
                viol(P_MULTI, 'not-additive-for-callers-ns', f'value {float(v3)!r}, sum_j llh_j(ns f_j) = {math.fsum(singles)!r}',
                     impl=float(v3), model=math.fsum(singles))
        except (ValueError, IndexError, TypeError, KeyError, AssertionError) as ex:
            viol('history-probes', 'raises-' + exc_name(ex), f'a probe sequence raises: {ex}')


# ----------------------------------------------------------------------------- signal generator (consumer)

P_SG = 'MultiDatasetSignalGenerator.generate_signal_events'
_SG = None


def sg_classes():
    global _SG
    if _SG is None:
        S = sk()
        from skyllh.core.dataset import Dataset, DatasetData
        from skyllh.core.random import RandomStateService
        from skyllh.core.signal_generator import MultiDatasetSignalGenerator, SignalGenerator

        class ConstYield(S.DetSigYield):
            def __init__(self, yields):
                self._y = np.asarray(yields, dtype=np.float64)
                self.param_names = ()

            def sources_to_recarray(self, sources):
                return np.zeros((len(sources),), dtype=[('dec', np.double)])

            def __call__(self, src_recarray, src_params_recarray):
                return (self._y.copy(), {})

        class CountingGenerator(SignalGenerator):
            def __init__(self, *a, **kw):
                super().__init__(*a, **kw)
                self.requested = None

            def generate_signal_events(self, rss, mean, poisson=True, src_detsigyield_weights_service=None):
                self.requested = int(mean)
                return (int(mean), {})

        class NS:
            pass
        n = NS()
        n.__dict__.update(locals())
        _SG = n
    return _SG


def signal_generator_probe(ctx, case):
    """The REAL MultiDatasetSignalGenerator.generate_signal_events (anchored consumer of the fractions) runs
    on the shared weight services between calculate() and get_weights(): afterwards — without another
    calculate — the services must still hold a_jk = W_k Y_jk and the partition of unity f_j; the event
    numbers are non-negative and add up to the request."""
    if not in_guard(case) or case['J'] < 2:
        return
    S, G = sk(), sg_classes()
    fl = flatten(case)
    if fl is None:
        return
    (W, Y) = fl
    J = case['J']
    ex = table_exact(case)
    fe = [float(x) for x in f_exact(ex)]
    srcs = [S.PointLikeSource(name=f'G{k}', ra=0., dec=0.1, weight=float(w)) for k, w in enumerate(W)]
    shg_mgr = S.SourceHypoGroupManager(S.SourceHypoGroup(
        sources=srcs, fluxmodel=S.SteadyPointlikeFFM(Phi0=1, energy_profile=None, cfg=S.cfg),
        detsigyield_builders=S.NoBuilder(cfg=S.cfg), sig_gen_method=None))
    arr = np.empty((J, 1), dtype=object)
    for j in range(J):
        arr[j, 0] = G.ConstYield(Y[j])
    svc = S.Mock(spec_set=['__class__', 'arr', 'shg_mgr', 'n_datasets', 'n_shgs'])
    svc.__class__ = S.DetSigYieldService
    svc.arr, svc.shg_mgr, svc.n_datasets, svc.n_shgs = arr, shg_mgr, J, 1
    ws = S.SrcDetSigYieldWeightsService(detsigyield_service=svc)
    fs = S.DatasetSignalWeightFactorsService(src_detsigyield_weights_service=ws)

    def mock_of(cls):
        m = S.Mock(spec_set=['__class__'])
        m.__class__ = cls
        return m
    gens = [G.CountingGenerator(cfg=S.cfg, shg_mgr=shg_mgr) for _ in range(J)]
    sg = G.MultiDatasetSignalGenerator(
        cfg=S.cfg, shg_mgr=shg_mgr, dataset_list=[mock_of(G.Dataset) for _ in range(J)],
        data_list=[mock_of(G.DatasetData) for _ in range(J)], sig_generator_list=gens,
        ds_sig_weight_factors_service=fs)
    rss = G.RandomStateService(seed=1)
    ctx.count('signal-generator-probes')
    rep = dict(case, sgprobe=True)
    with np.errstate(all='ignore'), warnings.catch_warnings():
        warnings.simplefilter('ignore')
        for mean in (1, 2, 3, 5, 7, 11, 4):
            try:
                (n_gen, _) = sg.generate_signal_events(rss=rss, mean=mean, poisson=False)
            except (ValueError, IndexError, TypeError) as ex_:
                ctx.violation(P_SG, 'raises-' + exc_name(ex_), f'mean = {mean}: {ex_}', case=rep)
                return
            n_j = [g.requested for g in gens]
            if any(n is None or n < 0 for n in n_j) or sum(n_j) != mean or n_gen != mean:
                ctx.violation(P_SG, 'event-numbers-wrong', f'mean = {mean}: per-dataset numbers {n_j}', case=rep, impl=n_j,
                              predicate='n_j >= 0 and sum_j n_j = requested number')
            a = ws.get_weights()[0]
            f = [float(x) for x in fs.get_weights()[0]]      # NOT recalculated
            bad_a = any(not close(float(a[j][k]), float(ex[j][k]), 2 * EPS * abs(float(ex[j][k])) + 5e-324)
                        for j in range(J) for k in range(len(W)))
            bad_f = (any(not (x >= 0.0) for x in f) or not abs(math.fsum(f) - 1.0) <= 8 * EPS
                     or any(not close(x, y, 64 * EPS * y + 5e-324) for x, y in zip(f, fe)))
            if bad_a or bad_f:
                ctx.violation(P_SG, 'corrupts-service-weights',
                              f'after generating {mean} events (n_j = {n_j}) the services hold f_j = {f}, expected {fe}',
                              case=dict(rep, mean=mean), impl=f, model=fe,
                              predicate='generate_signal_events leaves a_jk = W_k Y_jk and the partition of unity f_j in the services')
                return


# ----------------------------------------------------------------------------- correspondence

def queue_model(case, impl, opa, lines, checks):
    lines.append(line_weights(case))
    checks.append(('weights', case, impl['weights'], None))
    if case.get('ds') is None:
        return
    if impl['weights'][0] == 'Ok':
        a = impl['weights'][1]
        for j, d in enumerate(case['ds']):
            if not (-len(a) <= d['didx'] < len(a)):
                continue
            a_k = a[d['didx']]
            lines.append(line_stack(a_k, d))
            checks.append(('stack', case, impl['stack'][j], (j, a_k)))
    lines.append(line_multi(case, opa))
    checks.append(('multi', case, impl['multi'], None))


def compare(ctx, checks, outs, opa):
    for (kind, case, imp, extra), line in zip(checks, outs):
        ctx.corr_cases += 1
        try:
            m = parse_model(kind, line)
        except Exception as ex:   # noqa: BLE001
            m = ('unparsed', line[:200], str(ex))
        site = {'weights': 'weights-services', 'stack': 'SourceWeightedPDFRatio.get_ratio', 'multi': 'MultiDatasetTCLLHRatio.evaluate'}[kind]
        if imp is None:
            continue
        same = False
        if m[0] == 'Err' or imp[0] == 'Err':
            same = tuple(m[:2]) == tuple(imp[:2])
        elif m[0] == 'Ok':
            if kind == 'weights':
                (_, a, f), (_, am, fm) = imp, m
                same = (len(a) == len(am) and all(len(r) == len(rm) for r, rm in zip(a, am)) and len(f) == len(fm)
                        and all(close(x, y, 2 * EPS * abs(y)) for r, rm in zip(a, am) for x, y in zip(r, rm))
                        and all(close(x, y, 64 * EPS * max(1.0, abs(y))) for x, y in zip(f, fm)))
            elif kind == 'stack':
                (j, a_k) = extra
                d = case['ds'][j]
                sc = [0.0] * d['nsel']
                A = abs(sum(a_k))
                for (s, e, r) in d['vals']:
                    if s < len(a_k) and e < d['nsel'] and A > 0:
                        sc[e] += abs(a_k[s] * r) / A
                same = len(imp[1]) == len(m[1]) and all(close(x, y, 16 * EPS * t + 5e-324) for x, y, t in zip(imp[1], m[1], sc))
            else:
                orc = value_oracle(case, opa)
                scale = orc[1] if orc else max(abs(imp[1]), abs(m[1])) if not (math.isnan(imp[1]) or math.isnan(m[1])) else 0.0
                if math.isinf(scale) or math.isnan(scale):
                    scale = 0.0
                same = close(imp[1], m[1], 1e-9 * (scale + 1.0))
        if not same:
            ctx.disagree(site, case, imp, m)


# ----------------------------------------------------------------------------- corpus

def corpus_cases():
    """fixed regression inputs: the test-suite's table, zero entries, several groups, a dataset without yield"""
    t1 = {'J': 2, 'groups': [[1.0, 2.0, 3.0]], 'Y': [[[10.0, 20.0, 30.0]], [[20.0, 40.0, 60.0]]]}
    t2 = {'J': 3, 'groups': [[1.0, 2.0], [3.0], [0.5, 0.25]],
          'Y': [[[1.0, 2.0], [4.0], [0.0, 1.0]], [[0.5, 0.0], [2.0], [3.0, 0.0]], [[0.0, 0.0], [0.0], [0.0, 0.0]]]}
    vals = [[0, 0, 1.5], [0, 2, 2.0], [1, 1, 0.3], [2, 0, 4.0], [2, 1, 5.0], [2, 2, 0.1]]
    m1 = dict(t1, ns=3.0, ds=[{'didx': 0, 'N': 10, 'nsel': 3, 'vals': vals}, {'didx': 1, 'N': 12, 'nsel': 3, 'vals': vals}])
    # Taylor branch in one dataset: ratio 0 events with ns f_j / N close to 1
    m2 = {'J': 2, 'groups': [[1.0], [1.0]], 'Y': [[[3.0], [1.0]], [[1.0], [3.0]]], 'ns': 3.998,
          'ds': [{'didx': 0, 'N': 2, 'nsel': 2, 'vals': [[0, 0, 0.0], [1, 0, 0.0], [0, 1, 2.0], [1, 1, 3.0]]},
                 {'didx': 1, 'N': 50, 'nsel': 1, 'vals': [[1, 0, 7.0]]}]}
    # beyond the bounds J <= 4, K <= 5 of the generators: J = 6 datasets, K = 8 sources in 3 groups
    W8 = [1.0, 2.0, 0.5, 3.0, 1.5, 0.25, 4.0, 0.75]
    Y68 = [[(1 + ((3 * j + 5 * k) % 7)) * (0.5 if (j + k) % 4 == 0 else 1.0) for k in range(8)] for j in range(6)]
    Y68[2][7] = 0.0
    big = {'J': 6, 'groups': [W8[0:3], W8[3:4], W8[4:8]],
           'Y': [[Y68[j][0:3], Y68[j][3:4], Y68[j][4:8]] for j in range(6)]}
    v8 = [[k, e, 0.5 + ((2 * k + 3 * e) % 5)] for k in range(8) for e in range(2)]
    bigm = dict(big, ns=2.5, ds=[{'didx': j, 'N': 9 + j, 'nsel': 2, 'vals': v8} for j in range(6)])
    # a_jk far below 1e-20 (a threshold on a_k would drop sources): same structure as m1, scaled
    tiny = {'J': 2, 'groups': [[1e-14, 2e-14, 3e-14]], 'Y': [[[1e-15, 2e-15, 3e-15]], [[2e-15, 4e-15, 6e-15]]],
            'ns': 3.0, 'ds': [{'didx': 0, 'N': 10, 'nsel': 3, 'vals': vals}, {'didx': 1, 'N': 12, 'nsel': 3, 'vals': vals}]}
    # a dataset with selected events 0 but events > 0, and three groups
    m3 = dict(t2, ns=1.5, ds=[{'didx': 0, 'N': 7, 'nsel': 0, 'vals': []},
                              {'didx': 1, 'N': 9, 'nsel': 2, 'vals': [[0, 0, 2.0], [2, 1, 0.5], [3, 0, 1.0], [4, 1, 3.0]]},
                              {'didx': 2, 'N': 5, 'nsel': 1, 'vals': [[1, 0, 1.0]]}])
    # a source with weight exactly 0 (int and float), services and likelihood
    z1 = {'J': 2, 'groups': [[1.0, 0.0, 3.0]], 'Y': [[[10.0, 20.0, 30.0]], [[20.0, 40.0, 60.0]]]}
    z2 = dict({'J': 2, 'groups': [[0.0, 2.0], [3.0]], 'Y': [[[1.0, 2.0], [4.0]], [[0.5, 1.0], [2.0]]]},
              ns=2.0, ds=[{'didx': 0, 'N': 10, 'nsel': 3, 'vals': vals}, {'didx': 1, 'N': 12, 'nsel': 3, 'vals': vals}])
    # f = (0.3, 0.3, 0.3, 0.1): 2 requested signal events round to 1+1+1+0 (surplus branch of the generator)
    sg = {'J': 4, 'groups': [[1.0, 2.0]], 'Y': [[[1.0, 1.0]], [[2.0, 0.5]], [[0.0, 1.5]], [[0.5, 0.25]]]}
    return [t1, t2, m1, m2, big, bigm, tiny, m3, z1, z2, sg]


# ----------------------------------------------------------------------------- run / replay

def process(ctx, cases, opa, meta_budget, rng, exe):
    lines, checks = [], []
    for c in cases:
        if c.get('probe'):
            ctx.case(c, nontrivial=True)
            probes(ctx, c, c['other'], opa)
            continue
        ctx.case(c, nontrivial=in_guard(c))
        impl = run_history(c) if c.get('history') else run_impl(c)
        if impl.get('notified_ok') is False:
            ctx.violation('MultiDatasetTCLLHRatio.change_shg_mgr', 'single-dataset-llhratio-not-notified',
                          'change_shg_mgr did not reach every single-dataset llh ratio function / TrialDataManager',
                          case=c, predicate='change_shg_mgr is forwarded to every llhratio of llhratio_list')
        queue_model(c, impl, opa, lines, checks)
        predicates_weights(ctx, c, impl)
        if c.get('ds') is not None:
            predicates_stack(ctx, c, impl)
            predicates_multi(ctx, c, impl, opa)
        if c.get('history'):
            continue
        (ns_, nd_) = meta_budget(c)
        if ns_ or nd_:
            metamorphic(ctx, c, impl, opa, ns_, nd_, rng)
        if not c.get('malformed'):
            signal_generator_probe(ctx, {k: v for k, v in c.items() if k not in ('sgprobe', 'mean')})
            long_lived(ctx, c, opa, rng, lines, checks)
            if in_guard(c):
                probes(ctx, c, probe_partner(c, rng), opa)
    if exe is not None and ctx.model_ok:
        try:
            outs = common.ocaml_run(exe, lines)
            if len(outs) != len(lines):
                raise RuntimeError(f'{len(outs)} model results for {len(lines)} cases')
            compare(ctx, checks, outs, opa)
        except RuntimeError as ex:
            ctx.broken.append({'kind': 'model-eval', 'error': str(ex)[:1500]})
    else:
        ctx.notes.append('model did not build: implementation-only predicates were evaluated')


def run(ctx):
    S = sk()
    rng = ctx.rng
    opa = S.opa
    exe = common.ocaml_build(ctx, 'c03') if ctx.model_ok else None
    cases = corpus_cases()
    # every (J, K) at least once, weights only, all permutations enumerated
    for J in range(1, 5):
        for K in range(1, 6):
            cases.append(gen_table(ctx, rng, J, K))
    n_w = ctx.budget(80, 1500)
    n_m = ctx.budget(160, 2500)
    n_bad = ctx.budget(70, 600)
    for _ in range(n_w):
        cases.append(gen_table(ctx, rng))
    for _ in range(n_m):
        cases.append(gen_multi(ctx, rng))
    for _ in range(n_bad):
        cases.append(gen_malformed(ctx, rng))
    full_quota = [ctx.budget(8, 60)]

    def meta_budget(c):
        if c.get('malformed'):
            return (0, 0)
        if c.get('ds') is None:
            # the services alone are cheap: enumerate every permutation
            return (120, 24)
        if full_quota[0] > 0:
            full_quota[0] -= 1
            return (120, 24)
        return ctx.budget((4, 3), (8, 6))

    process(ctx, cases, opa, meta_budget, rng, exe)
    for c in cases[2:4] + cases[-3:]:
        ctx.sample({k: c[k] for k in ('J', 'groups', 'Y', 'ns', 'malformed') if k in c})


def replay(ctx, rp):
    c = rp.get('case')
    if not c or 'groups' not in c:
        ctx.notes.append('replay file has no concrete input (broken obligation): re-running the full check')
        return run(ctx)
    S = sk()
    exe = common.ocaml_build(ctx, 'c03') if ctx.model_ok else None
    process(ctx, [c], S.opa, lambda c_: (0, 0) if c_.get('malformed') else (120, 24), ctx.rng, exe)
