"""C19 — sky-coordinate utilities: metric identities and canonical ranges.

Correspondence: the real numpy functions
  skyllh.core.utils.coords.angular_separation / rotate_spherical_vector,
  skyllh.i3.utils.coords.azi_to_ra_transform / ra_to_azi_transform / hor_to_equ_transform,
  skyllh.analyses.i3.publicdata_ps.utils.psi_to_dec_and_ra,
  skyllh.core.utils.tdm.get_tdm_field_func_psi
against coq/model/M_Coords.v extracted to OCaml and run on IEEE doubles (the
float reading of the same kernels the theorems are proved about).  Tolerances
are derived per case from the conditioning of the last inverse-trigonometric
step; nothing is bit-compared except results that involve only correctly
rounded IEEE operations (+ - * / fmod).

Predicates (failing-input search): the property itself evaluated on the
implementation's outputs against an independent oracle (Vincenty's atan2
formula for the angle between two directions; plain range tests)."""
import math

import numpy as np

from harness import common
from harness.common import fhex

GEN_MODULES = ['coords']
MODEL_TARGETS = ['model/M_Coords.vo', 'model/M_CoordsSF.vo', 'model/M_CoordsPdf.vo']
PROOF_TARGETS = ['proofs/P_Coords_Real.vo', 'proofs/P_Coords_K.vo', 'proofs/P_Coords.vo', 'proofs/P_Coords_Rot.vo',
                 'proofs/P_Coords_Sky.vo', 'proofs/P_Coords_Astropy.vo', 'proofs/P_CoordsPdf.vo']
LEVEL = 'proof'
RULE = ('direction pairs: generic, poles, antipodes (exact and near), identical points, separations 1e-14..1e-8, '
        'RA shifted by full turns, equator, psi_floor; rotations incl. identical / near-identical / near-antipodal '
        'true-source pairs; azimuth in [0,2pi) incl. 0 and the wrap-around neighbours of the local sidereal angle, '
        'MJD 40000..75000 (integers and fractions); zenith in [0,pi]; psi in [0,pi] incl. 0, pi, 1e-12..1e-8, '
        'sources at the poles, t in [0,2pi) incl. 0, pi and the neighbours of 2pi; rotate_signal_events_on_sphere in batches '
        '(mixed, one source, single event, ALL true directions within 1e-5 / 1e-9 / 0 of the source, antipodal, poles, reco '
        '1e-9..2 rad from true, rotated direction exactly a pole); history probes (repeat / interleave / in-place update / '
        'ownership / batch vs single / scalar / broadcast / factories); the real signal_event_post_sampling_processing on '
        'sparse / unordered / single-source index tables (9 deterministic + random), every event against its own source; the '
        'real signal PDF calculate_pd on K x N stub TDMs; NaN/inf inputs as malformed stream. '
        'A case is non-trivial when its inputs are finite; distinct by input hash')
TRUSTED = [
    'Coq 8.16.1 kernel (no vm_compute/native_compute needed by these proofs)',
    'standard-library axioms of the classical reals as printed by Print Assumptions (sig_not_dec, sig_forall_dec, '
    'functional_extensionality_dep, classic)',
    'translator/py2coq.py: per-element reading of the numpy expressions of coords.py / i3 coords.py / psi_to_dec_and_ra '
    '(every arithmetic line is a kernel of G_coords.v, pinned by a K_ lemma)',
    'hand model M_Coords.v of statement order, masked stores, np.cross / np.outer / np.diag+np.roll / np.dot plumbing, '
    'validated by this correspondence through the extracted OCaml code',
    'Coq extraction (ExtrOcamlBasic) + ocaml/common/numf.ml (IEEE double instance of Num)',
    'theorems are about the real-number reading: float rounding is outside (RA rounding to 2pi, NaN from |z|>1 were '
    'found by the predicates and fixed in /repo; exactly antipodal true/source pairs are numerically degenerate in floats)',
    'NumR.Ratan2 / Rfmod are the real-number readings of np.arctan2 / np.mod (definitions in base/NumR.v)',
    'rotate_signal_events_on_sphere: astropy position_angle / separation / directional_offset_by are oracles of the model '
    '(contracts = theorem premises); their transcription M_Coords.ap_* (astropy 8.0.1 angles/utils.py) is proved to meet the '
    'contracts and is compared with the real astropy path on every run',
    'SpecFloat (Coq.Floats.SpecFloat) as the definition of binary64 arithmetic for the closed antipodal witness; its input '
    'literals are compared with numpy on every run',
    'oracle of the predicates: Vincenty formula in Python floats',
    'vector-form Rodrigues rotation about the axis the doubles give (numpy) as reference in the two ill-conditioned zones '
    'of rotate_spherical_vector',
    'over R the range theorems follow from the totality of asin/acos/Rfmod: the clips / double np.mod of the three fixes are '
    'held by K_ lemmas, corpus inputs and range predicates only',
]

EPS = 2.0 ** -52
PI = math.pi
TWOPI = 2.0 * math.pi
HALFPI = math.pi / 2.0


# ---------------------------------------------------------------------- oracle

def vincenty(ra1, d1, ra2, d2):
    """angle between two directions, well conditioned everywhere"""
    dra = ra1 - ra2
    s2 = math.sin(dra / 2.0) ** 2
    a = math.cos(d2) * math.sin(dra)
    b = math.sin(d2 - d1) + 2.0 * math.sin(d1) * math.cos(d2) * s2
    c = math.cos(d2 - d1) - 2.0 * math.cos(d1) * math.cos(d2) * s2
    return math.atan2(math.hypot(a, b), c)


def sep_tol(ra1, d1, ra2, d2, psi):
    """admissible deviation of the haversine value from the true angle:
    input differences are rounded (eps*|delta|), the haversine argument has a
    few eps of error, 2 asin sqrt x has derivative 1/sqrt(x(1-x))"""
    c = max(abs(math.cos(psi / 2.0)), 1e-9)
    return 64 * EPS * max(psi, 0.0) + 8 * EPS * (abs(ra1 - ra2) + abs(d1 - d2) + abs(ra1) + abs(ra2)) + 6 * EPS / c


def circ(a, b):
    d = abs(a - b) % TWOPI
    return min(d, TWOPI - d)


def finite(*xs):
    return all(math.isfinite(x) for x in xs)


def hexline(tag, *xs):
    return tag + ' ' + ' '.join(x if isinstance(x, str) else fhex(x) for x in xs)


def parse(line):
    if line.strip() == 'ERR':
        raise RuntimeError('model driver rejected a case line')
    return [float.fromhex(w) if w not in ('nan',) else float('nan') for w in line.split()]


def same(a, b, tol):
    if math.isnan(a) or math.isnan(b):
        return math.isnan(a) and math.isnan(b)
    if math.isinf(a) or math.isinf(b):
        return a == b
    return abs(a - b) <= tol


# ---------------------------------------------------------------------- generators

def rnd_dir(rng):
    r = rng.random()
    if r < 0.08:
        dec = rng.choice([HALFPI, -HALFPI])
    elif r < 0.16:
        dec = rng.choice([1, -1]) * (HALFPI - 10 ** rng.uniform(-15, -6))
    elif r < 0.24:
        dec = 0.0
    else:
        dec = math.asin(rng.uniform(-1, 1))
    r = rng.random()
    if r < 0.08:
        ra = 0.0
    elif r < 0.14:
        ra = math.nextafter(TWOPI, 0.0)
    elif r < 0.2:
        ra = PI
    else:
        ra = rng.uniform(0, TWOPI)
    return ra, dec


def gen_sep(ctx, rng):
    ra1, d1 = rnd_dir(rng)
    kind = rng.choice(['generic', 'generic', 'identical', 'tiny', 'tiny', 'antipode', 'near-antipode', 'pole-pole',
                       'turns', 'same-ra', 'same-dec', 'floor'])
    fl = None
    if kind == 'identical':
        ra2, d2 = ra1, d1
    elif kind == 'tiny':
        s = 10 ** rng.uniform(-14, -8)
        ph = rng.uniform(0, TWOPI)
        d2 = d1 + s * math.cos(ph)
        ra2 = ra1 + s * math.sin(ph) / max(math.cos(d1), 1e-3)
    elif kind == 'antipode':
        ra2, d2 = ra1 + PI, -d1
    elif kind == 'near-antipode':
        s = 10 ** rng.uniform(-12, -3)
        ra2, d2 = ra1 + PI + s * rng.uniform(-1, 1), -d1 + s * rng.uniform(-1, 1)
    elif kind == 'pole-pole':
        d1 = rng.choice([HALFPI, -HALFPI])
        d2 = rng.choice([HALFPI, -HALFPI])
        ra2 = rng.uniform(0, TWOPI)
    elif kind == 'turns':
        ra2, d2 = rnd_dir(rng)
        ra1 = ra1 + TWOPI * rng.randint(-5, 5)
        ra2 = ra2 + TWOPI * rng.randint(-5, 5)
    elif kind == 'same-ra':
        ra2, d2 = ra1, rnd_dir(rng)[1]
    elif kind == 'same-dec':
        ra2, d2 = rnd_dir(rng)[0], d1
    elif kind == 'floor':
        ra2, d2 = rnd_dir(rng)
        fl = rng.choice([0.0, 1e-9, 0.01, 1.0, 4.0])
    else:
        ra2, d2 = rnd_dir(rng)
    ctx.count('sep:' + kind)
    return {'f': 'sep', 'kind': kind, 'ra1': ra1, 'dec1': d1, 'ra2': ra2, 'dec2': d2, 'floor': fl}


def gen_rot(ctx, rng):
    ra1, d1 = rnd_dir(rng)
    ra3, d3 = rnd_dir(rng)
    kind = rng.choice(['generic', 'generic', 'generic', 'identical', 'near-identical', 'near-antipode', 'reco-near-true',
                       'reco-is-true', 'source-at-pole', 'exact-antipode'])
    if kind == 'identical':
        ra2, d2 = ra1, d1
    elif kind == 'exact-antipode':
        if rng.random() < 0.9:
            kind = 'generic'
            ra2, d2 = rnd_dir(rng)
        else:
            ra2, d2 = ra1 + PI, -d1
    elif kind == 'near-identical':
        s = 10 ** rng.uniform(-7, -2)
        ra2, d2 = ra1 + s * rng.uniform(-1, 1), d1 + s * rng.uniform(-1, 1)
    elif kind == 'near-antipode':
        s = 10 ** rng.uniform(-6, -2)
        ra2, d2 = ra1 + PI + s * rng.uniform(-1, 1), -d1 + s * rng.choice([-1, 1]) * rng.uniform(0.3, 1)
    elif kind == 'reco-near-true':
        ra2, d2 = rnd_dir(rng)
        s = 10 ** rng.uniform(-10, -3)
        ra3, d3 = ra1 + s * rng.uniform(-1, 1), d1 + s * rng.uniform(-1, 1)
    elif kind == 'reco-is-true':
        ra2, d2 = rnd_dir(rng)
        ra3, d3 = ra1, d1
    elif kind == 'source-at-pole':
        ra2, d2 = rng.uniform(0, TWOPI), rng.choice([HALFPI, -HALFPI])
    else:
        ra2, d2 = rnd_dir(rng)
    ctx.count('rot:' + kind)
    return {'f': 'rot', 'kind': kind, 'ra1': ra1, 'dec1': d1, 'ra2': ra2, 'dec2': d2, 'ra3': ra3, 'dec3': d3}


def lst(mjd):
    """the implementation's local sidereal angle in floats (generator use only)"""
    return 2.54199002505 + TWOPI * ((mjd / 0.997269566) % 1)


def gen_a2r(ctx, rng):
    r = rng.random()
    if r < 0.3:
        mjd = float(rng.randint(40000, 75000))
    elif r < 0.4:
        mjd = 58457.0
    else:
        mjd = rng.uniform(40000, 75000)
    kind = rng.choice(['generic', 'generic', 'zero', 'below-2pi', 'wrap', 'wrap', 'multiple'])
    if kind == 'zero':
        azi = 0.0
    elif kind == 'below-2pi':
        azi = math.nextafter(TWOPI, 0.0)
    elif kind == 'wrap':
        # azimuth next to the sidereal angle (mod 2pi): ra before the modulo is 0 or a tiny negative number
        t = lst(mjd) % TWOPI
        azi = t
        for _ in range(rng.randint(0, 3)):
            azi = math.nextafter(azi, rng.choice([0.0, 7.0]))
        if not (0.0 <= azi < TWOPI):
            azi = t
    elif kind == 'multiple':
        azi = rng.choice([HALFPI, PI, 3 * HALFPI, 0.5, 1.0])
    else:
        azi = rng.uniform(0, TWOPI)
    zen = rng.choice([0.0, PI, HALFPI, 0.5, rng.uniform(0, PI), rng.uniform(0, PI)])
    ctx.count('a2r:' + kind)
    return {'f': 'a2r', 'kind': kind, 'azi': azi, 'zen': zen, 'mjd': mjd}


def gen_p2d(ctx, rng):
    kind = rng.choice(['generic', 'generic', 'generic', 'psi0', 'psipi', 'psitiny', 'psi-near-pi', 'src-pole', 'circle-through-pole',
                       't-edge', 'azi-minus-pi'])
    src_ra, src_dec = rnd_dir(rng)
    psi = rng.uniform(0, PI)
    t = rng.uniform(0, TWOPI)
    if kind == 'psi0':
        psi = 0.0
    elif kind == 'psipi':
        psi = PI
    elif kind == 'psitiny':
        psi = 10 ** rng.uniform(-12, -8)
    elif kind == 'psi-near-pi':
        psi = PI - 10 ** rng.uniform(-12, -6)
    elif kind == 'src-pole':
        src_dec = rng.choice([HALFPI, -HALFPI])
    elif kind == 'circle-through-pole':
        # psi equals the source's polar distance: z = sin^2 + cos^2 may exceed 1 by an ulp at t = 0
        psi = HALFPI - src_dec if rng.random() < 0.5 else HALFPI + src_dec
        psi = min(max(psi, 0.0), PI)
        t = rng.choice([0.0, PI, t])
    elif kind == 't-edge':
        t = rng.choice([0.0, PI, math.nextafter(TWOPI, 0.0), HALFPI, 3 * HALFPI])
    elif kind == 'azi-minus-pi':
        # y a tiny negative number and x < 0: arctan2 gives -pi, pi - azi = 2pi before the modulo
        src_ra = 0.0
        src_dec = rng.uniform(-1.2, 1.2)
        psi = rng.uniform(0.0, max(HALFPI - src_dec - 0.05, 0.01))
        t = math.nextafter(TWOPI, 0.0)
    ctx.count('p2d:' + kind)
    return {'f': 'p2d', 'kind': kind, 'src_dec': src_dec, 'src_ra': src_ra, 'psi': psi, 't': t}


def clampdec(d):
    return min(max(d, -HALFPI), HALFPI)


def gen_rses_group(ctx, rng, gid, size=None):
    """one call of rotate_signal_events_on_sphere: a batch of events.  The batch kinds with ALL true directions
    next to the source matter: a shortcut taken for the whole batch (np.allclose) only shows there."""
    gkind = rng.choice(['mixed', 'mixed', 'all-near-1e-5', 'all-near-1e-7', 'all-near-1e-9', 'all-identical', 'single', 'one-source'])
    n = 1 if gkind == 'single' else (size or rng.choice([2, 3, 8, 20]))
    out = []
    src0 = rnd_dir(rng)
    for _ in range(n):
        (sra, sdec) = src0 if gkind == 'one-source' else rnd_dir(rng)
        if rng.random() < 0.12:
            # sources at / next to the poles: exact float pole (astropy's pole branch), inside the approximate branch
            # 0 < cos < 1e-12, and just outside it
            sdec = rng.choice([1, -1]) * (HALFPI - rng.choice([0.0, 0.0, 1e-14, 1e-13, 1e-11, 1e-9, 1e-7, 1e-5]))
        k = gkind
        if gkind in ('mixed', 'single', 'one-source'):
            k = rng.choice(['generic', 'generic', 'near-1e-5', 'near-1e-7', 'near-1e-9', 'identical', 'antipodal', 'true-at-pole'])
        if k in ('all-near-1e-5', 'near-1e-5'):
            tra, tdec = sra + 1e-5 * rng.uniform(-1, 1) * max(abs(sra), 0.1), sdec + 1e-5 * rng.uniform(-1, 1) * max(abs(sdec), 0.1)
        elif k in ('all-near-1e-7', 'near-1e-7'):
            tra, tdec = sra + 1e-7 * rng.uniform(-1, 1), sdec + 1e-7 * rng.uniform(-1, 1)
        elif k in ('all-near-1e-9', 'near-1e-9'):
            tra, tdec = sra + 1e-9 * rng.uniform(-1, 1), sdec + 1e-9 * rng.uniform(-1, 1)
        elif k in ('all-identical', 'identical'):
            tra, tdec = sra, sdec
        elif k == 'antipodal':
            tra, tdec = sra + PI, -sdec
        elif k == 'true-at-pole':
            tra, tdec = rng.uniform(0, TWOPI), rng.choice([HALFPI, -HALFPI])
        else:
            tra, tdec = rnd_dir(rng)
        tdec = clampdec(tdec)
        sc = 10 ** rng.uniform(-9, 0.3)
        ph = rng.uniform(0, TWOPI)
        rra, rdec = tra + sc * math.sin(ph) / max(math.cos(tdec), 1e-2), clampdec(tdec + sc * math.cos(ph))
        if k == 'identical' and rng.random() < 0.3:
            rra, rdec = tra, rng.choice([HALFPI, -HALFPI])       # the rotated direction is a pole
        ctx.count('rses:' + k)
        out.append({'f': 'rses', 'kind': k, 'group': gid, 'src_ra': sra, 'src_dec': sdec, 'true_ra': tra,
                    'true_dec': tdec, 'reco_ra': rra, 'reco_dec': rdec})
    ctx.count('rses-batch:' + gkind)
    return out


def malformed_cases():
    nan, inf = float('nan'), float('inf')
    out = []
    for bad in (nan, inf, -inf):
        out.append({'f': 'sep', 'kind': 'malformed', 'ra1': bad, 'dec1': 0.1, 'ra2': 1.0, 'dec2': 0.2, 'floor': None})
        out.append({'f': 'sep', 'kind': 'malformed', 'ra1': 0.3, 'dec1': 0.1, 'ra2': 1.0, 'dec2': bad, 'floor': 0.5})
        out.append({'f': 'a2r', 'kind': 'malformed', 'azi': bad, 'zen': 0.5, 'mjd': 58000.0})
        out.append({'f': 'a2r', 'kind': 'malformed', 'azi': 0.5, 'zen': bad, 'mjd': bad})
        out.append({'f': 'p2d', 'kind': 'malformed', 'src_dec': 0.2, 'src_ra': 1.0, 'psi': bad, 't': 1.0})
        out.append({'f': 'rses', 'kind': 'malformed', 'group': -2 - len(out), 'src_ra': 1.0, 'src_dec': 0.2, 'true_ra': bad,
                    'true_dec': 0.1, 'reco_ra': 1.0, 'reco_dec': 0.3})
        out.append({'f': 'rot', 'kind': 'malformed', 'ra1': bad, 'dec1': 0.1, 'ra2': 1.0, 'dec2': 0.2, 'ra3': 2.0, 'dec3': 0.3})
    return out


def corpus_cases():
    """regression corpus: inputs of the defects fixed in /repo (known_findings `fixed`) and of the open finding"""
    out = []
    # 8fd2ed7: azi one ulp above the sidereal angle -> ra before the modulo is a tiny negative number -> 2pi
    for mjd in (58457.0, 58000.25, 60000.0, 51544.5, 44239.0, 70000.125):
        t = lst(mjd) % TWOPI
        for k in range(0, 4):
            azi = t
            for _ in range(k):
                azi = math.nextafter(azi, 7.0)
            if 0.0 <= azi < TWOPI:
                out.append({'f': 'a2r', 'kind': 'corpus-wrap', 'azi': azi, 'zen': 2.0, 'mjd': mjd})
    # the pinned test input (open finding: dec = pi - zen)
    out.append({'f': 'a2r', 'kind': 'corpus-test', 'azi': 0.5, 'zen': 0.5, 'mjd': 58457.0})
    # e05f5d8: rotated vector with y = tiny negative (ra -> 2pi) / |z| > 1 (NaN dec)
    for ra in (0.0, 1.0, 2.5):
        for dec in (0.3, -1.1, HALFPI, -HALFPI):
            out.append({'f': 'rot', 'kind': 'corpus-identity', 'ra1': ra, 'dec1': dec, 'ra2': ra, 'dec2': dec,
                        'ra3': math.nextafter(TWOPI, 0.0), 'dec3': 0.2})
            out.append({'f': 'rot', 'kind': 'corpus-pole', 'ra1': ra, 'dec1': dec, 'ra2': 0.7, 'dec2': HALFPI,
                        'ra3': ra, 'dec3': dec})
            out.append({'f': 'rot', 'kind': 'corpus-pole', 'ra1': ra, 'dec1': dec, 'ra2': 0.7, 'dec2': -HALFPI,
                        'ra3': ra, 'dec3': dec})
            out.append({'f': 'rot', 'kind': 'corpus-tiny-neg-ra', 'ra1': ra, 'dec1': dec, 'ra2': ra + 1e-3, 'dec2': dec,
                        'ra3': -1e-3 - 1e-17 + ra * 0, 'dec3': 0.0})
    # separations 4.6e-8 .. 6.3e-8 below pi: the haversine value is 5 .. 9 ulp below 1 (audit G/M5: snapping to pi)
    for (a, b) in ((1.0, 0.5), (2.0, -0.3), (4.0, 0.1), (0.3, 1.0)):
        for dlt in (4.8e-8, 5.2e-8, 5.6e-8, 6.0e-8):
            out.append({'f': 'sep', 'kind': 'corpus-near-pi', 'ra1': a, 'dec1': b, 'ra2': a + PI, 'dec2': -b + dlt, 'floor': None})
    # the two ill-conditioned zones of rotate_spherical_vector, deterministic (audit G/M4): exactly antipodal pairs with
    # different noise norms, nearly antipodal and nearly identical pairs down to 1e-12
    for (a, b) in ((0.0, 0.0), (1.0, 0.5), (2.0, -0.3), (0.3, 1.0), (4.0, 0.1), (5.5, -1.2), (3.0, 0.7), (0.7, -0.9)):
        out.append({'f': 'rot', 'kind': 'corpus-antipodal-zone', 'ra1': a, 'dec1': b, 'ra2': a + PI, 'dec2': -b, 'ra3': a + 0.4, 'dec3': b * 0.5 + 0.2})
        for off in (3e-8, 1e-9, 1e-12):
            out.append({'f': 'rot', 'kind': 'corpus-antipodal-zone', 'ra1': a, 'dec1': b, 'ra2': a + PI, 'dec2': -b + off, 'ra3': a + 0.4,
                        'dec3': b * 0.5 + 0.2})
            out.append({'f': 'rot', 'kind': 'corpus-identity-zone', 'ra1': a, 'dec1': b, 'ra2': a, 'dec2': b + off, 'ra3': a + 0.4,
                        'dec3': b * 0.5 + 0.2})
    # open finding: exactly antipodal true/source pair, reco = true should land on the source
    out.append({'f': 'rot', 'kind': 'corpus-antipodal', 'ra1': 1.0, 'dec1': 0.5, 'ra2': 1.0 + PI, 'dec2': -0.5,
                'ra3': 1.0, 'dec3': 0.5})
    # a whole batch of true directions within np.allclose of the source (shortcut candidates), reco 1e-3 away
    for i in range(4):
        out.append({'f': 'rses', 'kind': 'corpus-all-near', 'group': -1, 'src_ra': 1.0, 'src_dec': 0.5,
                    'true_ra': 1.0 + 1e-5 * (i + 1), 'true_dec': 0.5 - 2e-6 * (i + 1), 'reco_ra': 1.0 + 1e-3 * (i + 1),
                    'reco_dec': 0.5 + 7e-4 * (i - 1.5)})
    # sources at and next to both poles, reco 0.3 rad from true (audit G/M2: flipped or clipped pole sources)
    g = -200
    for sgn in (1, -1):
        for off in (0.0, 1e-14, 1e-11, 1e-7, 1e-6, 1e-3):
            for (tra, tdec, dra, ddec) in ((0.4, 0.2, 0.3, 0.1), (2.0, -0.7, -0.2, 0.25), (5.0, 1.1, 0.1, -0.3)):
                out.append({'f': 'rses', 'kind': 'corpus-pole-source', 'group': g, 'src_ra': 1.3, 'src_dec': sgn * (HALFPI - off),
                            'true_ra': tra, 'true_dec': tdec, 'reco_ra': tra + dra, 'reco_dec': tdec + ddec})
            g -= 1
    # open finding: destination exactly at the pole -> astropy takes arcsin(1 + ulp) = NaN
    for (a, b) in ((5.792200979058819, -0.3433245192852074), (0.17346625885636222, -0.32503212338975546),
                   (1.7491562850383493, -0.12057143314450967)):
        out.append({'f': 'rses', 'kind': 'corpus-nan-at-pole', 'group': -100 - len(out), 'src_ra': a, 'src_dec': b, 'true_ra': a,
                    'true_dec': b, 'reco_ra': a, 'reco_dec': HALFPI})
    # special-angle grid for the separation (poles, equator, quadrants, both ends of the RA range)
    ras = [0.0, HALFPI, PI, 3 * HALFPI, math.nextafter(TWOPI, 0.0)]
    decs = [-HALFPI, -PI / 4, 0.0, PI / 4, HALFPI]
    for a1 in ras:
        for b1 in decs:
            for a2 in ras:
                for b2 in decs:
                    out.append({'f': 'sep', 'kind': 'grid', 'ra1': a1, 'dec1': b1, 'ra2': a2, 'dec2': b2, 'floor': None})
    # 7ad5444: z = sin^2 + cos^2 > 1 (NaN) ; azi = -pi (ra = 2pi)
    for sd in (0.1, 0.3, 0.7, 1.0, -0.4, -1.3, 1.2):
        out.append({'f': 'p2d', 'kind': 'corpus-z-gt-1', 'src_dec': sd, 'src_ra': 1.0, 'psi': HALFPI - sd, 't': 0.0})
        out.append({'f': 'p2d', 'kind': 'corpus-z-lt-m1', 'src_dec': sd, 'src_ra': 1.0, 'psi': HALFPI + sd, 't': PI})
        out.append({'f': 'p2d', 'kind': 'corpus-azi-minus-pi', 'src_dec': sd, 'src_ra': 0.0,
                    'psi': max((HALFPI - sd) / 2, 0.01), 't': math.nextafter(TWOPI, 0.0)})
    return out


# ---------------------------------------------------------------------- implementation side

class StubRSS:
    """RandomStateService stand-in: uniform() returns the prescribed draws and records its bounds"""
    class _R:
        def __init__(self, ts):
            self.ts = ts
            self.calls = []

        def uniform(self, lo, hi, size=None):
            self.calls.append((float(lo), float(hi), size))
            n = len(self.ts) if size is None else int(np.prod(size))
            return np.resize(np.array(self.ts, dtype=np.float64), n)

    def __init__(self, ts):
        self.random = StubRSS._R(ts)


class StubTDM:
    def __init__(self, ra, dec, src_ra, src_dec, src_idxs, evt_idxs):
        self._d = {'ra': np.array(ra), 'dec': np.array(dec),
                   'src_array': np.array(list(zip(src_ra, src_dec)), dtype=[('ra', np.float64), ('dec', np.float64)])}
        self.src_evt_idxs = (np.array(src_idxs, dtype=np.int64), np.array(evt_idxs, dtype=np.int64))

    def get_data(self, name):
        return self._d[name]


def arr(cases, key):
    return np.array([c[key] for c in cases], dtype=np.float64)


def run_sep(ctx, cases, lines, checks):
    from skyllh.core.utils.coords import angular_separation
    with np.errstate(all='ignore'):
        for fl in sorted({c['floor'] for c in cases}, key=lambda v: (v is not None, v)):
            grp = [c for c in cases if c['floor'] == fl]
            if not grp:
                continue
            psi = angular_separation(arr(grp, 'ra1'), arr(grp, 'dec1'), arr(grp, 'ra2'), arr(grp, 'dec2'), psi_floor=fl)
            rev = angular_separation(arr(grp, 'ra2'), arr(grp, 'dec2'), arr(grp, 'ra1'), arr(grp, 'dec1'), psi_floor=fl)
            slf = angular_separation(arr(grp, 'ra1'), arr(grp, 'dec1'), arr(grp, 'ra1'), arr(grp, 'dec1'))
            k = np.array([float(1 + (i % 3)) for i in range(len(grp))])
            trn = angular_separation(arr(grp, 'ra1') + TWOPI * k, arr(grp, 'dec1'), arr(grp, 'ra2') - TWOPI * k,
                                     arr(grp, 'dec2'), psi_floor=fl)
            for i, c in enumerate(grp):
                c['impl'] = float(psi[i])
                lines.append(hexline('sep', c['ra1'], c['dec1'], c['ra2'], c['dec2'], '-' if fl is None else fhex(fl)))
                checks.append(c)
                pred_sep(ctx, c, float(psi[i]), float(rev[i]), float(slf[i]), float(trn[i]), float(k[i]))


def pred_sep(ctx, c, psi, rev, slf, trn, k):
    a = (c['ra1'], c['dec1'], c['ra2'], c['dec2'])
    if not finite(*a):
        return
    site = 'angular_separation'
    fl = c['floor']
    if not same(psi, rev, 0.0):
        ctx.violation(site, 'not-symmetric', f'sep(a,b)={psi!r} sep(b,a)={rev!r}', case=c, impl=[psi, rev],
                      predicate='sep(a,b) == sep(b,a)')
    if slf != 0.0:
        ctx.violation(site, 'nonzero-for-equal', f'sep(a,a)={slf!r}', case=c, impl=slf, predicate='sep(a,a) == 0')
    lo = 0.0 if fl is None else max(0.0, fl)
    if not (lo <= psi <= max(PI, lo)):
        ctx.violation(site, 'out-of-range', f'sep={psi!r} not in [{lo}, pi]', case=c, impl=psi, predicate='0 <= sep <= pi')
    want = vincenty(*a)
    tol = sep_tol(*a, want)
    ref = want if fl is None else max(want, fl)
    if abs(psi - ref) > tol:
        ctx.violation(site, 'not-the-angle-between-unit-vectors', f'sep={psi!r} angle={ref!r} tol={tol:.3g}', case=c,
                      impl=psi, model=ref, predicate='sep == angle(u1,u2)')
    tol_t = tol + 64 * EPS * TWOPI * (k + 1) + 16 * EPS * TWOPI * (k + 1) / max(abs(math.cos(want / 2.0)), 1e-9)
    if abs(trn - psi) > tol_t:
        ctx.violation(site, 'changes-under-full-turns', f'sep={psi!r} after RA +- 2pi*{k}: {trn!r} tol={tol_t:.3g}', case=c,
                      impl=[psi, trn], predicate='sep(ra1+2pi k, ., ra2-2pi k, .) == sep')


def run_tdm(ctx, rng, lines, checks, n_groups):
    from skyllh.core.utils.tdm import get_tdm_field_func_psi
    for _ in range(n_groups):
        n_src, n_evt = rng.randint(1, 3), rng.randint(1, 6)
        src = [rnd_dir(rng) for _ in range(n_src)]
        evt = [rnd_dir(rng) for _ in range(n_evt)]
        pairs = [(s, e) for s in range(n_src) for e in range(n_evt) if rng.random() < 0.7] or [(0, 0)]
        fl = rng.choice([None, None, 0.01, 1.0])
        tdm = StubTDM([e[0] for e in evt], [e[1] for e in evt], [s[0] for s in src], [s[1] for s in src],
                      [p[0] for p in pairs], [p[1] for p in pairs])
        psi = get_tdm_field_func_psi(psi_floor=fl)(tdm, None, None)
        for (s, e_), v in zip(pairs, psi):
            c = {'f': 'tdm', 'ra': evt[e_][0], 'dec': evt[e_][1], 'src_ra': src[s][0], 'src_dec': src[s][1], 'floor': fl,
                 'impl': float(v)}
            ctx.case(c)
            ctx.count('tdm:pairs')
            lines.append(hexline('tdm', c['ra'], c['dec'], c['src_ra'], c['src_dec'], '-' if fl is None else fhex(fl)))
            checks.append(c)
            want = vincenty(c['src_ra'], c['src_dec'], c['ra'], c['dec'])
            ref = want if fl is None else max(want, fl)
            if abs(float(v) - ref) > sep_tol(c['src_ra'], c['src_dec'], c['ra'], c['dec'], want):
                ctx.violation('tdm_field_func_psi', 'not-source-event-angle', f'psi={float(v)!r} angle={ref!r}', case=c,
                              impl=float(v), model=ref, predicate='psi == angle(source, event)')


def run_signalpdf(ctx, rng, n_groups, lines=None, checks=None):
    """GaussianPSFPointLikeSourceSignalSpatialPDF.calculate_pd on a stub TDM with K sources x N events and a sparse,
    shuffled (source, event) index table: pd must be the Gaussian of the SOURCE-EVENT angle of each listed pair
    (audit G/M1: np.take with the wrong index array)."""
    from skyllh.core.signalpdf import GaussianPSFPointLikeSourceSignalSpatialPDF
    from skyllh.core.config import Config
    site = 'GaussianPSFPointLikeSourceSignalSpatialPDF.calculate_pd'
    pdf = GaussianPSFPointLikeSourceSignalSpatialPDF(cfg=Config())
    for g in range(n_groups):
        if g == 0:
            n_src, n_evt = 3, 5                       # deterministic first group: more events than sources
            src = [(0.3, -0.4), (2.0, 0.9), (5.0, 0.1)]
            evt = [(0.5, -0.2), (1.7, 1.0), (4.6, 0.3), (3.0, -1.0), (6.0, 0.6)]
            sig = [0.3, 0.5, 0.8, 0.4, 0.6]
            pairs = [(2, 0), (0, 4), (1, 1), (0, 0), (2, 3), (1, 4), (0, 2)]
        elif g == 1:
            # malformed stream: sigma = 0, NaN, inf, negative (value = the same float expression in code and model)
            n_src, n_evt = 1, 4
            src = [(1.0, 0.2)]
            evt = [(1.1, 0.3), (1.0, 0.2), (2.0, -0.4), (0.5, 0.1)]
            sig = [0.0, float('nan'), float('inf'), -0.7]
            pairs = [(0, 0), (0, 1), (0, 2), (0, 3)]
        else:
            n_src, n_evt = rng.randint(1, 4), rng.randint(1, 7)
            src = [(rng.uniform(0, TWOPI), rng.uniform(-1.3, 1.3)) for _ in range(n_src)]
            evt = [(rng.uniform(0, TWOPI), rng.uniform(-1.3, 1.3)) for _ in range(n_evt)]
            sig = [rng.uniform(0.2, 1.5) for _ in range(n_evt)]
            pairs = [(s_, e_) for s_ in range(n_src) for e_ in range(n_evt) if rng.random() < 0.6] or [(0, 0)]
            rng.shuffle(pairs)
        tdm = StubTDM([e_[0] for e_ in evt], [e_[1] for e_ in evt], [s_[0] for s_ in src], [s_[1] for s_ in src],
                      [p[0] for p in pairs], [p[1] for p in pairs])
        tdm._d['ang_err'] = np.array(sig)
        before = {k: v.tobytes() for k, v in tdm._d.items()}
        case = {'f': 'signalpdf', 'src': src, 'evt': evt, 'ang_err': sig, 'pairs': pairs}
        ctx.case(case)
        ctx.count('signalpdf:groups')
        try:
            with np.errstate(all='ignore'):
                pd = np.asarray(pdf.calculate_pd(tdm), dtype=np.float64)
            assert pd.shape == (len(pairs),), pd.shape
        except Exception as ex:
            ctx.violation(site, 'raises-' + type(ex).__name__, str(ex)[:200], case=case, predicate='returns one pd per (source, event) pair')
            continue
        if {k: v.tobytes() for k, v in tdm._d.items()} != before:
            ctx.violation(site, 'argument-modified', 'TDM data changed by calculate_pd', case=case, predicate='arguments are inputs')
        for (s_, e_), v in zip(pairs, pd):
            ctx.count('signalpdf:pairs')
            if lines is not None:
                lines.append(hexline('spdfpd', src[s_][0], src[s_][1], evt[e_][0], evt[e_][1], sig[e_]))
                checks.append({'f': 'spdfpd', 'src_ra': src[s_][0], 'src_dec': src[s_][1], 'ra': evt[e_][0], 'dec': evt[e_][1],
                               'sigma': sig[e_], 'impl': float(v)})
            if not (math.isfinite(sig[e_]) and sig[e_] > 0):
                ctx.count('signalpdf:malformed-sigma')
                continue
            psi = vincenty(src[s_][0], src[s_][1], evt[e_][0], evt[e_][1])
            s2 = sig[e_] ** 2
            want = 0.5 / (PI * s2) * math.exp(-0.5 * psi * psi / s2)
            rel = 1e-12 + psi / s2 * sep_tol(src[s_][0], src[s_][1], evt[e_][0], evt[e_][1], psi)
            if not abs(float(v) - want) <= rel * want:
                ctx.violation(site, 'pd-not-gaussian-of-source-event-angle',
                              f'pair (source {s_}, event {e_}): pd={float(v)!r}, expected {want!r} for psi={psi!r}, sigma={sig[e_]!r}',
                              case=case, impl=float(v), model=want,
                              predicate='pd = exp(-psi^2 / (2 sigma^2)) / (2 pi sigma^2), psi = angle(source, event)')
                break


PS_SITE = 'PointLikeSourceI3SignalGenerationMethod.signal_event_post_sampling_processing'


def post_sampling_tables(rng, n_random):
    """(sources, source index per event): deterministic sparse / unordered / single-source tables first (a lower-index
    source without events, only the last source, descending order, one event), then random ones"""
    src3 = [(math.radians(10), math.radians(5)), (math.radians(120), math.radians(-30)), (math.radians(250), math.radians(60))]
    src5 = src3 + [(4.0, 1.2), (0.5, -1.0)]
    out = [(src3, [0, 2, 2, 0, 2, 0, 2, 2]), (src3, [2, 2, 2]), (src3, [1]), (src3, [2, 1]), (src3, [0, 1, 2, 1, 0, 2, 2, 1]),
           (src5, [4, 1, 4, 3, 1]), (src5, [3]), (src5, [4, 4, 0]), (src5, [2, 0])]
    for _ in range(n_random):
        k = rng.randint(1, 6)
        srcs = [rnd_dir(rng) for _ in range(k)]
        used = [i for i in range(k) if rng.random() < 0.6] or [k - 1]
        out.append((srcs, [rng.choice(used) for _ in range(rng.randint(1, 12))]))
    return out


def run_post_sampling(ctx, rng, lines, checks, n_random):
    """the real caller of rotate_signal_events_on_sphere on real DataFieldRecordArray events with sparse source-index
    tables: every event is checked against ITS OWN source (seeded C19-7: source looked up by loop position)"""
    from skyllh.i3.signal_generation import PointLikeSourceI3SignalGenerationMethod
    from skyllh.core.source_model import PointLikeSource
    from skyllh.core.storage import DataFieldRecordArray

    class _SHG:
        def __init__(self, srcs):
            self.source_list = [PointLikeSource(ra=a, dec=b) for (a, b) in srcs]

    method = PointLikeSourceI3SignalGenerationMethod()
    det = random_like(20260926)
    for t, (srcs, idx) in enumerate(post_sampling_tables(rng, n_random)):
        r = det if t < 9 else rng                      # the deterministic tables get seed-independent events
        n = len(idx)
        tra = [r.uniform(0, TWOPI) for _ in range(n)]
        tdec = [math.asin(r.uniform(-0.95, 0.95)) for _ in range(n)]
        sc = [10 ** r.uniform(-6, -0.5) for _ in range(n)]
        rra = [(a + s_ * r.uniform(-1, 1)) % TWOPI for a, s_ in zip(tra, sc)]
        rdec = [clampdec(d + s_ * r.uniform(-1, 1)) for d, s_ in zip(tdec, sc)]
        events = DataFieldRecordArray(dict(true_ra=np.array(tra), true_dec=np.array(tdec), ra=np.array(rra), dec=np.array(rdec),
                                           sin_dec=np.sin(np.array(rdec))))
        meta = np.empty((n,), dtype=[('shg_src_idx', np.int64)])
        meta['shg_src_idx'] = idx
        case0 = {'f': 'post-sampling', 'sources': srcs, 'shg_src_idx': idx, 'true_ra': tra, 'true_dec': tdec, 'reco_ra': rra,
                 'reco_dec': rdec}
        ctx.case(case0)
        ctx.count('post-sampling:tables')
        if sorted(set(idx)) != list(range(len(set(idx)))):
            ctx.count('post-sampling:sparse-or-shifted-index-table')
        try:
            with np.errstate(all='ignore'):
                out = method.signal_event_post_sampling_processing(_SHG(srcs), meta, events)
            ora, odec, osd = (np.array(out['ra'], dtype=np.float64), np.array(out['dec'], dtype=np.float64),
                              np.array(out['sin_dec'], dtype=np.float64))
            assert len(out) == n and ora.shape == (n,), (len(out), ora.shape)
        except Exception as ex:
            ctx.violation(PS_SITE, 'raises-' + type(ex).__name__, str(ex)[:200], case=case0,
                          predicate='processes every event of the source hypothesis group')
            continue
        if list(meta['shg_src_idx']) != idx or list(out['true_ra']) != tra or list(out['true_dec']) != tdec:
            ctx.violation(PS_SITE, 'inputs-modified', 'meta data or the true directions changed', case=case0,
                          predicate='only ra / dec / sin_dec of the events are rewritten')
        for i in range(n):
            (sra, sdec) = srcs[idx[i]]
            c = {'f': 'rsesps', 'kind': 'post-sampling', 'src_ra': sra, 'src_dec': sdec, 'true_ra': tra[i], 'true_dec': tdec[i],
                 'reco_ra': rra[i], 'reco_dec': rdec[i], 'impl': [float(ora[i]), float(odec[i])], 'event': i, 'table': idx,
                 'sources': srcs}
            ctx.count('post-sampling:events')
            lines.append(hexline('rses', sra, sdec, tra[i], tdec[i], rra[i], rdec[i]))
            checks.append(c)
            (ra, dec) = c['impl']
            if not (0.0 <= ra < TWOPI and -HALFPI <= dec <= HALFPI):
                ctx.violation(PS_SITE, 'coordinates-out-of-range', f'event {i}: ({ra!r}, {dec!r})', case=case0, impl=[ra, dec],
                              predicate='0 <= ra < 2pi, -pi/2 <= dec <= pi/2')
                continue
            want = vincenty(rra[i], rdec[i], tra[i], tdec[i])
            got = vincenty(ra, dec, sra, sdec)
            tol = 64 * EPS * rses_cond(c, dec) + 16 * EPS * (abs(sra) + abs(tra[i]) + abs(rra[i]))
            if abs(got - want) > tol:
                others = [j for j, (a, b) in enumerate(srcs) if j != idx[i] and abs(vincenty(ra, dec, a, b) - want) <= 1e-9]
                ctx.violation(PS_SITE, 'rotated-onto-wrong-source' if others else 'separation-from-own-source-not-preserved',
                              f'event {i} sampled for source {idx[i]}: separation from it {got!r}, reco-true {want!r}'
                              + (f'; the event sits at that separation from source {others[0]}' if others else ''),
                              case=case0, impl=[ra, dec], model=want,
                              predicate='sep(rotated reco, source_list[shg_src_idx]) == sep(reco, true)')
            if float(osd[i]) != math.sin(dec) and abs(float(osd[i]) - math.sin(dec)) > 4 * EPS:
                ctx.violation(PS_SITE, 'sin_dec-not-updated', f'event {i}: sin_dec={float(osd[i])!r}, sin(dec)={math.sin(dec)!r}',
                              case=case0, predicate='sin_dec == sin(dec) after the rotation')


def random_like(seed):
    import random
    return random.Random(seed)


def run_rot(ctx, cases, lines, checks):
    from skyllh.core.utils.coords import rotate_spherical_vector
    with np.errstate(all='ignore'):
        (ra, dec) = rotate_spherical_vector(arr(cases, 'ra1'), arr(cases, 'dec1'), arr(cases, 'ra2'), arr(cases, 'dec2'),
                                            arr(cases, 'ra3'), arr(cases, 'dec3'))
    (era, edec) = rodrigues_vector_form(*(arr(cases, k) for k in ('ra1', 'dec1', 'ra2', 'dec2', 'ra3', 'dec3')))
    for i, c in enumerate(cases):
        c['impl'] = [float(ra[i]), float(dec[i])]
        lines.append(hexline('rot', c['ra1'], c['dec1'], c['ra2'], c['dec2'], c['ra3'], c['dec3']))
        checks.append(c)
        pred_rot(ctx, c, float(ra[i]), float(dec[i]), float(era[i]), float(edec[i]))


def rodrigues_vector_form(ra1, d1, ra2, d2, ra3, d3):
    """c v3 + (1-c)(n.v3) n + s (n x v3) with the axis n = normalised cross(v1, v2) as doubles give it (normalised
    whenever its norm is > 0, as the code does).  Vector form, no matrix / roll / outer plumbing: the reference for what
    the documented algorithm returns where the axis is rounding noise (antipodal pairs) or the angle is ~0."""
    with np.errstate(all='ignore'):
        def vec(ra, d):
            return np.stack([np.cos(ra) * np.cos(d), np.sin(ra) * np.cos(d), np.sin(d)], axis=1)
        v1, v2, v3 = vec(ra1, d1), vec(ra2, d2), vec(ra3, d3)
        ca = np.clip(np.cos(ra2 - ra1) * np.cos(d1) * np.cos(d2) + np.sin(d1) * np.sin(d2), -1.0, 1.0)
        sa = np.sin(np.arccos(ca))
        n = np.cross(v1, v2)
        norm = np.sqrt(np.sum(n ** 2, axis=1))
        m = norm > 0
        n[m] = n[m] / norm[m][:, None]
        w = ca[:, None] * v3 + ((1.0 - ca) * np.sum(n * v3, axis=1))[:, None] * n + sa[:, None] * np.cross(n, v3)
        return np.mod(np.arctan2(w[:, 1], w[:, 0]), TWOPI), np.arcsin(np.clip(w[:, 2], -1.0, 1.0))


def axis_norm(c):
    """|v1 x v2| = sin(angle(true, source)): the conditioning of the rotation axis"""
    return abs(math.sin(vincenty(c['ra1'], c['dec1'], c['ra2'], c['dec2'])))


def pred_rot(ctx, c, ra, dec, exp_ra=None, exp_dec=None):
    ins = (c['ra1'], c['dec1'], c['ra2'], c['dec2'], c['ra3'], c['dec3'])
    if not finite(*ins):
        return
    site = 'rotate_spherical_vector'
    if not (0.0 <= ra < TWOPI):
        ctx.violation(site, 'ra-out-of-range', f'ra={ra!r}', case=c, impl=[ra, dec], predicate='0 <= ra < 2pi')
    if not (-HALFPI <= dec <= HALFPI):
        ctx.violation(site, 'dec-out-of-range', f'dec={dec!r}', case=c, impl=[ra, dec], predicate='-pi/2 <= dec <= pi/2')
    if not finite(ra, dec):
        return
    ang12 = vincenty(c['ra1'], c['dec1'], c['ra2'], c['dec2'])
    sn = abs(math.sin(ang12))
    want = vincenty(c['ra3'], c['dec3'], c['ra1'], c['dec1'])
    got = vincenty(ra, dec, c['ra2'], c['dec2'])
    # the normalised axis has a relative error eps/|v1 x v2|, and alpha = arccos(cos_alpha) has the absolute error
    # eps/sin(alpha): both scale with 1/|v1 x v2| (exactly identical directions give the identity matrix)
    near_id = ang12 < 1.0
    cond = 1.0 if (sn == 0.0 and near_id) else (1.0 / sn if sn > 0 else float('inf'))
    # the result is returned through asin(z): direction error up to sqrt(eps)-ish next to the poles
    tol = 64 * EPS * cond + 64 * EPS / max(math.cos(dec), 3e-8) + 32 * EPS * (abs(c['ra1']) + abs(c['ra2']) + abs(c['ra3']))
    c['cond'] = cond
    c['ang12'] = ang12
    if cond > 1e7:
        # |v1 x v2| < 1e-7.  The separation predicate cannot be applied with a meaningful tolerance, but the result is
        # still determined: it must be the Rodrigues rotation of reco about the axis the doubles give (audit G/2g, M4).
        if exp_ra is None or not finite(exp_ra, exp_dec):
            (era, edec) = rodrigues_vector_form(*(np.array([c[k]]) for k in ('ra1', 'dec1', 'ra2', 'dec2', 'ra3', 'dec3')))
            exp_ra, exp_dec = float(era[0]), float(edec[0])
        dev = vincenty(ra, dec, exp_ra, exp_dec)
        if not dev <= 1e-9 + 64 * EPS / max(math.cos(dec), 3e-8):
            ctx.violation(site, 'not-the-rodrigues-rotation-about-the-computed-axis',
                          f'result differs by {dev:.3g} rad from c v + (1-c)(n.v) n + s (n x v)', case=c, impl=[ra, dec],
                          model=[exp_ra, exp_dec], predicate='result = Rodrigues rotation of reco about normalised cross(true, source)')
        elif ang12 > PI - 2e-7:
            # v1.v2 < 0: (numerically) antipodal true/source pair, the normalised axis is rounding noise (over the reals
            # the axis is 0 and the matrix is -1: theorem C19_rotation_preserves_separation) - the known finding
            ctx.count('rot:antipodal-axis-degenerate')
            if abs(got - want) > 1e-6:
                ctx.violation(site, 'separation-not-preserved-antipodal-true-source',
                              f'sep(rot(reco),src)={got!r} sep(reco,true)={want!r}', case=c, impl=[ra, dec], model=want,
                              predicate='sep(R reco, source) == sep(reco, true)')
        else:
            # nearly identical true/source: the rotation angle is tiny, so nothing can move by more than that.  On doubles the
            # angle is arccos of a cosine within a few ulp of 1, i.e. quantised in steps of sqrt(2 ulp) = 1.5e-8:
            # alpha_float <= sqrt(alpha^2 + 16 eps)
            ctx.count('rot:near-identity-zone')
            if abs(got - want) > 2.5 * math.sqrt(ang12 ** 2 + 16 * EPS) + 64 * EPS / max(math.cos(dec), 3e-8) + 1e-15:
                ctx.violation(site, 'separation-not-preserved', f'sep(rot(reco),src)={got!r} sep(reco,true)={want!r} '
                              f'(true-source angle {ang12:.3g})', case=c, impl=[ra, dec], model=want,
                              predicate='sep(R reco, source) == sep(reco, true)')
        return
    if abs(got - want) > tol:
        ctx.violation(site, 'separation-not-preserved', f'sep(rot(reco),src)={got!r} sep(reco,true)={want!r} tol={tol:.3g}',
                      case=c, impl=[ra, dec], model=want, predicate='sep(R reco, source) == sep(reco, true)')


def run_rses(ctx, cases, lines, checks):
    from skyllh.core.utils.coords import rotate_signal_events_on_sphere
    groups = {}
    for c in cases:
        groups.setdefault(c.get('group', 0), []).append(c)
    keys = ('src_ra', 'src_dec', 'true_ra', 'true_dec', 'reco_ra', 'reco_dec')
    for gid, grp in groups.items():
        args = [arr(grp, k) for k in keys]
        before = [a.tobytes() for a in args]
        try:
            with np.errstate(all='ignore'):
                (ra, dec) = rotate_signal_events_on_sphere(*args)
            ra, dec = np.asarray(ra, dtype=np.float64), np.asarray(dec, dtype=np.float64)
            assert ra.shape == dec.shape == (len(grp),), (ra.shape, dec.shape)
        except Exception as ex:
            if all(finite(*(c[k] for k in keys)) for c in grp):
                ctx.violation('rotate_signal_events_on_sphere', 'raises-' + type(ex).__name__, str(ex)[:200], case=grp[0],
                              predicate='returns (ra, dec) for finite directions')
            continue
        if [a.tobytes() for a in args] != before:
            ctx.violation('rotate_signal_events_on_sphere', 'argument-modified', 'an argument array was changed', case=grp[0],
                          predicate='arguments are inputs')
        if any(np.shares_memory(r, a) for r in (ra, dec) for a in args):
            ctx.violation('rotate_signal_events_on_sphere', 'result-aliases-argument',
                          'a returned array shares memory with an argument (the events were not rotated into new arrays)',
                          case=grp[0], predicate='results are new arrays')
        for i, c in enumerate(grp):
            c['impl'] = [float(ra[i]), float(dec[i])]
            lines.append(hexline('rses', *(c[k] for k in keys)))
            checks.append(c)
            pred_rses(ctx, c, float(ra[i]), float(dec[i]))


def rses_cond(c, dec_out):
    """conditioning of the result: only the final arcsin (1/cos(dec_out), at most 1/sqrt(eps)).  Measured on astropy for
    sources AT the float poles, 1e-14 .. 1e-3 away from them and anywhere else: |sep error| * cos(dec_out) <= 4e-16 and
    |direction(model) - direction(astropy)| <= 1.3e-15, so the source declination does NOT enter the tolerance
    (audit G/M2: a 1/cos(src_dec) term made the tolerance void at pole sources)."""
    return 1.0 + 1.0 / max(math.cos(dec_out), 3e-8)


def rses_expected_z(c):
    """sine of the latitude of the expected destination (cosine rule), from Python-float oracles"""
    sig = vincenty(c['reco_ra'], c['reco_dec'], c['true_ra'], c['true_dec'])
    dl = c['reco_ra'] - c['true_ra']
    x = math.sin(c['reco_dec']) * math.cos(c['true_dec']) - math.cos(c['reco_dec']) * math.sin(c['true_dec']) * math.cos(dl)
    y = math.sin(dl) * math.cos(c['reco_dec'])
    pa = math.atan2(y, x)
    return math.sin(c['src_dec']) * math.cos(sig) + math.cos(c['src_dec']) * math.sin(sig) * math.cos(pa)


def pred_rses(ctx, c, ra, dec):
    keys = ('src_ra', 'src_dec', 'true_ra', 'true_dec', 'reco_ra', 'reco_dec')
    if not finite(*(c[k] for k in keys)):
        return
    site = 'rotate_signal_events_on_sphere'
    if not (0.0 <= ra < TWOPI):
        ctx.violation(site, 'ra-out-of-range', f'ra={ra!r}', case=c, impl=[ra, dec], predicate='0 <= ra < 2pi')
    if math.isnan(dec) and abs(rses_expected_z(c)) >= 1.0 - 1e-12:
        # astropy's offset_by takes arcsin of a cosine-rule value that exceeds 1 by rounding
        ctx.count('rses:nan-at-pole')
        ctx.violation(site, 'dec-nan-when-result-at-pole', f'dec={dec!r}', case=c, impl=[ra, dec],
                      predicate='-pi/2 <= dec <= pi/2')
    elif not (-HALFPI <= dec <= HALFPI):
        ctx.violation(site, 'dec-out-of-range', f'dec={dec!r}', case=c, impl=[ra, dec], predicate='-pi/2 <= dec <= pi/2')
    if not finite(ra, dec):
        return
    want = vincenty(c['reco_ra'], c['reco_dec'], c['true_ra'], c['true_dec'])
    got = vincenty(ra, dec, c['src_ra'], c['src_dec'])
    tol = 64 * EPS * rses_cond(c, dec) + 16 * EPS * (abs(c['src_ra']) + abs(c['true_ra']) + abs(c['reco_ra']))
    if abs(got - want) > tol:
        ctx.violation(site, 'separation-not-preserved', f'sep(rot(reco),src)={got!r} sep(reco,true)={want!r} tol={tol:.3g}',
                      case=c, impl=[ra, dec], model=want, predicate='sep(rotated reco, source) == sep(reco, true)')


def run_a2r(ctx, cases, lines, checks):
    from skyllh.i3.utils.coords import azi_to_ra_transform, ra_to_azi_transform, hor_to_equ_transform
    azi, zen, mjd = arr(cases, 'azi'), arr(cases, 'zen'), arr(cases, 'mjd')
    with np.errstate(all='ignore'):
        ra = azi_to_ra_transform(azi, mjd)
        back = ra_to_azi_transform(ra, mjd)
        r2a = ra_to_azi_transform(azi, mjd)
        (hra, hdec) = hor_to_equ_transform(azi, zen, mjd)
    for i, c in enumerate(cases):
        c['impl'] = [float(ra[i]), float(r2a[i]), float(hra[i]), float(hdec[i])]
        lines.append(hexline('a2r', c['azi'], c['mjd']))
        lines.append(hexline('r2a', c['azi'], c['mjd']))
        lines.append(hexline('h2e', c['azi'], c['zen'], c['mjd']))
        checks.append(c)
        if not finite(c['azi'], c['zen'], c['mjd']):
            continue
        v, b = float(ra[i]), float(back[i])
        if not (0.0 <= v < TWOPI):
            ctx.violation('azi_to_ra_transform', 'ra-out-of-range', f'ra={v!r}', case=c, impl=v, predicate='0 <= ra < 2pi')
        if not (0.0 <= float(r2a[i]) < TWOPI):
            ctx.violation('ra_to_azi_transform', 'azi-out-of-range', f'azi={float(r2a[i])!r}', case=c, impl=float(r2a[i]),
                          predicate='0 <= azi < 2pi')
        if circ(b, c['azi']) > 64 * EPS * TWOPI:
            ctx.violation('ra_to_azi_transform', 'not-inverse-of-azi_to_ra', f'azi={c["azi"]!r} -> ra={v!r} -> azi={b!r}',
                          case=c, impl=[v, b], predicate='ra_to_azi(azi_to_ra(azi, t), t) == azi (mod 2pi)')
        if not (0.0 <= float(hra[i]) < TWOPI):
            ctx.violation('hor_to_equ_transform', 'ra-out-of-range', f'ra={float(hra[i])!r}', case=c, impl=float(hra[i]),
                          predicate='0 <= ra < 2pi')
        hd = float(hdec[i])
        if 0.0 <= c['zen'] <= PI and not (-HALFPI <= hd <= HALFPI):
            # the known finding is exactly `dec = pi - zen` (one IEEE subtraction, pinned by the unit test); any other
            # out-of-range declination is a different defect and is NOT covered by the known-finding signature
            if hd == PI - c['zen'] and 0.0 <= hd <= PI:
                ctx.violation('hor_to_equ_transform', 'dec-out-of-canonical-range',
                              f'zen={c["zen"]!r} -> dec={hd!r}', case=c, impl=hd, predicate='-pi/2 <= dec <= pi/2')
            else:
                ctx.violation('hor_to_equ_transform', 'dec-out-of-range-and-not-pi-minus-zen',
                              f'zen={c["zen"]!r} -> dec={hd!r}', case=c, impl=hd, predicate='-pi/2 <= dec <= pi/2')


def run_p2d(ctx, cases, lines, checks):
    from skyllh.analyses.i3.publicdata_ps.utils import psi_to_dec_and_ra
    # the function takes one source per call: group by source
    groups = {}
    for c in cases:
        groups.setdefault((c['src_dec'], c['src_ra']) if finite(c['src_dec'], c['src_ra']) else ('nan', id(c)), []).append(c)
    for key, grp in groups.items():
        rss = StubRSS([c['t'] for c in grp])
        try:
            with np.errstate(all='ignore'):
                (dec, ra) = psi_to_dec_and_ra(rss, grp[0]['src_dec'], grp[0]['src_ra'], arr(grp, 'psi'))
            assert np.shape(dec) == np.shape(ra) == (len(grp),), (np.shape(dec), np.shape(ra))
        except Exception as ex:
            if all(finite(c['src_dec'], c['src_ra'], c['psi'], c['t']) for c in grp):
                ctx.violation('psi_to_dec_and_ra', 'raises-' + type(ex).__name__, str(ex)[:200], case=grp[0],
                              predicate='returns one (dec, ra) per psi value')
            continue
        (lo, hi, _) = rss.random.calls[0]
        if rss.random.calls[0][2] not in (len(grp), (len(grp),)):
            ctx.violation('psi_to_dec_and_ra', 'uniform-size', f'uniform called with size={rss.random.calls[0][2]!r} for {len(grp)} psi values',
                          case=grp[0], predicate='one draw per psi value')
            continue
        if (lo, hi) != (0.0, TWOPI) or len(rss.random.calls) != 1:
            ctx.violation('psi_to_dec_and_ra', 'uniform-bounds', f'uniform called with {rss.random.calls}', case=grp[0],
                          impl=[lo, hi], predicate='t ~ U[0, 2pi)')
        for i, c in enumerate(grp):
            c['impl'] = [float(dec[i]), float(ra[i])]
            lines.append(hexline('p2d', c['src_dec'], c['src_ra'], c['psi'], c['t']))
            checks.append(c)
            pred_p2d(ctx, c, float(dec[i]), float(ra[i]))


def pred_p2d(ctx, c, dec, ra):
    if not finite(c['src_dec'], c['src_ra'], c['psi'], c['t']):
        return
    site = 'psi_to_dec_and_ra'
    if not (0.0 <= ra < TWOPI):
        ctx.violation(site, 'ra-out-of-range', f'ra={ra!r}', case=c, impl=[dec, ra], predicate='0 <= ra < 2pi')
    if not (-HALFPI <= dec <= HALFPI):
        ctx.violation(site, 'dec-out-of-range', f'dec={dec!r}', case=c, impl=[dec, ra], predicate='-pi/2 <= dec <= pi/2')
    if not finite(dec, ra) or not (0.0 <= c['psi'] <= PI) or abs(c['src_dec']) > HALFPI:
        return
    got = vincenty(ra, dec, c['src_ra'], c['src_dec'])
    tol = 64 * EPS / max(math.cos(dec), 3e-8) + 64 * EPS * (1 + abs(c['src_ra']))
    if abs(got - c['psi']) > tol:
        ctx.violation(site, 'not-at-separation-psi', f'sep={got!r} psi={c["psi"]!r} tol={tol:.3g}', case=c, impl=[dec, ra],
                      model=c['psi'], predicate='sep((ra,dec), source) == psi')


# ---------------------------------------------------------------------- comparison with the model

def acos_bracket(z, dz):
    lo = math.acos(min(1.0, max(-1.0, z + dz)))
    hi = math.acos(min(1.0, max(-1.0, z - dz)))
    return lo, hi


def compare(ctx, checks, outs):
    it = iter(outs)
    for c in checks:
        ctx.corr_cases += 1
        f = c['f']
        if f in ('sep', 'tdm'):
            vals = parse(next(it))
            m = vals[0]
            imp = c['impl']
            if f == 'sep':
                x = vals[1]
                args = (c['ra1'], c['dec1'], c['ra2'], c['dec2'])
            else:
                args = (c['ra'], c['dec'], c['src_ra'], c['src_dec'])
                x = None
            if not finite(*args):
                ok = same(imp, m, 0.0) or (c.get('floor') is not None)   # np.where(nan < f) keeps nan, so does the model
                if not ok:
                    ctx.disagree('coords.' + f, c, imp, m, 'non-finite input handled differently')
                continue
            # conditioning of 2 asin sqrt x around the model's haversine value
            xm = x if x is not None else math.sin(m / 2.0) ** 2
            # measured: implementation and float model agree to the last bit on 40000 near-antipodal pairs and to
            # <= 2 ulp of the haversine value elsewhere; 6 eps relative (12 ulp at x ~ 1 are NOT allowed: 3 eps absolute)
            dx = 6 * EPS * xm if xm < 0.25 else 3 * EPS
            lo = 2.0 * math.asin(math.sqrt(min(1.0, max(0.0, xm - dx))))
            hi = 2.0 * math.asin(math.sqrt(min(1.0, max(0.0, xm + dx))))
            fl = c.get('floor')
            if fl is not None:
                lo, hi = max(lo, fl), max(hi, fl)
            slack = 8 * EPS * max(1.0, hi)
            big = 16 * EPS * (abs(args[0]) + abs(args[2]))       # sin/cos of large arguments: libm vs numpy argument reduction
            if not (lo - slack - big <= imp <= hi + slack + big) or not same(m, m, 0):
                ctx.disagree('coords.' + f, c, imp, m, f'impl outside [{lo!r}, {hi!r}] around the model value')
        elif f == 'spdfpd':
            m = parse(next(it))[0]
            imp = c['impl']
            if not (finite(imp, m) and finite(c['sigma']) and c['sigma'] != 0):
                if not same(imp, m, 0.0):
                    ctx.disagree('coords.signalpdf_pd', c, imp, m, 'non-finite value / malformed sigma handled differently')
                continue
            psi = vincenty(c['src_ra'], c['src_dec'], c['ra'], c['dec'])
            rel = 1e-12 + psi / c['sigma'] ** 2 * sep_tol(c['src_ra'], c['src_dec'], c['ra'], c['dec'], psi)
            if abs(imp - m) > rel * abs(m):
                ctx.disagree('coords.signalpdf_pd', c, imp, m, f'pd differs by {abs(imp - m):.3g} (rel tol {rel:.3g})')
        elif f == 'rot':
            m = parse(next(it))
            imp = c['impl']
            ins = (c['ra1'], c['dec1'], c['ra2'], c['dec2'], c['ra3'], c['dec3'])
            if not finite(*ins):
                if not (same(imp[0], m[0], 0.0) and same(imp[1], m[1], 0.0)):
                    ctx.disagree('coords.rot', c, imp, m, 'non-finite input handled differently')
                continue
            cond = c.get('cond', 1.0)
            if not finite(*m) or not finite(*imp):
                if finite(*m) != finite(*imp):
                    ctx.disagree('coords.rot', c, imp, m, 'finite / non-finite result differs')
                continue
            if cond > 1e7:
                ang12 = c.get('ang12', PI)
                if ang12 > PI - 2e-7:
                    ctx.count('corr:rot-antipodal-zone')      # different libm -> different noise axis; see pred_rot
                elif vincenty(imp[0], imp[1], m[0], m[1]) > (4 * math.sqrt(ang12 ** 2 + 16 * EPS)
                                                             + 128 * EPS / max(math.cos(m[1]), 3e-8) + 1e-14):
                    ctx.disagree('coords.rot', c, imp, m, 'directions differ in the near-identity zone')
                continue
            # compare as directions: dec through asin (ill-conditioned at the poles), ra through atan2
            d = vincenty(imp[0], imp[1], m[0], m[1])
            tol = 128 * EPS * cond + 128 * EPS / max(math.cos(m[1]), 3e-8) + 64 * EPS * sum(abs(v) for v in ins)
            if d > tol:
                ctx.disagree('coords.rot', c, imp, m, f'directions differ by {d:.3g} > {tol:.3g}')
        elif f in ('rses', 'rsesps'):
            m = parse(next(it))
            imp = c['impl']
            keys = ('src_ra', 'src_dec', 'true_ra', 'true_dec', 'reco_ra', 'reco_dec')
            if not finite(*(c[k] for k in keys)) or not finite(*m) or not finite(*imp):
                if finite(*m) != finite(*imp):
                    if finite(*(c[k] for k in keys)) and abs(rses_expected_z(c)) >= 1.0 - 1e-12:
                        ctx.count('corr:rses-nan-at-pole')      # arcsin of 1 +- ulp: NaN or pi/2 depending on the last bit
                    else:
                        ctx.disagree('coords.' + ('post-sampling' if f == 'rsesps' else 'rses'), c, imp, m, 'finite / non-finite result differs')
                continue
            # (i) separation from the source and (ii) declination: tight, independent of the source declination;
            # (iii) full direction: the longitude change about a source next to a pole is computed by arctan2 of two
            # numbers of size cos(src_dec) cos(dec_out) with absolute errors of an ulp (xcos_A = cos_a - cos_b cos_c
            # cancels; regular branch only), i.e. the azimuth about the source - and only it - carries eps / cos(src_dec)
            # (found by the thorough tier: cos(src_dec) = 1e-5 -> 3.9e-12 rad = 0.2 eps / cos(src_dec))
            cond = rses_cond(c, m[1])
            big = 16 * EPS * sum(abs(c[k]) for k in keys)
            cs = math.cos(c['src_dec'])
            amp = 1.0 / cs if cs >= 1e-12 else 1.0
            d = vincenty(imp[0], imp[1], m[0], m[1])
            dsep = abs(vincenty(imp[0], imp[1], c['src_ra'], c['src_dec']) - vincenty(m[0], m[1], c['src_ra'], c['src_dec']))
            if dsep > 64 * EPS * cond + big:
                ctx.disagree('coords.' + ('post-sampling' if f == 'rsesps' else 'rses'), c, imp, m, f'separations from the source differ by {dsep:.3g}')
            elif abs(imp[1] - m[1]) > 32 * EPS * cond + big:
                ctx.disagree('coords.' + ('post-sampling' if f == 'rsesps' else 'rses'), c, imp, m, f'declinations differ by {abs(imp[1] - m[1]):.3g}')
            elif d > 32 * EPS * cond + big + 8 * EPS * amp:
                ctx.disagree('coords.' + ('post-sampling' if f == 'rsesps' else 'rses'), c, imp, m, f'directions differ by {d:.3g}')
        elif f == 'a2r':
            m1 = parse(next(it))
            m2 = parse(next(it))
            m3 = parse(next(it))
            imp = c['impl']
            mod = [m1[0], m2[0], m3[0], m3[1]]
            # only + - * / fmod are involved: correctly rounded, identical in numpy and OCaml
            if not all(same(a, b, 0.0) for a, b in zip(imp, mod)):
                ctx.disagree('coords.a2r', c, imp, mod, 'azi_to_ra / ra_to_azi / hor_to_equ differ from the model')
        elif f == 'p2d':
            m = parse(next(it))
            imp = c['impl']
            ins = (c['src_dec'], c['src_ra'], c['psi'], c['t'])
            if not finite(*ins):
                if not (same(imp[0], m[0], 0.0) and same(imp[1], m[1], 0.0)):
                    ctx.disagree('coords.p2d', c, imp, m, 'non-finite input handled differently')
                continue
            (mdec, mra, x, y, z) = m
            if not finite(*m) or not finite(*imp):
                if not (same(imp[0], mdec, 0.0) or finite(imp[0], mdec)) or not (same(imp[1], mra, 0.0) or finite(imp[1], mra)):
                    ctx.disagree('coords.p2d', c, imp, m, 'finite / non-finite result differs')
                ctx.count('corr:p2d-non-finite')
                continue
            big = 1 + abs(c['src_ra']) + abs(c['t']) + abs(c['psi']) + abs(c['src_dec'])
            dz = 16 * EPS * big
            lo, hi = acos_bracket(z, dz)
            if not (HALFPI - hi - 8 * EPS <= imp[0] <= HALFPI - lo + 8 * EPS):
                ctx.disagree('coords.p2d', c, imp, m, f'dec outside [{HALFPI - hi!r}, {HALFPI - lo!r}]')
            rho = math.hypot(x, y)
            tol_ra = 64 * EPS * big / rho if rho > 0 else float('inf')
            if tol_ra < 1.0:
                if circ(imp[1], mra) > tol_ra + 16 * EPS:
                    ctx.disagree('coords.p2d', c, imp, m, f'ra differs by {circ(imp[1], mra):.3g} > {tol_ra:.3g}')
            else:
                ctx.count('corr:p2d-ra-ill-conditioned')
        else:
            raise ValueError(f)


# ---------------------------------------------------------------------- history probes (tools/HARDENING.md)
# The functions are pure: every result must be a function of the current arguments only.  These probes run
# the REAL functions in sequences (repeat, interleave, same ndarray object re-used / updated in place, results
# kept and scribbled on by the caller, factories built before first use and evaluated alternately, scalar /
# batch / broadcast call shapes) and compare with the first-pass result, which itself is checked against an
# oracle.  Inputs are well conditioned on purpose (state, not rounding, is probed here).

def _bits(r):
    return tuple((np.asarray(v).shape, np.asarray(v).dtype.str, np.asarray(v).tobytes()) for v in r)


def _snap(args):
    return tuple((a.shape, a.dtype.str, a.tobytes()) if isinstance(a, np.ndarray) else a for a in args)


def _copy(args):
    return tuple(a.copy() if isinstance(a, np.ndarray) else a for a in args)


def _lst_py(azi, mjd):
    """azi_to_ra_transform written with Python floats (only + - * / %: exact IEEE, no libm)"""
    res = (mjd / 0.997269566) % 1
    ra = 2.54199002505 + 2 * math.pi * res - azi
    return (ra % TWOPI) % TWOPI


def _dir_close(ra_a, dec_a, ra_b, dec_b, tol=1e-6):
    return all(vincenty(float(x), float(y), float(u), float(v)) <= tol
               for x, y, u, v in zip(np.atleast_1d(ra_a), np.atleast_1d(dec_a), np.atleast_1d(ra_b), np.atleast_1d(dec_b)))


def _hist_funcs():
    from skyllh.core.utils.coords import angular_separation, rotate_spherical_vector, rotate_signal_events_on_sphere
    from skyllh.i3.utils.coords import azi_to_ra_transform, ra_to_azi_transform, hor_to_equ_transform
    from skyllh.analyses.i3.publicdata_ps.utils import psi_to_dec_and_ra

    def f_rses(*a):
        (ra, dec) = rotate_signal_events_on_sphere(*a)
        return (ra, dec)

    def o_rses(a, r):
        for i in range(len(a[0])):
            (ra, dec) = (float(r[0][i]), float(r[1][i]))
            if not (0.0 <= ra < TWOPI and -HALFPI <= dec <= HALFPI):
                return f'element {i}: ({ra!r}, {dec!r}) out of range'
            got = vincenty(ra, dec, a[0][i], a[1][i])
            want = vincenty(a[4][i], a[5][i], a[2][i], a[3][i])
            if not abs(got - want) <= 1e-9:
                return f'element {i}: separation from the source {got!r} != separation reco-true {want!r}'

    def f_sep(ra1, d1, ra2, d2, fl):
        return (angular_separation(ra1, d1, ra2, d2, psi_floor=fl),)

    def f_rot(*a):
        return tuple(rotate_spherical_vector(*a))

    def f_a2r(azi, mjd):
        return (azi_to_ra_transform(azi, mjd),)

    def f_r2a(ra, mjd):
        return (ra_to_azi_transform(ra, mjd),)

    def f_h2e(azi, zen, mjd):
        return tuple(hor_to_equ_transform(azi, zen, mjd))

    def f_p2d(src_dec, src_ra, psi, t):
        return tuple(psi_to_dec_and_ra(StubRSS(list(np.atleast_1d(t))), src_dec, src_ra, psi))

    def o_sep(a, r):
        (ra1, d1, ra2, d2, fl) = a
        for i in range(len(ra1)):
            w = vincenty(ra1[i], d1[i], ra2[i], d2[i])
            ref = w if fl is None else max(w, fl)
            if not abs(float(r[0][i]) - ref) <= sep_tol(ra1[i], d1[i], ra2[i], d2[i], w):
                return f'element {i}: {float(r[0][i])!r} is not the angle {ref!r}'

    def o_rot(a, r):
        for i in range(len(a[0])):
            (ra, dec) = (float(r[0][i]), float(r[1][i]))
            if not (0.0 <= ra < TWOPI and -HALFPI <= dec <= HALFPI):
                return f'element {i}: ({ra!r}, {dec!r}) out of range'
            got = vincenty(ra, dec, a[2][i], a[3][i])
            want = vincenty(a[4][i], a[5][i], a[0][i], a[1][i])
            if not abs(got - want) <= 1e-9:
                return f'element {i}: separation {got!r} != {want!r}'

    def o_a2r(a, r):
        for i in range(len(a[0])):
            if float(r[0][i]) != _lst_py(float(a[0][i]), float(a[1][i])):
                return f'element {i}: {float(r[0][i])!r} != {_lst_py(float(a[0][i]), float(a[1][i]))!r}'

    def o_h2e(a, r):
        for i in range(len(a[0])):
            if float(r[0][i]) != _lst_py(float(a[0][i]), float(a[2][i])) or float(r[1][i]) != PI - float(a[1][i]):
                return f'element {i}: ({float(r[0][i])!r}, {float(r[1][i])!r})'

    def o_p2d(a, r):
        (sd, sr, psi, t) = a
        for i in range(len(psi)):
            (dec, ra) = (float(r[0][i]), float(r[1][i]))
            if not (0.0 <= ra < TWOPI and -HALFPI <= dec <= HALFPI):
                return f'element {i}: ({dec!r}, {ra!r}) out of range'
            if not abs(vincenty(ra, dec, sr, sd) - psi[i]) <= 1e-7:
                return f'element {i}: separation {vincenty(ra, dec, sr, sd)!r} != psi {psi[i]!r}'

    return {
        'angular_separation': (f_sep, o_sep, 'scalar'),
        'rotate_spherical_vector': (f_rot, o_rot, 'dirs'),
        'rotate_signal_events_on_sphere': (f_rses, o_rses, 'dirs'),
        'azi_to_ra_transform': (f_a2r, o_a2r, 'ra'),
        'ra_to_azi_transform': (f_r2a, o_a2r, 'ra'),
        'hor_to_equ_transform': (f_h2e, o_h2e, 'radec'),
        'psi_to_dec_and_ra': (f_p2d, o_p2d, 'decra'),
    }


def _hist_args(site, rng, n, base=None, edge=False):
    """well-conditioned arguments of length n; with `base`, a variant sharing base's first and last element;
    with `edge`, boundary values of the domains (candidates for in-place "sanitising" of the caller's arrays)"""
    def u(lo, hi):
        return np.array([rng.uniform(lo, hi) for _ in range(n)])
    if site == 'angular_separation':
        ra1, d1 = u(-1.0, 7.0), u(-1.2, 1.2)
        ra2, d2 = ra1 + u(0.3, 2.0), np.clip(d1 + u(-0.3, 0.3), -1.4, 1.4)
        a = [ra1, d1, ra2, d2, rng.choice([None, None, 0.7, 1.5])]
    elif site == 'rotate_spherical_vector':
        ra1, d1 = u(0.0, TWOPI), u(-1.0, 1.0)
        ra2, d2 = ra1 + u(0.4, 1.5), np.clip(d1 + u(-0.3, 0.3), -1.2, 1.2)
        a = [ra1, d1, ra2, d2, u(-0.5, TWOPI), u(-1.2, 1.2)]
    elif site == 'rotate_signal_events_on_sphere':
        sra, sdec = u(0.0, TWOPI), u(-1.2, 1.2)
        tra, tdec = u(0.0, TWOPI), u(-1.2, 1.2)
        a = [sra, sdec, tra, tdec, tra + u(-0.2, 0.2), np.clip(tdec + u(-0.2, 0.2), -1.4, 1.4)]
    elif site in ('azi_to_ra_transform', 'ra_to_azi_transform'):
        a = [u(0.0, TWOPI), u(40000.0, 75000.0)]
        if n > 1:
            a[0][1] = math.nextafter(lst(float(a[1][1])) % TWOPI, 7.0) % TWOPI    # the wrap-around neighbour
    elif site == 'hor_to_equ_transform':
        a = [u(0.0, TWOPI), u(0.0, PI), u(40000.0, 75000.0)]
    elif site == 'psi_to_dec_and_ra':
        a = [rng.uniform(-1.0, 1.0), rng.uniform(0.0, TWOPI), u(0.05, 3.0), u(0.0, TWOPI)]
    else:
        raise ValueError(site)
    if edge and n >= 6:
        if site == 'angular_separation':
            a[0][:4] = [-0.5, TWOPI + 0.25, 0.0, 1.0]
            a[1][:4] = [HALFPI, -HALFPI, 0.0, 0.3]
            a[2][:4] = [7.0, -1.0, TWOPI, 1.0]
            a[3][:4] = [-0.2, 0.4, -HALFPI, 0.3]
        elif site == 'rotate_spherical_vector':
            a[4][:4] = [-0.5, TWOPI + 0.25, 0.0, TWOPI]
            a[5][:4] = [HALFPI, -HALFPI, 0.0, 1.0]
            a[0][4], a[2][5] = a[0][4] + TWOPI, a[2][5] - TWOPI
        elif site == 'rotate_signal_events_on_sphere':
            # every true direction within np.allclose of its source (whole-batch shortcuts), RA outside [0, 2pi)
            a[2][:] = a[0] * (1 + 4e-6)
            a[3][:] = a[1] * (1 - 3e-6)
            a[4][:] = a[2] + 1e-3
            a[5][:] = np.clip(a[3] - 2e-3, -1.4, 1.4)
            a[0][0], a[4][1] = a[0][0] + TWOPI, a[4][1] - TWOPI
        elif site in ('azi_to_ra_transform', 'ra_to_azi_transform'):
            a[0][:3] = [0.0, math.nextafter(TWOPI, 0.0), PI]
            a[1][:3] = [58457.0, 40000.0, 75000.0]
        elif site == 'hor_to_equ_transform':
            a[0][:2] = [0.0, math.nextafter(TWOPI, 0.0)]
            a[1][:4] = [0.0, PI, HALFPI, 0.5]
            a[2][:2] = [58457.0, 60000.0]
        elif site == 'psi_to_dec_and_ra':
            a[2][:4] = [0.0, PI, 1e-13, PI - 1e-9]
            a[3][:3] = [0.0, math.nextafter(TWOPI, 0.0), PI]
    if base is not None:
        for x, b in zip(a, base):
            if isinstance(x, np.ndarray) and x.shape == b.shape:
                x[0], x[-1] = b[0], b[-1]
        if site == 'psi_to_dec_and_ra':
            a[0], a[1] = base[0], base[1]
        if site == 'angular_separation':
            a[4] = base[4]
    return tuple(a)


def _close(kind, r, q, tol=1e-9):
    if kind == 'scalar':
        return np.allclose(np.asarray(r[0], dtype=float), np.asarray(q[0], dtype=float), rtol=0, atol=tol)
    if kind == 'ra':
        return all(circ(float(x), float(y)) <= tol for x, y in zip(np.atleast_1d(r[0]), np.atleast_1d(q[0])))
    if kind == 'radec':
        return (all(circ(float(x), float(y)) <= tol for x, y in zip(np.atleast_1d(r[0]), np.atleast_1d(q[0])))
                and np.allclose(np.asarray(r[1], dtype=float), np.asarray(q[1], dtype=float), rtol=0, atol=tol))
    if kind == 'dirs':
        return _dir_close(r[0], r[1], q[0], q[1])
    if kind == 'decra':
        return _dir_close(r[1], r[0], q[1], q[0])
    raise ValueError(kind)


def probe_pure(ctx, site, fn, oracle, kind, rng, hseed):
    case = {'f': 'history', 'seed': hseed, 'site': site}

    def bad(k, detail, **kw):
        ctx.violation(site, k, detail, case=dict(case, probe=k), predicate='the result is a function of the current arguments only', **kw)

    base = _hist_args(site, rng, 6)
    arglist = [base, _hist_args(site, rng, 6), _hist_args(site, rng, 6, base=base), _hist_args(site, rng, 1),
               _hist_args(site, rng, 33), _hist_args(site, rng, 6, edge=True), _hist_args(site, rng, 2)]
    ref, kept = [], []
    with np.errstate(all='ignore'):
        # A: first pass; arguments are inputs; repeat with the SAME ndarray objects; ownership of the results
        for i, args in enumerate(arglist):
            ctx.count('history:calls', 2)
            w = _copy(args)
            before = _snap(w)
            r1 = fn(*w)
            if _snap(w) != before:
                bad('argument-modified', f'call {i}: an ndarray argument was changed by the call')
                w = _copy(args)
            for v in r1:
                if any(isinstance(a, np.ndarray) and isinstance(v, np.ndarray) and np.shares_memory(v, a) for a in w):
                    bad('result-aliases-argument', f'call {i}: a returned array shares memory with an argument')
            b1 = _bits(r1)
            err = oracle(args, r1)
            if err:
                bad('wrong-result-in-sequence', f'call {i}: {err}')
            r2 = fn(*w)
            if _bits(r2) != b1:
                bad('repeat-differs', f'call {i}: the same call twice in a row gives different results')
            if _snap(w) != before:
                bad('argument-modified', f'call {i}: an ndarray argument was changed by the repeated call')
            if any(isinstance(x, np.ndarray) and isinstance(y, np.ndarray) and np.shares_memory(x, y) for x in r1 for y in r2):
                bad('results-share-memory', f'call {i}: results of two calls share memory')
            ref.append(b1)
            kept.append(r1)
        # B: results handed out earlier are unchanged by the later calls
        for i, r in enumerate(kept):
            if _bits(r) != ref[i]:
                bad('result-changed-by-later-call', f'result of call {i} changed after later calls')
        # C: the caller owns the results: scribble on them, then interleave (other arguments, other lengths)
        for r in kept:
            for v in r:
                if isinstance(v, np.ndarray) and v.flags.writeable:
                    v[...] = 12345.0
        order = list(range(len(arglist))) * 2
        rng.shuffle(order)
        for i in order + [0, 0]:
            ctx.count('history:calls')
            if _bits(fn(*_copy(arglist[i]))) != ref[i]:
                bad('history-dependent-result', f'call {i} repeated after other calls / after the caller modified earlier results differs')
        # D: the same ndarray objects, contents updated in place by the caller (same shape)
        w = _copy(arglist[0])
        fn(*w)
        for j in (1, 2, 5, 0):
            for x, y in zip(w, arglist[j]):
                if isinstance(x, np.ndarray):
                    x[...] = y
            wj = tuple(x if isinstance(x, np.ndarray) else y for x, y in zip(w, arglist[j]))
            ctx.count('history:calls')
            if _bits(fn(*wj)) != ref[j]:
                bad('stale-after-inplace-update-of-argument', f'arguments of call {j} written into the arrays of the previous call: result differs')
        # E: batch = element by element (no cross-talk between events, nothing hoisted out of the loop)
        for i in (0, 2):
            args = arglist[i]
            rb = fn(*_copy(args))
            n = max(len(a) for a in args if isinstance(a, np.ndarray))
            for k in range(n):
                one = tuple(a[k:k + 1].copy() if isinstance(a, np.ndarray) else a for a in args)
                ctx.count('history:calls')
                rs = fn(*one)
                if not _close(kind, tuple(np.asarray(v)[k:k + 1] for v in rb), rs):
                    bad('batch-differs-from-single-calls', f'call {i} element {k}: batch result differs from the one-element call')


def probe_shapes(ctx, rng, hseed):
    """scalar / broadcast call shapes against the 1-d array call"""
    from skyllh.core.utils.coords import angular_separation, rotate_spherical_vector
    from skyllh.i3.utils.coords import azi_to_ra_transform, ra_to_azi_transform, hor_to_equ_transform
    from skyllh.analyses.i3.publicdata_ps.utils import psi_to_dec_and_ra

    def bad(site, k, detail):
        ctx.violation(site, k, detail, case={'f': 'history', 'seed': hseed, 'site': site, 'probe': k},
                      predicate='the result does not depend on the call shape')

    with np.errstate(all='ignore'):
        # N events x K sources by broadcasting, and a float source against an event array
        (n, k) = (7, 3)
        era, edec = np.array([rng.uniform(0, TWOPI) for _ in range(n)]), np.array([rng.uniform(-1.2, 1.2) for _ in range(n)])
        sra, sdec = np.array([rng.uniform(0, TWOPI) for _ in range(k)]), np.array([rng.uniform(-1.2, 1.2) for _ in range(k)])
        snaps = _snap((era, edec, sra, sdec))
        for fl in (None, 1.0):
            grid = angular_separation(era[:, None], edec[:, None], sra[None, :], sdec[None, :], psi_floor=fl)
            if grid.shape != (n, k):
                bad('angular_separation', 'broadcast-differs', f'(N,1)x(1,K) gives shape {grid.shape}')
                continue
            for j in range(k):
                col = angular_separation(era, edec, np.full(n, sra[j]), np.full(n, sdec[j]), psi_floor=fl)
                flt = angular_separation(era, edec, float(sra[j]), float(sdec[j]), psi_floor=fl)
                rev = angular_separation(float(sra[j]), float(sdec[j]), era, edec, psi_floor=fl)
                ctx.count('history:calls', 3)
                if not (np.allclose(grid[:, j], col, rtol=0, atol=1e-9) and np.allclose(flt, col, rtol=0, atol=1e-9)
                        and np.allclose(rev, col, rtol=0, atol=1e-9)):
                    bad('angular_separation', 'broadcast-differs', f'source {j}: broadcast / float-source call differs from the 1-d call')
        if _snap((era, edec, sra, sdec)) != snaps:
            bad('angular_separation', 'argument-modified', 'a broadcast argument was changed')
        # scalars and scalar time with an azimuth array
        azi = np.array([rng.uniform(0, TWOPI) for _ in range(5)])
        mjd = np.array([rng.uniform(40000, 75000) for _ in range(5)])
        azi[1] = math.nextafter(lst(float(mjd[1])) % TWOPI, 7.0) % TWOPI
        zen = np.array([rng.uniform(0, PI) for _ in range(5)])
        ra = azi_to_ra_transform(azi, mjd)
        (hra, hdec) = hor_to_equ_transform(azi, zen, mjd)
        for i in range(5):
            ctx.count('history:calls', 4)
            s1 = azi_to_ra_transform(float(azi[i]), float(mjd[i]))
            s2 = ra_to_azi_transform(float(azi[i]), float(mjd[i]))
            (s3, s4) = hor_to_equ_transform(float(azi[i]), float(zen[i]), float(mjd[i]))
            s5 = azi_to_ra_transform(azi, float(mjd[i]))[i]
            for (site, v) in (('azi_to_ra_transform', s1), ('ra_to_azi_transform', s2), ('hor_to_equ_transform', s3),
                              ('azi_to_ra_transform', s5)):
                if not (0.0 <= float(v) < TWOPI and float(v) == float(ra[i])):
                    bad(site, 'scalar-differs-from-array', f'azi={float(azi[i])!r} mjd={float(mjd[i])!r}: {float(v)!r} vs {float(ra[i])!r}')
            if float(s4) != float(hdec[i]) or float(hra[i]) != float(ra[i]):
                bad('hor_to_equ_transform', 'scalar-differs-from-array', f'dec {float(s4)!r} vs {float(hdec[i])!r}')
        # rotate_spherical_vector / psi_to_dec_and_ra with Python floats
        a = _hist_args('rotate_spherical_vector', rng, 4)
        (rra, rdec) = rotate_spherical_vector(*_copy(a))
        for i in range(4):
            ctx.count('history:calls')
            (x, y) = rotate_spherical_vector(*(float(v[i]) for v in a))
            if not (np.shape(x) == (1,) and _dir_close(x, y, rra[i:i + 1], rdec[i:i + 1])):
                bad('rotate_spherical_vector', 'scalar-differs-from-array', f'element {i}')
        (sd, sr, psi, t) = _hist_args('psi_to_dec_and_ra', rng, 4)
        (dec, pra) = psi_to_dec_and_ra(StubRSS(list(t)), sd, sr, psi.copy())
        for i in range(4):
            ctx.count('history:calls')
            (d1, r1) = psi_to_dec_and_ra(StubRSS([float(t[i])]), np.float64(sd), np.float64(sr), float(psi[i]))
            if not (np.shape(d1) == (1,) and _dir_close(r1, d1, pra[i:i + 1], dec[i:i + 1])):
                bad('psi_to_dec_and_ra', 'scalar-differs-from-array', f'element {i}')


def probe_tdm(ctx, rng, hseed):
    """factories built BEFORE first use and evaluated alternately on two TDMs; N events x K sources"""
    from skyllh.core.utils.tdm import get_tdm_field_func_psi
    from skyllh.core.utils.coords import angular_separation
    site = 'get_tdm_field_func_psi'

    def bad(k, detail):
        ctx.violation(site, k, detail, case={'f': 'history', 'seed': hseed, 'site': site, 'probe': k},
                      predicate='each psi field function uses the psi_floor it was created with and only its arguments')

    def mk(n, k):
        evt = [(rng.uniform(0, TWOPI), rng.uniform(-1.2, 1.2)) for _ in range(n)]
        src = [(rng.uniform(0, TWOPI), rng.uniform(-1.2, 1.2)) for _ in range(k)]
        pairs = [(s, e_) for s in range(k) for e_ in range(n)]
        return StubTDM([e_[0] for e_ in evt], [e_[1] for e_ in evt], [s[0] for s in src], [s[1] for s in src],
                       [p[0] for p in pairs], [p[1] for p in pairs]), evt, src, pairs

    floors = [0.5, None, 2.0, 0.01]
    funcs = [get_tdm_field_func_psi(psi_floor=f) for f in floors]          # all built before the first evaluation
    tdms = [mk(6, 3), mk(4, 2)]

    def snap_tdm(t):
        return (t._d['ra'].tobytes(), t._d['dec'].tobytes(), t._d['src_array'].tobytes(),
                t.src_evt_idxs[0].tobytes(), t.src_evt_idxs[1].tobytes())
    snaps = [snap_tdm(t[0]) for t in tdms]
    first = {}
    kept = []
    with np.errstate(all='ignore'):
        for step, fi in enumerate([0, 1, 2, 3, 0, 2, 1, 0, 3, 0]):
            for ti, (tdm, evt, src, pairs) in enumerate(tdms):
                ctx.count('history:calls')
                psi = funcs[fi](tdm, None, None)
                fl = floors[fi]
                for (s, e_), v in zip(pairs, psi):
                    w = vincenty(src[s][0], src[s][1], evt[e_][0], evt[e_][1])
                    ref = w if fl is None else max(w, fl)
                    if not abs(float(v) - ref) <= sep_tol(src[s][0], src[s][1], evt[e_][0], evt[e_][1], w):
                        bad('closure-state-shared-between-factory-calls',
                            f'step {step}: field function created with psi_floor={fl!r} returned {float(v)!r}, expected {ref!r}')
                        break
                direct = angular_separation(np.array([evt[e_][0] for (s, e_) in pairs]), np.array([evt[e_][1] for (s, e_) in pairs]),
                                            np.array([src[s][0] for (s, e_) in pairs]), np.array([src[s][1] for (s, e_) in pairs]),
                                            psi_floor=fl)
                if _bits((psi,)) != _bits((direct,)):
                    bad('differs-from-direct-call', f'step {step}: psi field differs from angular_separation(evt, src, psi_floor={fl!r})')
                key = (fi, ti)
                if key in first and first[key] != _bits((psi,)):
                    bad('history-dependent-result', f'step {step}: same field function, same TDM, different result')
                first.setdefault(key, _bits((psi,)))
                kept.append((key, psi))
        for (key, psi) in kept:
            if _bits((psi,)) != first[key]:
                bad('result-changed-by-later-call', 'a psi array handed out earlier changed')
        if any(np.shares_memory(kept[i][1], kept[j][1]) for i in range(len(kept)) for j in range(i + 1, len(kept))):
            bad('results-share-memory', 'psi arrays of different evaluations share memory')
        for (key, psi) in kept:
            psi[...] = 12345.0                                              # the caller owns them
        for fi in (0, 1):
            (tdm, evt, src, pairs) = tdms[0]
            if _bits((funcs[fi](tdm, None, None),)) != first[(fi, 0)]:
                bad('history-dependent-result', 'result differs after the caller modified earlier results')
    if [snap_tdm(t[0]) for t in tdms] != snaps:
        bad('argument-modified', 'TDM data (ra / dec / src_array / index arrays) changed by the field function')


def run_history(ctx, hseed):
    import random
    funcs = _hist_funcs()
    for rep in range(2):
        rng = random.Random(hseed * 1000 + rep)
        for site, (fn, oracle, kind) in funcs.items():
            ctx.count('history:' + site)
            probe_pure(ctx, site, fn, oracle, kind, rng, hseed)
        probe_shapes(ctx, rng, hseed)
        probe_tdm(ctx, rng, hseed)
    ctx.case({'f': 'history', 'seed': hseed})


# ---------------------------------------------------------------------- driver

def execute(ctx, cases, rng, tdm_groups):
    lines, checks = [], []
    by = {}
    for c in cases:
        by.setdefault(c['f'], []).append(c)
        ctx.case({k: v for k, v in c.items() if k != 'impl'}, nontrivial=c.get('kind') != 'malformed')
    if by.get('sep'):
        run_sep(ctx, by['sep'], lines, checks)
    if tdm_groups:
        run_tdm(ctx, rng, lines, checks, tdm_groups)
        run_signalpdf(ctx, rng, max(2, tdm_groups // 3), lines, checks)
        run_post_sampling(ctx, rng, lines, checks, max(10, tdm_groups // 3))
    if by.get('rot'):
        run_rot(ctx, by['rot'], lines, checks)
    if by.get('rses'):
        run_rses(ctx, by['rses'], lines, checks)
    if by.get('a2r'):
        run_a2r(ctx, by['a2r'], lines, checks)
    if by.get('p2d'):
        run_p2d(ctx, by['p2d'], lines, checks)
    return lines, checks


def model_side(ctx, lines, checks):
    if not ctx.model_ok:
        ctx.notes.append('model did not build: implementation-only predicates were evaluated')
        return
    exe = common.ocaml_build(ctx, 'c19')
    if exe is None:
        return
    try:
        outs = common.ocaml_run(exe, lines)
        if len(outs) != len(lines):
            raise RuntimeError(f'{len(outs)} model results for {len(lines)} cases')
        compare(ctx, checks, outs)
    except RuntimeError as ex:
        ctx.broken.append({'kind': 'model-eval', 'error': str(ex)[:1500]})


def check_float_witness(ctx):
    """tie of the closed SpecFloat witness (C19_rotation_float_antipodal_refuted) to numpy: the literals of
    M_CoordsSF.v are what numpy computes, and the implementation's result is the witness image"""
    from skyllh.core.utils.coords import rotate_spherical_vector
    site = 'coords.float-witness'
    case = {'f': 'rot', 'kind': 'corpus-antipodal', 'ra1': 1.0, 'dec1': 0.5, 'ra2': 1.0 + PI, 'dec2': -0.5, 'ra3': 1.0, 'dec3': 0.5}
    ra1, d1 = np.array([1.0]), np.array([0.5])
    ra2, d2 = ra1 + np.pi, -d1
    v1 = [float((np.cos(ra1) * np.cos(d1))[0]), float((np.sin(ra1) * np.cos(d1))[0]), float(np.sin(d1)[0])]
    v2 = [float((np.cos(ra2) * np.cos(d2))[0]), float((np.sin(ra2) * np.cos(d2))[0]), float(np.sin(d2)[0])]
    ca = np.cos(ra2 - ra1) * np.cos(d1) * np.cos(d2) + np.sin(d1) * np.sin(d2)
    ca[ca > 1] = 1
    ca[ca < -1] = -1
    sa = float(np.sin(np.arccos(ca))[0])
    lit = {'v1': [(4270852533788227, -53), (3325729363491873, -52), (539785169252447, -50)],
           'v2': [(-4270852533788227, -53), (-6651458726983745, -53), (-539785169252447, -50)],
           'c': [(-1, 0)], 's': [(4967757600021511, -105)]}
    got = {'v1': v1, 'v2': v2, 'c': [float(ca[0])], 's': [sa]}
    for k, pairs in lit.items():
        if [math.ldexp(m, e_) for (m, e_) in pairs] != got[k]:
            ctx.notes.append(f'float witness: numpy computes other input literals for {k} on this platform ({got[k]!r}); '
                             'the closed Coq witness then speaks about neighbouring doubles')
            ctx.count('float-witness:literals-differ')
            return
    if not ctx.model_ok:
        return
    try:
        vals = common.coq_eval('c19w', 'From Coq Require Import ZArith SpecFloat.\nFrom Sky Require Import Num M_Coords M_CoordsSF.\n',
                               ['wit_image'])
    except RuntimeError as ex:
        ctx.broken.append({'kind': 'model-eval', 'error': str(ex)[:1500]})
        return
    img = []
    for t in vals[0]:
        assert t[0] == 'S754_finite', t
        img.append((-1 if t[1] else 1) * math.ldexp(t[2], t[3]))
    (ra, dec) = rotate_spherical_vector(ra1, d1, ra2, d2, ra1.copy(), d1.copy())
    want_ra = math.atan2(img[1], img[0]) % TWOPI
    want_dec = math.asin(max(-1.0, min(1.0, img[2])))
    ctx.corr_cases += 1
    ctx.count('float-witness:checked')
    if vincenty(float(ra[0]), float(dec[0]), want_ra, want_dec) > 1e-12:
        ctx.disagree(site, case, [float(ra[0]), float(dec[0])], [want_ra, want_dec],
                     'the implementation does not return the image computed by the SpecFloat model')


def run(ctx):
    rng = ctx.rng
    mult = ctx.budget(1, 80)
    cases = corpus_cases() + malformed_cases()
    for _ in range(4000 * mult):
        cases.append(gen_sep(ctx, rng))
    for _ in range(1200 * mult):
        cases.append(gen_rot(ctx, rng))
    for _ in range(3000 * mult):
        cases.append(gen_a2r(ctx, rng))
    for _ in range(3000 * mult):
        cases.append(gen_p2d(ctx, rng))
    for g in range(250 * mult):
        cases.extend(gen_rses_group(ctx, rng, g))
    if ctx.thorough():
        ras = [0.0, HALFPI, PI, 3 * HALFPI, 1.0]
        decs = [-HALFPI, -PI / 4, 0.0, PI / 4, HALFPI]
        dirs = [(a, b) for a in ras for b in decs]
        for (a1, b1) in dirs:
            for (a2, b2) in dirs:
                for (a3, b3) in dirs[::2]:
                    cases.append({'f': 'rot', 'kind': 'grid', 'ra1': a1, 'dec1': b1, 'ra2': a2, 'dec2': b2, 'ra3': a3, 'dec3': b3})
                    ctx.count('rot:grid')
    lines, checks = execute(ctx, cases, rng, 150 * mult)
    for h in range(ctx.budget(5, 100)):
        run_history(ctx, rng.randrange(10 ** 6))
    for c in cases[-3:] + cases[:2]:
        ctx.sample({k: v for k, v in c.items()})
    model_side(ctx, lines, checks)
    check_float_witness(ctx)


def replay(ctx, rp):
    c = rp.get('case')
    if not isinstance(c, dict) or 'f' not in c:
        ctx.notes.append('replay file has no concrete input (broken obligation): re-running the full check')
        return run(ctx)
    c = {k: v for k, v in c.items() if k not in ('impl', 'cond')}
    if c['f'] in ('post-sampling', 'rsesps'):
        ctx.sample({'f': 'post-sampling'})
        lines, checks = [], []
        run_post_sampling(ctx, ctx.rng, lines, checks, 10)
        return model_side(ctx, lines, checks)
    if c['f'] in ('signalpdf', 'spdfpd'):
        ctx.sample({'f': 'signalpdf'})
        lines, checks = [], []
        run_signalpdf(ctx, ctx.rng, 20, lines, checks)
        return model_side(ctx, lines, checks)
    if c['f'] == 'history':
        ctx.sample(c)
        return run_history(ctx, int(c.get('seed', 0)))
    if c['f'] == 'tdm':
        c = {'f': 'sep', 'kind': 'replay', 'ra1': c['ra'], 'dec1': c['dec'], 'ra2': c['src_ra'], 'dec2': c['src_dec'],
             'floor': c.get('floor')}
    for k, v in list(c.items()):
        if isinstance(v, str) and k not in ('f', 'kind'):
            c[k] = float(v)
    lines, checks = execute(ctx, [c], ctx.rng, 0)
    ctx.sample(c)
    model_side(ctx, lines, checks)
