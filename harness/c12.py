"""C12 — test statistic and p-value helpers.

Correspondence: the real WilksTestStatistic / LLHRatioZeroNsTaylorWilksTestStatistic
(with a real ParameterModelMapper, the real calculate_ns_grad2 of
ZeroSigH0SingleDatasetTCLLHRatio or stubs bound to the real signatures of the
other three), the real Analysis.calculate_test_statistic / unblind /
do_trial_with_given_pseudo_data forwarding, calculate_pval_from_trials(_mixed)
and polynomial_fit are run against coq/model/M_Stat.v executed on IEEE doubles
through extraction (ocaml/c12).  Predicates: the property itself evaluated on
the implementation's results with exact rational arithmetic / brute-force
counting (not derived from the model)."""
import inspect
import itertools
import math
import warnings
from fractions import Fraction

import numpy as np

from harness import common
from harness.common import fhex

GEN_MODULES = ['stat']
MODEL_TARGETS = ['model/M_Stat.vo']
PROOF_TARGETS = ['proofs/P_StatTop.vo', 'proofs/P_StatGamma.vo', 'proofs/P_StatCallee.vo']
LEVEL = 'proof'
RULE = ('history probes on real ZeroSigH0/MultiDataset likelihood objects (TS and calculate_ns_grad2 three times, interleaved), p-value helpers on a buffer refilled in place; fit results with ns <0, =0 (+0.0 and -0.0), >0, NaN/inf, any log-likelihood value, ns at every position of '
        '1..4 floating parameters with fixed parameters interleaved, wrong lengths / unknown names as malformed stream; '
        'all four real calculate_ns_grad2 signatures, all keyword subsets; TS samples of 0..60 dyadic values with ties, '
        'duplicates, single element, thresholds on / between / outside sample values, both operators + invalid one; '
        '_mixed below / at / above the switch; noisy monotone p(ns) curves, degrees 0..3, fallback and no-solution regimes; '
        'a case is non-trivial when distinct by hash of its full input')
TRUSTED = [
    'Coq 8.16.1 kernel incl. vm_compute (no native_compute)',
    'axioms printed by Print Assumptions: the standard-library Reals axioms (ClassicalDedekindReals.sig_not_dec, '
    'sig_forall_dec, functional_extensionality_dep) and Classical_Prop.classic; discrete theorems are closed',
    'translator/py2coq.py: per-element reading of the formulas, comparisons, indices and keyword arguments of '
    'test_statistic.py, Analysis.calculate_test_statistic and utils/analysis.py (120 kernels of G_stat.v incl. 12 statement-skeleton pins and a count/order pin of the ns-gradient cache producer, each pinned by a K_ lemma)',
    'extraction (ExtrOcamlBasic only) + hand-written OCaml driver ocaml/c12/driver.ml and float record ocaml/common/numf.ml',
    'hand model M_Stat.v of control flow, lookups, keyword binding and error paths, validated by this correspondence',
    'oracles (Section-style premises of the theorems): np.polyfit returns the coefficient list (highest power first); '
    'calculate_ns_grad2 of the log-likelihood-ratio object returns the second derivative; np.sign; the truncated-gamma fit + scipy.stats.gamma.sf '
    'of the gamma-fit branch (contract: values in [0,1], positive at eta, non-increasing; the two values used by the implementation are '
    'recorded and handed to the model)',
    'real-number reading: float rounding (and NaN/inf arithmetic) is outside the theorems; TS samples and thresholds are '
    'modelled as integers after dyadic scaling (exact for every finite float64 set)',
    'the public Analysis path is exercised on a real SingleSourceMultiDatasetLLHRatioAnalysis object created without '
    '__init__, with a stub log-likelihood-ratio maximiser',
]

NAMES = ['gamma', 'ns', 'Ecut', 'ns2', 'fx0', 'fx1', 'nope']      # model integer = index
SIG_CLASSES = ['TCLLHRatio', 'ZeroSigH0SingleDatasetTCLLHRatio', 'MultiDatasetTCLLHRatio',
               'NsProfileMultiDatasetTCLLHRatio']
KWS = ['ns', 'ns_pidx', 'src_params_recarray', 'tl', 'fitparam_values', 'other']
TS_SHIFT = 16            # TS sample values are multiples of 2^-16


ERR_ENUM = {'IndexError', 'KeyError', 'TypeError', 'ValueError', 'NameError', 'ZeroDivisionError', 'RuntimeError',
            'AssertionError', 'AttributeError'}


def exc_name(ex):
    """the exception class of the model's enum that the raised exception is an instance of
    (numpy.linalg.LinAlgError is a ValueError)"""
    for c in type(ex).__mro__:
        if c.__name__ in ERR_ENUM:
            return c.__name__
    return type(ex).__name__


def feq(x, y, ulps=16):
    """floats equal up to a few ulp (same operation sequence on both sides;
    only libm pow(x,2) vs x*x may differ in the last bit)"""
    if x is None or y is None:
        return x is y
    if math.isnan(x) or math.isnan(y):
        return math.isnan(x) and math.isnan(y)
    if math.isinf(x) or math.isinf(y):
        return x == y
    return abs(x - y) <= ulps * 2.0 ** -52 * max(abs(x), abs(y)) or max(abs(x), abs(y)) < 1e-300


def parse_res(line):
    w = line.split()
    if not w:
        return ['unparsed', line]
    if w[0] == 'Ok':
        return ['Ok'] + [float.fromhex(x) if x not in ('nan', 'inf', '-inf') else float(x) for x in w[1:]]
    if w[0] == 'Err':
        return ['Err', w[1]]
    return ['unparsed', line]


def res_eq(a, b):
    if a[0] != b[0] or len(a) != len(b):
        return False
    if a[0] == 'Ok':
        return all(feq(x, y) for x, y in zip(a[1:], b[1:]))
    return a[1:] == b[1:]


def sgn_doc(ns):
    return -1 if ns < 0 else 1


# ============================================================== test statistics

def build_pmm(layout):
    """layout: list of (name, floating?) in definition order"""
    from skyllh.core.parameters import Parameter, ParameterModelMapper
    from skyllh.core.model import Model
    m0 = Model('m0')
    pmm = ParameterModelMapper(models=(m0,))
    for nm, fl in layout:
        if fl:
            pmm.map_param(param=Parameter(nm, 1.0, -1e9, 1e9), models=(m0,))
        else:
            pmm.map_param(param=Parameter(nm, 42.0), models=(m0,))
    return pmm


class Recorder:
    pass


def make_llh(sig_idx, body):
    """the log-likelihood-ratio object handed to the test statistic.
    sig_idx 1 with body ('real', nsgrad_i, Nprime, Npure): a real
    ZeroSigH0SingleDatasetTCLLHRatio (state set by hand, real method).
    Otherwise a stub whose calculate_ns_grad2 binds its arguments against the
    signature of the real method of class SIG_CLASSES[sig_idx]."""
    from skyllh.core import llhratio as L
    cls = getattr(L, SIG_CLASSES[sig_idx])
    if body[0] == 'real':
        z = object.__new__(L.ZeroSigH0SingleDatasetTCLLHRatio)
        z._cache_nsgrad_i = None if body[1] is None else np.array(body[1], dtype=np.float64)

        class T:
            n_selected_events = body[2]
            n_pure_bkg_events = body[3]
        z._tdm = T()
        return z
    sig = inspect.signature(cls.calculate_ns_grad2)
    rec = Recorder()
    rec.calls = []

    def calculate_ns_grad2(*a, **kw):
        ba = sig.bind(rec, *a, **kw)          # raises TypeError exactly as the real def would
        ba.apply_defaults()
        rec.calls.append(dict(ba.arguments))
        if body[0] == 'E':
            raise {'RuntimeError': RuntimeError, 'ValueError': ValueError}[body[1]]('stub')
        return float(body[1]) + float(ba.arguments['ns']) + 1024.0 * float(ba.arguments['ns_pidx'])
    rec.calculate_ns_grad2 = calculate_ns_grad2
    return rec


def real_b(body):
    """what the real ZeroSigH0 method returns at ns = 0 (the oracle value handed to the model)"""
    z = make_llh(1, body)
    try:
        with warnings.catch_warnings():
            warnings.simplefilter('ignore')
            return ['C', float(z.calculate_ns_grad2(ns=np.float64(0.0)))]
    except Exception as ex:
        return ['E', exc_name(ex)]


def gen_floats(rng, kind):
    if kind == 'neg':
        return -rng.choice([2.0 ** -30, 0.5, 1.0, 3.25, 117.0, 1e5 + 0.5, rng.uniform(1e-3, 50)])
    if kind == 'pos':
        return rng.choice([2.0 ** -30, 0.5, 1.0, 3.25, 117.0, 1e5 + 0.5, rng.uniform(1e-3, 50)])
    if kind == 'zero':
        return 0.0
    if kind == 'negzero':
        return -0.0
    if kind == 'nan':
        return float('nan')
    if kind == 'inf':
        return rng.choice([float('inf'), float('-inf')])
    raise ValueError(kind)


def gen_ts_case(ctx, rng, force=None):
    nf = rng.choice([1, 1, 2, 3, 4])
    fl_names = rng.sample(['gamma', 'Ecut', 'ns2'], nf - 1) + ['ns']
    rng.shuffle(fl_names)
    layout = [(n, True) for n in fl_names]
    for fx in rng.sample(['fx0', 'fx1'], rng.choice([0, 1, 2])):
        layout.insert(rng.randrange(len(layout) + 1), (fx, False))
    r = rng.random()
    ns_name = 'ns'
    malformed = None
    if force is None and r < 0.05:
        ns_name = 'nope'
        malformed = 'unknown-name'
    elif force is None and r < 0.08 and nf > 1:
        ns_name = [n for n in fl_names if n != 'ns'][0]     # a different (valid) parameter is the ns parameter
    regime = force or rng.choice(['neg', 'neg', 'zero', 'zero', 'zero', 'negzero', 'pos', 'pos', 'nan', 'inf'])
    fpv = [rng.choice([0.0, 1.5, -2.0, rng.uniform(-5, 5)]) for _ in fl_names]
    if ns_name in fl_names:
        fpv[fl_names.index(ns_name)] = gen_floats(rng, regime)
    grads = [rng.choice([0.0, 0.75, -1.25, rng.uniform(-30, 30), 1e4 + 0.25]) for _ in fl_names]
    r = rng.random()
    if force is None and r < 0.05:
        fpv = fpv[:rng.randrange(0, len(fpv))]
        malformed = 'short-fpv'
    elif force is None and r < 0.09:
        fpv = fpv + [1.0]
        malformed = 'long-fpv'
    elif force is None and r < 0.13:
        grads = grads[:rng.randrange(0, len(grads))]
        malformed = 'short-grads'
    ll = rng.choice([0.0, -0.0, 1.0, -3.5, 2.0 ** -40, 12345.678, -1e-3, rng.uniform(-100, 100), rng.uniform(0, 30)])
    sig_idx = rng.randrange(4)
    r = rng.random()
    if sig_idx == 1 and r < 0.7:
        n = rng.randrange(0, 6)
        body = ['real', [rng.choice([0.5, -0.25, 0.125, rng.uniform(-2, 2)]) for _ in range(n)],
                n, rng.choice([0, 1, 5, 100])]
        if rng.random() < 0.1:
            body[1] = None                           # evaluate() was never called: RuntimeError in the real method
    elif r < 0.8:
        body = ['B', rng.choice([-2.0, -0.5, -1e-6, -117.25, rng.uniform(-50, -1e-3)])]      # concave: b < 0
    elif r < 0.88:
        body = ['B', rng.choice([3.0, 0.25, rng.uniform(1e-3, 50)])]
    elif r < 0.93:
        body = ['B', 0.0]
    else:
        body = ['E', rng.choice(['RuntimeError', 'ValueError'])]
    kw = rng.choice(['both', 'both', 'both', 'none', 'llh', 'grads'])
    return {'kind': 'ts', 'layout': layout, 'ns_name': ns_name, 'fpv': fpv, 'grads': grads, 'll': ll,
            'sig': sig_idx, 'body': body, 'kw': kw, 'regime': regime, 'malformed': malformed}


def hexs(xs):
    return ' '.join(fhex(x) for x in xs)


def model_body_words(case):
    body = case['body']
    if body[0] == 'real':
        rb = real_b(body)
        return ['C', fhex(rb[1])] if rb[0] == 'C' else ['E', rb[1]]
    if body[0] == 'E':
        return ['E', body[1]]
    return [fhex(body[1])]


def make_analysis(pmm, tstat, ll, fpv):
    """a real LLHRatioAnalysis whose log-likelihood ratio maximiser is a stub"""
    from skyllh.core.analysis import SingleSourceMultiDatasetLLHRatioAnalysis as A
    ana = object.__new__(A)
    ana._pmm = pmm
    ana._shg_mgr = None
    ana._test_statistic = None
    ana.test_statistic = tstat                # real property setter (type check)
    ana._data_list = []
    ana._tdm_list = []
    ana._event_selection_method_list = []

    class LLH:
        mean_n_sig_0 = None

        def initialize_for_new_trial(self, tl=None):
            pass

        def maximize(self, rss, tl=None):
            return (ll, np.array(fpv, dtype=np.float64), {'stub': True})
    ana._llhratio = LLH()
    return ana


def call(f):
    try:
        with warnings.catch_warnings():
            warnings.simplefilter('ignore')
            v = f()
        return ['Ok', float(v)]
    except Exception as ex:
        return ['Err', exc_name(ex)]


def run_ts_case(ctx, case, lines, checks):
    from skyllh.core.test_statistic import WilksTestStatistic, LLHRatioZeroNsTaylorWilksTestStatistic
    layout = [tuple(x) for x in case['layout']]
    floating = [n for n, fl in layout if fl]
    pmm = build_pmm(layout)
    fpv = np.array(case['fpv'], dtype=np.float64)
    grads = np.array(case['grads'], dtype=np.float64)
    ll = case['ll']
    nm = case['ns_name']
    fl_ids = ' '.join(str(NAMES.index(n)) for n in floating)
    nmid = NAMES.index(nm)
    ctx.count('ts:regime:' + case['regime'])
    if case['malformed']:
        ctx.count('ts:malformed:' + case['malformed'])
    ctx.count(f'ts:n_floating:{len(floating)}')
    valid = (nm in floating and len(fpv) == len(floating))
    ns = float(fpv[floating.index(nm)]) if valid else None

    # ---- WilksTestStatistic, direct
    w = WilksTestStatistic(ns_param_name=nm)
    impl = call(lambda: w(pmm=pmm, log_lambda=ll, fitparam_values=fpv))
    lines.append(f'wilks {nmid} {fhex(ll)} | {fl_ids} | {hexs(fpv)}')
    checks.append(('WilksTestStatistic.__call__', case, impl))
    if valid:
        if impl[0] != 'Ok':
            ctx.violation('WilksTestStatistic.__call__', 'raises-' + impl[1], 'raises for a valid fit result',
                          case=case, impl=impl, predicate='computable for every fit result')
        elif not (math.isnan(ns) or math.isinf(ns) or math.isinf(ll)):
            want = 2 * sgn_doc(ns) * ll        # exact in float64
            if impl[1] != want:
                ctx.violation('WilksTestStatistic.__call__', 'wrong-TS', f'TS = {impl[1]} but 2 sgn(ns) logLambda = {want}',
                              case=case, impl=impl, predicate='TS = 2 sgn(ns) log Lambda, sgn 0 = +1')

    # ---- LLHRatioZeroNsTaylorWilksTestStatistic, direct
    t = LLHRatioZeroNsTaylorWilksTestStatistic(ns_param_name=nm)
    llh = make_llh(case['sig'], case['body'])
    impl = call(lambda: t(pmm=pmm, log_lambda=ll, fitparam_values=fpv, llhratio=llh, grads=grads))
    mb = ' '.join(model_body_words(case))
    lines.append(f'taylor {nmid} {fhex(ll)} cur {case["sig"]} {mb} | {fl_ids} | {hexs(fpv)} | {hexs(grads)}')
    checks.append(('LLHRatioZeroNsTaylorWilksTestStatistic.__call__', case, impl))
    callee_ok = case['body'][0] == 'B' or (case['body'][0] == 'real' and case['body'][1] is not None)
    if valid and len(grads) == len(floating):
        i = floating.index(nm)
        if impl[0] != 'Ok' and callee_ok:
            ctx.violation('LLHRatioZeroNsTaylorWilksTestStatistic.__call__', 'raises-' + impl[1],
                          'raises although llhratio and grads are given and calculate_ns_grad2 returns',
                          case=case, impl=impl, predicate='computable for every fit result')
        if impl[0] == 'Ok' and ns == 0:
            ctx.count('ts:taylor-apex')
            a = float(grads[i])
            if case['body'][0] == 'real':
                b = real_b(case['body'])[1]
            else:
                b = float(case['body'][1]) + ns + 1024.0 * i
                c = llh.calls[-1]
                if not (c['ns'] == 0 and c['ns_pidx'] == i):
                    ctx.violation('LLHRatioZeroNsTaylorWilksTestStatistic.__call__', 'wrong-callee-arguments',
                                  f'calculate_ns_grad2 called with ns={c["ns"]}, ns_pidx={c["ns_pidx"]}',
                                  case=case, impl=impl, predicate='second derivative taken at ns = 0 for the ns parameter')
            if b != 0 and math.isfinite(b) and math.isfinite(a) and math.isfinite(impl[1]):
                if b < 0:
                    ctx.count('ts:taylor-apex-concave')
                want = Fraction(-2) * Fraction(a) ** 2 / (4 * Fraction(b))
                if abs(Fraction(impl[1]) - want) > Fraction(1, 10 ** 13) * abs(want):
                    ctx.violation('LLHRatioZeroNsTaylorWilksTestStatistic.__call__', 'wrong-apex',
                                  f'TS = {impl[1]} but -2 a^2/(4 b) = {float(want)}', case=case, impl=impl,
                                  predicate='TS(ns=0) = -2 a^2 / (4 b)')
                if b < 0 and impl[1] < 0:
                    ctx.violation('LLHRatioZeroNsTaylorWilksTestStatistic.__call__', 'negative-apex',
                                  'negative TS for a concave expansion', case=case, impl=impl)
        if impl[0] == 'Ok' and ns != 0 and not (math.isnan(ns) or math.isinf(ns) or math.isinf(ll)):
            want = 2 * sgn_doc(ns) * ll
            if impl[1] != want:
                ctx.violation('LLHRatioZeroNsTaylorWilksTestStatistic.__call__', 'wrong-TS',
                              f'TS = {impl[1]} but 2 sgn(ns) logLambda = {want}', case=case, impl=impl,
                              predicate='TS = 2 sgn(ns) log Lambda for ns != 0')

    if fpv.tobytes() != np.array(case['fpv'], dtype=np.float64).tobytes() or \
            grads.tobytes() != np.array(case['grads'], dtype=np.float64).tobytes():
        ctx.violation('LLHRatioZeroNsTaylorWilksTestStatistic.__call__', 'argument-array-modified',
                      'fitparam_values / grads changed by the test statistic', case=case)

    # ---- Analysis.calculate_test_statistic with / without the extra keywords, both variants
    for v, ts_obj in (('W', w), ('T', t)):
        ana = make_analysis(pmm, ts_obj, ll, fpv)
        kws = {}
        if case['kw'] in ('both', 'llh'):
            kws['llhratio'] = make_llh(case['sig'], case['body'])
        if case['kw'] in ('both', 'grads'):
            kws['grads'] = grads
        impl = call(lambda: ana.calculate_test_statistic(log_lambda=ll, fitparam_values=fpv, **kws))
        lines.append(f'ana {v} {case["kw"]} {nmid} {fhex(ll)} {case["sig"]} {mb} | {fl_ids} | {hexs(fpv)} | {hexs(grads)}')
        checks.append(('Analysis.calculate_test_statistic', dict(case, variant=v), impl))
        ctx.count(f'ts:analysis-kw:{case["kw"]}')

    # ---- the public path: unblind / do_trial_with_given_pseudo_data
    for v, ts_obj in (('W', w), ('T', t)):
        ana = make_analysis(pmm, ts_obj, ll, fpv)
        impl_u = call(lambda: ana.unblind(minimizer_rss=None)[0])
        lines.append(f'ana {v} pub {nmid} {fhex(ll)} 0 0x0p+0 | {fl_ids} | {hexs(fpv)} | ')
        checks.append(('Analysis.unblind', dict(case, variant=v), impl_u))
        ana = make_analysis(pmm, ts_obj, ll, fpv)
        impl_d = call(lambda: ana.do_trial_with_given_pseudo_data(
            seed=1, mean_n_sig=0, n_sig=0, n_events_list=[], events_list=[], minimizer_rss=None)['ts'][0])
        lines.append(f'ana {v} pub {nmid} {fhex(ll)} 0 0x0p+0 | {fl_ids} | {hexs(fpv)} | ')
        checks.append(('Analysis.do_trial_with_given_pseudo_data', dict(case, variant=v), impl_d))
        if valid:
            for site, impl in (('Analysis.unblind', impl_u), ('Analysis.do_trial_with_given_pseudo_data', impl_d)):
                if impl[0] != 'Ok':
                    vname = 'WilksTestStatistic' if v == 'W' else 'LLHRatioZeroNsTaylorWilksTestStatistic'
                    ctx.violation('LLHRatioAnalysis.unblind/do_trial_with_given_pseudo_data', f'{vname}-raises-{impl[1]}',
                                  f'{vname} cannot be computed for a fit result through {site}',
                                  case=dict(case, variant=v), impl=impl,
                                  predicate='both test statistics can be computed for every fit result')


def run_sig_cases(ctx, lines, checks):
    """the four real signatures of calculate_ns_grad2 against the model's constants, on every keyword subset"""
    from skyllh.core import llhratio as L
    for k, cname in enumerate(SIG_CLASSES):
        sig = inspect.signature(getattr(L, cname).calculate_ns_grad2)
        for r in range(len(KWS) + 1):
            for sub in itertools.combinations(KWS, r):
                try:
                    sig.bind(None, **{kw: 0 for kw in sub})
                    impl = 'true'
                except TypeError:
                    impl = 'false'
                lines.append(f'bind {k} ' + ' '.join(sub))
                checks.append(('calculate_ns_grad2.signature', {'kind': 'sig', 'class': cname, 'keywords': list(sub)}, impl))
                ctx.case({'sig': cname, 'kws': sub})
        ctx.count('sig:classes')


# ============================================================== p-values

def gen_pval_case(ctx, rng, n=None):
    if n is None:
        n = rng.choice([0, 1, 1, 2, 3, 5, 8, 13, 30, 60])
    style = rng.choice(['ties', 'ties', 'spread', 'const', 'chi2'])
    if style == 'ties':
        pool = [rng.randrange(-3, 12) * 2 ** (TS_SHIFT - 1) for _ in range(max(1, n // 3 + 1))]
        vals = [rng.choice(pool) for _ in range(n)]
    elif style == 'const':
        c = rng.randrange(-2, 9) * 2 ** TS_SHIFT
        vals = [c] * n
    elif style == 'chi2':
        vals = [0 if rng.random() < 0.5 else int(rng.gammavariate(0.5, 2.0) * 2 ** TS_SHIFT) for _ in range(n)]
    else:
        vals = [rng.randrange(-2 ** 18, 2 ** 21) for _ in range(n)]
    thr = set()
    for v in rng.sample(vals, min(len(vals), 5)):
        thr.update([v, v - 1, v + 1])
    if vals:
        thr.update([min(vals) - 2 ** TS_SHIFT, max(vals) + 2 ** TS_SHIFT, min(vals), max(vals)])
    thr.update(rng.randrange(-2 ** 18, 2 ** 21) for _ in range(3))
    thr = sorted(thr)
    if len(thr) > 14:
        keep = set(rng.sample(thr, 12)) | ({min(vals), max(vals)} if vals else set())
        thr = sorted(keep)
    sw = rng.choice(thr + [3 * 2 ** TS_SHIFT])
    eta = rng.choice([None, None, sw, 2 * 2 ** TS_SHIFT])
    ctx.count(f'pval:n:{n}')
    ctx.count('pval:style:' + style)
    if len(set(vals)) < len(vals):
        ctx.count('pval:has-duplicates')
    return {'kind': 'pval', 'vals': vals, 'thr': thr, 'switch': sw, 'eta': eta,
            'n_max': rng.choice([500000, 1000, 7]), 'bad_op': rng.random() < 0.15}


def z2f(k):
    return k / 2 ** TS_SHIFT


def run_pval_case(ctx, case, lines, checks):
    import skyllh.core.utils.analysis as UA
    vals = case['vals']
    arr = np.array([z2f(v) for v in vals], dtype=np.float64)
    zs = ' '.join(str(v) for v in vals)
    n = len(vals)
    prev = {}
    for t in case['thr']:
        tf = z2f(t)
        if t in vals:
            ctx.count('pval:threshold-equals-sample-value')
        got = {}
        for op, opw in (('greater', 'gt'), ('greater_equal', 'ge')):
            try:
                p, s = UA.calculate_pval_from_trials(arr, tf, comp_operator=op)
                impl = ['Ok', float(p), float(s)]
            except Exception as ex:
                impl = ['Err', exc_name(ex)]
            lines.append(f'pval {opw} {t} | {zs}')
            checks.append(('calculate_pval_from_trials', {'kind': 'pval1', 'vals': vals, 'thr': t, 'op': op}, impl))
            if n > 0:
                if impl[0] != 'Ok':
                    ctx.violation('calculate_pval_from_trials', 'raises-' + impl[1], 'raises for a non-empty sample',
                                  case={'kind': 'pval1', 'vals': vals, 'thr': t, 'op': op}, impl=impl)
                    continue
                p, s = impl[1], impl[2]
                cnt = sum(1 for v in vals if (v > t if op == 'greater' else v >= t))       # brute force
                bad = None
                if not (0.0 <= p <= 1.0):
                    bad = ('out-of-range', f'p = {p}')
                elif Fraction(p) != Fraction(cnt / n):
                    bad = ('wrong-fraction', f'p = {p}, fraction of trials = {cnt}/{n}')
                elif not (s >= 0 and abs(s * s - p * (1 - p) / n) <= 1e-12):
                    bad = ('wrong-sigma', f'p_sigma = {s}')
                if bad:
                    ctx.violation('calculate_pval_from_trials', bad[0], bad[1],
                                  case={'kind': 'pval1', 'vals': vals, 'thr': t, 'op': op}, impl=impl,
                                  predicate='p = (number of trials > / >= threshold) / n in [0,1]')
                got[op] = p
                if op in prev and p > prev[op][1]:
                    ctx.violation('calculate_pval_from_trials', 'not-monotone',
                                  f'p({tf}) = {p} > p({z2f(prev[op][0])}) = {prev[op][1]}',
                                  case={'kind': 'pval1', 'vals': vals, 'thr': t, 'op': op, 'prev_thr': prev[op][0]}, impl=impl,
                                  predicate='p non-increasing in the threshold')
        if len(got) == 2:
            if got['greater_equal'] < got['greater']:
                ctx.violation('calculate_pval_from_trials', 'inclusive-smaller-than-strict',
                              f'p_>=({tf}) = {got["greater_equal"]} < p_>({tf}) = {got["greater"]}',
                              case={'kind': 'pval1', 'vals': vals, 'thr': t, 'op': 'both'}, impl=got,
                              predicate='inclusive comparison never yields a smaller value than the strict one')
            if 'greater' in prev and got['greater_equal'] > prev['greater'][1]:
                ctx.violation('calculate_pval_from_trials', 'inclusive-above-strict-at-lower-threshold',
                              f'p_>=({tf}) > p_>({z2f(prev["greater"][0])})',
                              case={'kind': 'pval1', 'vals': vals, 'thr': t, 'op': 'both'}, impl=got)
            for op in got:
                prev[op] = (t, got[op])
    if arr.tobytes() != np.array([z2f(v) for v in vals], dtype=np.float64).tobytes():
        ctx.violation('calculate_pval_from_trials', 'argument-array-modified', 'ts_vals changed by the call', case=case)
    # default operator of calculate_pval_from_trials (= 'greater')
    t = case['thr'][len(case['thr']) // 2]
    try:
        p, s = UA.calculate_pval_from_trials(arr, z2f(t))
        impl = ['Ok', float(p), float(s)]
    except Exception as ex:
        impl = ['Err', exc_name(ex)]
    lines.append(f'pval gt {t} | {zs}')
    checks.append(('calculate_pval_from_trials', {'kind': 'pval1', 'vals': vals, 'thr': t, 'op': None}, impl))
    if case['bad_op']:
        ctx.count('pval:invalid-operator')
        try:
            p, s = UA.calculate_pval_from_trials(arr, z2f(t), comp_operator='less')
            impl = ['Ok', float(p), float(s)]
        except Exception as ex:
            impl = ['Err', exc_name(ex)]
        lines.append(f'pval bad {t} | {zs}')
        checks.append(('calculate_pval_from_trials', {'kind': 'pval1', 'vals': vals, 'thr': t, 'op': 'less'}, impl))
    # _mixed: the gamma fit (iminuit/scipy) is the oracle, replaced by a recorder
    sw, eta, n_max = case['switch'], case['eta'], case['n_max']
    for t in case['thr']:
        for op, opw in ((None, 'ge'), ('greater', 'gt'), ('greater_equal', 'ge')):
            rec = []

            def fake(ts_vals, ts_threshold, eta=3.0, n_max=500000, **kw):
                rec.append((ts_vals is arr, float(ts_threshold), float(eta), int(n_max), sorted(kw)))
                return (0.125, 0.0)
            orig = UA.calculate_pval_from_gammafit_to_trials
            UA.calculate_pval_from_gammafit_to_trials = fake
            try:
                kws = {} if op is None else {'comp_operator': op}
                if eta is not None:
                    kws['eta'] = z2f(eta)
                r = UA.calculate_pval_from_trials_mixed(arr, z2f(t), switch_at_ts=z2f(sw), n_max=n_max, **kws)
                if rec:
                    ok = rec[0][0] and not rec[0][4] and tuple(r) == (0.125, 0.0)
                    impl = ['G', int(rec[0][1] * 2 ** TS_SHIFT), int(rec[0][2] * 2 ** TS_SHIFT), rec[0][3]] if ok else ['G-bad', repr(rec)]
                else:
                    impl = ['T', float(r[0]), float(r[1])]
            except Exception as ex:
                impl = ['Err', exc_name(ex)]
            finally:
                UA.calculate_pval_from_gammafit_to_trials = orig
            regime = 'below' if t < sw else ('at' if t == sw else 'above')
            ctx.count('mixed:' + regime)
            lines.append(f'mixed {opw} {t} {sw} {"-" if eta is None else eta} {n_max} | {zs}')
            mcase = {'kind': 'mixed1', 'vals': vals, 'thr': t, 'switch': sw, 'eta': eta, 'n_max': n_max, 'op': op}
            checks.append(('calculate_pval_from_trials_mixed', mcase, impl))
            if regime == 'below' and n > 0:
                cnt = sum(1 for v in vals if (v > t if op == 'greater' else v >= t))
                if impl[0] != 'T' or Fraction(impl[1]) != Fraction(cnt / n):
                    ctx.violation('calculate_pval_from_trials_mixed', 'below-switch-not-from-trials',
                                  f'threshold below the switch: got {impl}, fraction of trials = {cnt}/{n}',
                                  case=mcase, impl=impl, predicate='below switch_at_ts the p-value is taken from the trials')


# ============================================================== polynomial_fit

def polyfit_oracle(ns, p, w, deg):
    try:
        with warnings.catch_warnings():
            warnings.simplefilter('ignore')
            (params, cov) = np.polyfit(ns, p, deg, w=w, cov=True)
        return ['Ok'] + [float(x) for x in params]
    except Exception as ex:
        return ['Err', exc_name(ex)]


def poly_tolerance(orc, deg, p_thr):
    """absolute tolerance for comparing the two float evaluations of the inversion formula, derived from the
    case: libm pow(b, 2) vs b*b may differ in the last bit, and the difference is amplified by the cancellations
    in b^2 - 4a(c - p) and in -b + sqrt(.).  None = too ill-conditioned to compare (discriminant ~ 0)."""
    eps = 2.0 ** -52
    if deg not in (1, 2) or orc[deg][0] != 'Ok':
        return 0.0
    cs = orc[deg][1:]
    if deg == 2 and cs[0] > 0:
        if orc[1][0] != 'Ok':
            return 0.0
        cs = orc[1][1:]
    if len(cs) == 2:
        a, b = cs
        return 0.0 if a == 0 else 16 * eps * (abs(p_thr) + abs(b)) / abs(a)
    a, b, c = cs
    if a == 0:
        return 0.0
    t1, t2 = b * b, abs(4 * a * (c - p_thr))
    d = b * b - 4 * a * (c - p_thr)
    if d <= 0 or d < 1e-6 * (t1 + t2):
        return None if abs(d) < 1e-6 * (t1 + t2) else 0.0
    sq = math.sqrt(d)
    return 16 * eps * ((t1 + t2) / (2 * sq) + abs(b) + sq) / abs(2 * a)


def gen_poly_case(ctx, rng):
    n = rng.choice([3, 4, 5, 5, 6, 8, 10, 12])
    shape = rng.choice(['saturating', 'saturating', 'linear', 'convex', 'logistic', 'flat-top'])
    x0 = rng.choice([0.0, 0.5, 2.0])
    step = rng.choice([0.5, 1.0, 2.0, 3.5])
    ns = [x0 + step * i for i in range(n)]
    span = ns[-1] - ns[0] + step
    noise = rng.choice([0.0, 0.005, 0.02, 0.05])
    p = []
    for x in ns:
        u = (x - ns[0]) / span
        if shape == 'saturating':
            y = 0.5 + 0.48 * (1 - math.exp(-3 * u))
        elif shape == 'linear':
            y = 0.3 + 0.6 * u
        elif shape == 'convex':
            y = 0.2 + 0.7 * u * u
        elif shape == 'logistic':
            y = 1 / (1 + math.exp(-6 * (u - 0.4)))
        else:
            y = min(0.85, 0.4 + 1.2 * u)
        y += rng.gauss(0, noise)
        p.append(min(1.0, max(0.0, y)))
    trials = rng.choice([100, 1000])
    sig = [max(math.sqrt(max(q * (1 - q), 1e-4) / trials), 1e-3) for q in p]
    w = [1 / s for s in sig]
    deg = rng.choice([1, 1, 2, 2, 2, 2, 0, 3])
    p_thr = rng.choice([0.5, 0.9, 0.9, 0.75, 0.95, 0.99, rng.uniform(0.3, 0.99)])
    ctx.count('poly:shape:' + shape)
    ctx.count(f'poly:deg:{deg}')
    return {'kind': 'poly', 'ns': ns, 'p': p, 'w': w, 'deg': deg, 'p_thr': p_thr}


def run_poly_case(ctx, case, lines, checks):
    import skyllh.core.utils.analysis as UA
    ns, p, w, deg, p_thr = case['ns'], case['p'], case['w'], case['deg'], case['p_thr']
    a_ns, a_p, a_w = np.array(ns), np.array(p), np.array(w)
    try:
        with warnings.catch_warnings():
            warnings.simplefilter('ignore')
            r = UA.polynomial_fit(a_ns, a_p, a_w, deg, p_thr)
        impl = ['Ok', float(r)]
    except Exception as ex:
        impl = ['Err', exc_name(ex)]
    tabs = []
    orc = {}
    for d in sorted({1, 2, deg}):
        o = polyfit_oracle(a_ns, a_p, a_w, d)
        orc[d] = o
        tabs.append(f'{d} ' + (hexs(o[1:]) if o[0] == 'Ok' else f'E {o[1]}'))
    lines.append(f'poly {deg} {fhex(p_thr)} | ' + ' | '.join(tabs))
    checks.append(('polynomial_fit', case, impl, poly_tolerance(orc, deg, p_thr)))
    # predicate: the fitted curve takes the requested p-value at the returned ns
    if deg in (1, 2) and orc[deg][0] == 'Ok' and impl[0] != 'Ok':
        ctx.violation('polynomial_fit', 'raises-' + impl[1], 'raises although np.polyfit succeeded', case=case, impl=impl)
        return
    if deg not in (1, 2):
        if impl != ['Err', 'ValueError'] and orc[deg][0] == 'Ok':
            ctx.violation('polynomial_fit', 'invalid-degree-accepted', f'deg = {deg} gave {impl}', case=case, impl=impl)
        return
    if impl[0] != 'Ok':
        return
    x = impl[1]
    cs = orc[deg][1:]
    if deg == 2 and cs[0] > 0:
        ctx.count('poly:fallback-to-deg1')
        if orc[1][0] != 'Ok':
            return
        cs = orc[1][1:]
    F = Fraction
    if len(cs) == 2:
        a, b = cs
        if a == 0:
            ctx.count('poly:no-solution')
            return
        if math.isnan(x) or math.isinf(x):
            ctx.violation('polynomial_fit', 'non-finite-result', f'ns = {x} for a line with slope {a}', case=case, impl=impl)
            return
        resid = abs(F(a) * F(x) + F(b) - F(p_thr))
        scale = abs(F(a) * F(x)) + abs(F(b)) + abs(F(p_thr))
        if resid > F(1, 10 ** 10) * scale:
            ctx.violation('polynomial_fit', 'line-misses-p', f'a ns + b - p = {float(resid)}', case=case, impl=impl,
                          predicate='fitted line takes the requested p-value at the returned ns')
        ctx.count('poly:deg1-inverted')
    else:
        a, b, c = cs
        disc = F(b) ** 2 - 4 * F(a) * (F(c) - F(p_thr))
        if a == 0 or disc < 0:
            ctx.count('poly:no-solution')
            if a != 0 and not math.isnan(x) and disc < -F(1, 10 ** 9) * (F(b) ** 2 + abs(4 * F(a) * (F(c) - F(p_thr)))):
                ctx.violation('polynomial_fit', 'value-without-solution', f'ns = {x} although the parabola never reaches p',
                              case=case, impl=impl)
            return
        if math.isnan(x) or math.isinf(x):
            if disc > F(1, 10 ** 9) * (F(b) ** 2 + abs(4 * F(a) * (F(c) - F(p_thr)))):
                ctx.violation('polynomial_fit', 'non-finite-result', f'ns = {x} although a solution exists', case=case, impl=impl)
            return
        resid = abs(F(a) * F(x) ** 2 + F(b) * F(x) + F(c) - F(p_thr))
        scale = abs(F(a)) * F(x) ** 2 + abs(F(b) * F(x)) + abs(F(c)) + abs(F(p_thr)) + F(b) ** 2 / abs(F(a))
        if resid > F(1, 10 ** 10) * scale:
            ctx.violation('polynomial_fit', 'parabola-misses-p', f'a ns^2 + b ns + c - p = {float(resid)}', case=case, impl=impl,
                          predicate='fitted parabola takes the requested p-value at the returned ns')
        slope = 2 * F(a) * F(x) + F(b)
        if slope < -F(1, 10 ** 10) * (abs(2 * F(a) * F(x)) + abs(F(b))):
            ctx.violation('polynomial_fit', 'falling-branch-root', f'2 a ns + b = {float(slope)} < 0', case=case, impl=impl,
                          predicate='the returned root lies on the rising branch')
        ctx.count('poly:deg2-inverted')



# ============================================================== history probes (no model: "the result is a function of the inputs")

def build_real_llhratio(R, N):
    """a real ZeroSigH0SingleDatasetTCLLHRatio (real pmm, minimizer, shg manager, trial data manager; a PDFRatio
    subclass returning the fixed per-event ratios R), initialised for a trial with N events"""
    from skyllh.core.config import Config
    from skyllh.core.llhratio import ZeroSigH0SingleDatasetTCLLHRatio
    from skyllh.core.minimizer import LBFGSMinimizerImpl, Minimizer
    from skyllh.core.parameters import Parameter, ParameterModelMapper
    from skyllh.core.pdfratio import PDFRatio
    from skyllh.core.source_hypo_grouping import SourceHypoGroupManager
    from skyllh.core.source_model import SourceModel
    from skyllh.core.storage import DataFieldRecordArray
    from skyllh.core.trialdata import TrialDataManager

    class FixedPDFRatio(PDFRatio):
        def __init__(self, ratios, **kwargs):
            super().__init__(sig_param_names=None, bkg_param_names=None, **kwargs)
            self.ratios = np.asarray(ratios, dtype=np.float64)

        def initialize_for_new_trial(self, tdm, tl=None, **kwargs):
            pass

        def get_ratio(self, tdm, src_params_recarray, tl=None):
            return self.ratios.copy()

        def get_gradient(self, tdm, src_params_recarray, fitparam_id, tl=None):
            return np.zeros_like(self.ratios)

    cfg = Config()
    src = SourceModel()
    shg_mgr = SourceHypoGroupManager()
    pmm = ParameterModelMapper(models=[src])
    pmm.map_param(Parameter('ns', 0.0, valmin=0.0, valmax=100.0))
    events = DataFieldRecordArray(np.array(np.arange(len(R)), dtype=[('evt', np.int64)]))
    tdm = TrialDataManager()
    tdm.initialize_trial(shg_mgr=shg_mgr, pmm=pmm, events=events, n_events=N)
    llh = ZeroSigH0SingleDatasetTCLLHRatio(
        cfg=cfg, pmm=pmm, minimizer=Minimizer(LBFGSMinimizerImpl(cfg=cfg)), shg_mgr=shg_mgr, tdm=tdm,
        pdfratio=FixedPDFRatio(R, cfg=cfg))
    llh.initialize_for_new_trial()
    return pmm, llh


def bits(xs):
    """set of the bit patterns (NaN equals NaN)"""
    return {np.float64(x).tobytes() for x in xs}


def doc_ab(R, N):
    """first and second derivative of log Lambda at ns = 0 from the manual's formulas, in exact rationals"""
    F = Fraction
    X = [(F(r) - 1) / N for r in R]
    a = sum(X) - F(N - len(R), N)
    b = -sum(x * x for x in X) - F(N - len(R), N * N)
    return a, b


def gen_hist_ts_case(ctx, rng):
    n = rng.choice([0, 1, 2, 3, 5, 10, 25])
    R = [rng.choice([0.0, 0.05, 0.2, 0.5, 1.0, 1.7, 3.0, 12.0, round(rng.uniform(0, 6), 3)]) for _ in range(n)]
    R2 = [rng.choice([0.0, 0.3, 0.9, 2.5, 7.0, round(rng.uniform(0, 4), 3)]) for _ in range(rng.choice([1, 3, 8]))]
    return {'kind': 'hist_ts', 'R': R, 'N': n + rng.choice([0, 1, 15, 200] if n > 0 else [1, 15, 200]), 'R2': R2, 'N2': len(R2) + rng.choice([0, 4, 50]),
            'f': rng.choice([[0.5, 0.5], [0.25, 0.75], [1.0, 0.0]]), 'll': rng.choice([0.0, 1.25, -3.0])}


def run_hist_ts_case(ctx, case, lines, checks):
    """repeat / interleave probes on REAL likelihood objects: the zero-ns Taylor TS and calculate_ns_grad2 called three
    times for the same fit result, interleaved with the Wilks TS, another ns and the p-value helpers on the same arrays"""
    import skyllh.core.utils.analysis as UA
    from skyllh.core import llhratio as L
    from skyllh.core.test_statistic import WilksTestStatistic, LLHRatioZeroNsTaylorWilksTestStatistic
    ctx.count('hist:ts')
    site_t = 'LLHRatioZeroNsTaylorWilksTestStatistic.__call__'
    site_b = 'ZeroSigH0SingleDatasetTCLLHRatio.calculate_ns_grad2'
    fpv = np.array([0.0])
    with warnings.catch_warnings():
        warnings.simplefilter('ignore')
        objs = []
        for R, N in ((case['R'], case['N']), (case['R2'], case['N2'])):
            try:
                pmm, llh = build_real_llhratio(R, N)
                # before evaluate(): no cached gradients, the real method raises RuntimeError
                t0 = LLHRatioZeroNsTaylorWilksTestStatistic()
                pre = call(lambda: t0(pmm=pmm, log_lambda=0.0, fitparam_values=fpv, llhratio=llh, grads=np.array([0.25])))
                lines.append(f'taylorreal 1 0x0p+0 zs | 1 | {hexs(fpv)} | {fhex(0.25)} | | N {len(R)} {N - len(R)}')
                checks.append(('LLHRatioZeroNsTaylorWilksTestStatistic.__call__(real ZeroSigH0 before evaluate)', case, pre))
                (ll, grads) = llh.evaluate(fpv)
            except Exception as ex:       # construction is not C12's subject: fall back to hand-set state
                ctx.count('hist:real-construction-failed')
                ctx.notes.append(f'real ZeroSigH0 construction failed ({exc_name(ex)}): hand-set state used')
                pmm = build_pmm([('ns', True)])
                X = (np.array(R, dtype=np.float64) - 1.) / N
                llh = make_llh(1, ['real', list(X), len(R), N - len(R)])
                ll, grads = 0.0, np.array([float(np.sum(X) - (N - len(R)) / N)])
            objs.append((pmm, llh, float(ll), np.array(grads, dtype=np.float64), R, N))
        # the state the model's callee is built from: cached per-event gradients and the event counts of the real objects
        blocks = []
        for o in objs:
            cache = o[1]._cache_nsgrad_i
            if cache is None:             # evaluate() left no cached gradients: the model's callee raises like the real one
                blocks.append(f'N {int(o[1]._tdm.n_selected_events)} {int(o[1]._tdm.n_pure_bkg_events)}')
            else:
                blocks.append(f'S {int(o[1]._tdm.n_selected_events)} {int(o[1]._tdm.n_pure_bkg_events)} '
                              + hexs(np.array(cache, dtype=np.float64)))
        t = LLHRatioZeroNsTaylorWilksTestStatistic()
        w = WilksTestStatistic()
        # ---- single dataset
        for (pmm, llh, ll, grads, R, N) in objs[:1]:
            a, b = doc_ab(R, N)
            snap = (fpv.tobytes(), grads.tobytes())
            Rarr = np.array(R, dtype=np.float64)
            rs = Rarr.tobytes()
            ts, bs = [], []
            try:
                ts.append(float(t(pmm=pmm, log_lambda=ll, fitparam_values=fpv, llhratio=llh, grads=grads)))
                bs.append(float(llh.calculate_ns_grad2(ns=0.0)))
                w1 = float(w(pmm=pmm, log_lambda=ll, fitparam_values=fpv))
                p1 = UA.calculate_pval_from_trials(grads, 0.0)
                p1r = UA.calculate_pval_from_trials(Rarr, 1.0, comp_operator='greater_equal') if len(R) else None
                ts.append(float(t(pmm=pmm, log_lambda=ll, fitparam_values=fpv, llhratio=llh, grads=grads)))
                other = float(llh.calculate_ns_grad2(ns=0.5))          # another argument in between
                bs.append(float(llh.calculate_ns_grad2(ns=0.0)))
                ts.append(float(t(pmm=pmm, log_lambda=ll, fitparam_values=fpv, llhratio=llh, grads=grads)))
                bs.append(float(llh.calculate_ns_grad2(ns=0.0)))
                w2 = float(w(pmm=pmm, log_lambda=ll, fitparam_values=fpv))
                p2 = UA.calculate_pval_from_trials(grads, 0.0)
            except Exception as ex:
                ctx.violation(site_t, 'raises-' + exc_name(ex) + '-on-repeated-call',
                              f'evaluation no. {len(ts) + 1} of the zero-ns Taylor TS / calculate_ns_grad2 for the fit result ns = 0 of a trial '
                              f'with {len(R)} selected and {N - len(R)} pure background events raises {exc_name(ex)} directly after evaluate()',
                              case=case, impl=[ts, bs], predicate='the test statistic can be computed for every fit result')
                return
            lines.append(f'taylorreal 1 {fhex(ll)} zs | 1 | {hexs(fpv)} | {hexs(grads)} | | {blocks[0]}')
            checks.append((site_t + '(real ZeroSigH0)', case, ['Ok', ts[0]], 1e-12 * abs(ts[0]) if math.isfinite(ts[0]) else 0.0))
            if b == 0:
                ctx.count('hist:flat-likelihood')
                if any(math.isnan(v) for v in ts):
                    ctx.violation(site_t, 'nan-TS-for-flat-likelihood',
                                  f'all S/B = 1 and no pure background event: a = 0, b = 0, TS = {ts}', case=case, impl=ts,
                                  predicate='the test statistic can be computed for every fit result')
            if len(bits(bs)) != 1:
                ctx.violation(site_b, 'repeated-call-differs',
                              f'calculate_ns_grad2(ns=0) called three times for the same fit result: {bs}', case=case, impl=bs,
                              predicate='the second derivative is a function of the fit result')
            if len(bits(ts)) != 1:
                ctx.violation(site_t, 'repeated-call-differs',
                              f'TS evaluated three times for the same fit result: {ts}', case=case, impl=ts,
                              predicate='the test statistic is a function of the fit result')
            if b != 0:
                want = Fraction(-2) * a * a / (4 * b)
                for k, v in enumerate(ts):
                    if not math.isfinite(v) or abs(Fraction(v) - want) > Fraction(1, 10 ** 11) * abs(want) + Fraction(1, 10 ** 300):
                        ctx.violation(site_t, 'wrong-apex-real-llhratio',
                                      f'call {k + 1}: TS = {v}, documented -2a^2/(4b) = {float(want)}', case=case, impl=ts,
                                      predicate='TS(ns=0) = -2 a^2/(4 b) with a, b the derivatives of log Lambda at ns = 0')
                        break
                for k, v in enumerate(bs):
                    if abs(Fraction(v) - b) > Fraction(1, 10 ** 11) * abs(b):
                        ctx.violation(site_b, 'wrong-second-derivative', f'call {k + 1}: {v}, expected {float(b)}',
                                      case=case, impl=bs)
                        break
            if len(bits([w1, w2, 2 * ll])) != 1 or len(bits([p1[0], p2[0]])) != 1 or len(bits([p1[1], p2[1]])) != 1:
                ctx.violation('WilksTestStatistic.__call__', 'repeated-call-differs', f'{w1} {w2} / {p1} {p2}', case=case)
            if (fpv.tobytes(), grads.tobytes()) != snap or Rarr.tobytes() != rs:
                ctx.violation(site_t, 'argument-array-modified', 'fitparam_values / grads / sample array changed by the calls',
                              case=case)
        # ---- multi dataset: real MultiDatasetTCLLHRatio.calculate_ns_grad2 over the two real single-dataset objects
        f = np.array(case['f'], dtype=np.float64)

        class Svc:
            def get_weights(self):
                return (f.copy(), {})
        multi = object.__new__(L.MultiDatasetTCLLHRatio)
        multi._llhratio_list = [o[1] for o in objs]
        multi._ds_sig_weight_factors_service = Svc()
        pmm = objs[0][0]
        gm = np.array([sum(float(fj) * float(o[3][0]) for fj, o in zip(f, objs))])
        want_b = sum(Fraction(float(fj)) ** 2 * doc_ab(o[4], o[5])[1] for fj, o in zip(f, objs))
        ts, bs = [], []
        try:
            for _ in range(3):
                bs.append(float(multi.calculate_ns_grad2(ns=np.float64(0.0), ns_pidx=0, src_params_recarray=None)))
                ts.append(float(t(pmm=pmm, log_lambda=case['ll'], fitparam_values=fpv, llhratio=multi, grads=gm)))
                w(pmm=pmm, log_lambda=case['ll'], fitparam_values=fpv)
        except Exception as ex:
            ctx.violation('MultiDatasetTCLLHRatio.calculate_ns_grad2', 'raises-' + exc_name(ex) + '-on-repeated-call',
                          'repeated evaluation raises', case=case, impl=[ts, bs])
            return
        if len(bits(bs)) != 1 or len(bits(ts)) != 1:
            ctx.violation('MultiDatasetTCLLHRatio.calculate_ns_grad2', 'repeated-call-differs',
                          f'three calls for the same fit result: b = {bs}, TS = {ts}', case=case, impl=[bs, ts],
                          predicate='the test statistic is a function of the fit result')
        elif want_b != 0 and abs(Fraction(bs[0]) - want_b) > Fraction(1, 10 ** 11) * abs(want_b):
            ctx.violation('MultiDatasetTCLLHRatio.calculate_ns_grad2', 'wrong-second-derivative',
                          f'{bs[0]}, expected sum_j f_j^2 b_j = {float(want_b)}', case=case, impl=bs)
        elif want_b != 0:
            am = Fraction(float(gm[0]))
            want = Fraction(-2) * am * am / (4 * want_b)
            if abs(Fraction(ts[0]) - want) > Fraction(1, 10 ** 11) * abs(want) + Fraction(1, 10 ** 300):
                ctx.violation(site_t, 'wrong-apex-real-llhratio', f'multi-dataset: TS = {ts[0]}, -2a^2/(4b) = {float(want)}',
                              case=case, impl=ts)
        tolm = 1e-12 * abs(ts[0]) if math.isfinite(ts[0]) else 0.0
        lines.append(f'taylorreal 1 {fhex(case["ll"])} md | 1 | {hexs(fpv)} | {hexs(gm)} | {hexs(f)} | ' + ' | '.join(blocks))
        checks.append((site_t + '(real MultiDataset)', case, ['Ok', ts[0]], tolm))
        # ---- real NsProfileMultiDatasetTCLLHRatio.calculate_ns_grad2 over the real multi-dataset object
        npobj = object.__new__(L.NsProfileMultiDatasetTCLLHRatio)
        npobj.llhratio = multi                       # real property setter (type check)
        tn = []
        for _ in range(3):
            tn.append(call(lambda: t(pmm=pmm, log_lambda=case['ll'], fitparam_values=fpv, llhratio=npobj, grads=gm)))
        if any(x[0] != 'Ok' for x in tn) or len(bits([x[1] for x in tn] + [ts[0]])) != 1:
            ctx.violation('NsProfileMultiDatasetTCLLHRatio.calculate_ns_grad2', 'differs-from-wrapped-llhratio',
                          f'TS through the ns-profile function: {tn}, through the wrapped multi-dataset function: {ts[0]}',
                          case=case, impl=tn, predicate='the ns-profile function has the second derivative of the wrapped function')
        lines.append(f'taylorreal 1 {fhex(case["ll"])} np | 1 | {hexs(fpv)} | {hexs(gm)} | {hexs(f)} | ' + ' | '.join(blocks))
        checks.append((site_t + '(real NsProfile)', case, tn[0], tolm))
        # ns is not the first floating parameter: the real NsProfile method rejects the index (its constructor admits one
        # floating parameter only); model: Err ValueError
        pmm2 = build_pmm([('gamma', True), ('ns', True)])
        fpv2, gr2 = np.array([2.0, 0.0]), np.array([0.5, float(gm[0])])
        r2 = call(lambda: t(pmm=pmm2, log_lambda=case['ll'], fitparam_values=fpv2, llhratio=npobj, grads=gr2))
        lines.append(f'taylorreal 1 {fhex(case["ll"])} np | 0 1 | {hexs(fpv2)} | {hexs(gr2)} | {hexs(f)} | ' + ' | '.join(blocks))
        checks.append((site_t + '(real NsProfile, ns index 1)', case, r2))
        # the abstract base method has no body
        try:
            rb = L.TCLLHRatio.calculate_ns_grad2(object(), ns=0.0, ns_pidx=0, src_params_recarray=None)
        except Exception as ex:
            rb = exc_name(ex)
        if rb is not None:
            ctx.violation('TCLLHRatio.calculate_ns_grad2', 'abstract-method-returns-a-value', repr(rb), case=case)


def gen_hist_pval_case(ctx, rng):
    n = rng.choice([1, 2, 5, 20, 200])
    S = 2 ** TS_SHIFT
    b1 = [0 if rng.random() < 0.5 else int(rng.gammavariate(0.5, 2.0) * S) for _ in range(n)]
    b2 = [int((4 + rng.gammavariate(2.0, 2.0)) * S) for _ in range(n)]
    other = [rng.randrange(-S, 9 * S) for _ in range(rng.choice([n, n + 3]))]
    return {'kind': 'hist_pval', 'b1': b1, 'b2': b2, 'other': other, 'thr': sorted({2 * S, 4 * S, rng.choice(b1 + b2)})}


def run_hist_pval_case(ctx, case):
    """repeat probes and 'buffer refilled in place, same object' for the p-value helpers"""
    import skyllh.core.utils.analysis as UA
    ctx.count('hist:pval')
    site = 'calculate_pval_from_trials'
    S = 2 ** TS_SHIFT
    buf = np.empty((len(case['b1']),), dtype=np.float64)
    other = np.array([z2f(v) for v in case['other']], dtype=np.float64)

    def brute(vals, t, op):
        return sum(1 for v in vals if (v > t if op == 'greater' else v >= t)) / len(vals)

    def probe(vals, label, evict):
        for t in case['thr']:
            for op in ('greater', 'greater_equal'):
                snap = buf.tobytes()
                r1 = UA.calculate_pval_from_trials(buf, z2f(t), comp_operator=op)
                if evict:
                    UA.calculate_pval_from_trials(other, z2f(t), comp_operator=op)
                r2 = UA.calculate_pval_from_trials(buf, z2f(t), comp_operator=op)
                r3 = UA.calculate_pval_from_trials_mixed(buf, z2f(t), switch_at_ts=z2f(t) + 1.0, comp_operator=op)
                want = brute(vals, t, op)
                if buf.tobytes() != snap:
                    ctx.violation(site, 'argument-array-modified', 'ts_vals changed by the call', case=case)
                if not (float(r1[0]) == float(r2[0]) == float(r3[0]) == want and float(r1[1]) == float(r2[1]) == float(r3[1])):
                    ctx.violation(site, 'stale-or-irreproducible-after-' + label,
                                  f'{label}, thr={z2f(t)}, {op}: got {tuple(r1)}, {tuple(r2)}, mixed {tuple(r3)}; '
                                  f'fraction of the trials in the array = {want}',
                                  case=case, impl=[list(map(float, r1)), list(map(float, r2)), list(map(float, r3))],
                                  predicate='p = fraction of the CURRENT sample values above the threshold')
    buf[:] = [z2f(v) for v in case['b1']]
    probe(case['b1'], 'first-fill', False)
    buf[:] = [z2f(v) for v in case['b2']]          # same object, same size, new trials
    probe(case['b2'], 'in-place-refill', False)
    probe(case['b2'], 'in-place-refill', True)
    buf[:] = [z2f(v) for v in case['b1']]
    probe(case['b1'], 'in-place-refill', True)


def run_hist_poly_case(ctx, case):
    """polynomial_fit twice on the same arrays, another request in between; arguments unchanged"""
    import skyllh.core.utils.analysis as UA
    ctx.count('hist:poly')
    a_ns, a_p, a_w = np.array(case['ns']), np.array(case['p']), np.array(case['w'])
    snap = (a_ns.tobytes(), a_p.tobytes(), a_w.tobytes())

    def one(deg, thr):
        try:
            with warnings.catch_warnings():
                warnings.simplefilter('ignore')
                return ['Ok', float(UA.polynomial_fit(a_ns, a_p, a_w, deg, thr))]
        except Exception as ex:
            return ['Err', exc_name(ex)]
    r1 = one(case['deg'], case['p_thr'])
    one(3 - case['deg'] if case['deg'] in (1, 2) else 1, 0.5)
    r2 = one(case['deg'], case['p_thr'])
    r3 = one(case['deg'], case['p_thr'])
    same = all(x[0] == r1[0] and (x[1] == r1[1] or (x[0] == 'Ok' and math.isnan(x[1]) and math.isnan(r1[1]))) for x in (r2, r3))
    if not same:
        ctx.violation('polynomial_fit', 'repeated-call-differs', f'{r1} {r2} {r3}', case=case, impl=[r1, r2, r3],
                      predicate='the inversion is a function of its arguments')
    if (a_ns.tobytes(), a_p.tobytes(), a_w.tobytes()) != snap:
        ctx.violation('polynomial_fit', 'argument-array-modified', 'ns / p / p_weight changed by the call', case=case)



# ============================================================== gamma-fit branch of _mixed (REAL fit)

def gen_gamma_case(ctx, rng, adversarial=False):
    S = 2 ** TS_SHIFT
    n = rng.choice([5, 12, 40, 100, 250])
    vals = [0 if rng.random() < 0.5 else int(rng.gammavariate(0.5, 2.0) * S) for _ in range(n)]
    if adversarial:
        vals = sorted(vals, reverse=True)          # large TS values first: the truncated sample is not representative
    sw = rng.choice([S // 2, S, S, 3 * S])
    r = rng.random()
    eta = None if r < 0.7 else rng.choice([sw, sw // 2, sw + S])
    n_max = rng.choice([max(1, n // 5), max(1, n // 5), n, 2 * n, 500000]) if not adversarial else max(1, n // 5)
    if rng.random() < 0.04:
        n_max = rng.choice([0, -1])
    thr = {sw, sw - 1, sw + 1, 0, sw // 2, sw - S // 4}
    thr.update(rng.sample(vals, min(4, n)))
    thr.update(sw + k * S for k in (1, 2, 4, 7, 11))
    thr.update(rng.randrange(0, 14 * S) for _ in range(2))
    if eta is not None:
        thr.add(eta)
    ctx.count(f'gamma:n_max:{"<len" if n_max < n else ("=len" if n_max == n else ">len")}')
    ctx.count('gamma:eta:' + ('default' if eta is None else ('=switch' if eta == sw else ('<switch' if eta < sw else '>switch'))))
    return {'kind': 'gamma', 'vals': vals, 'switch': sw, 'eta': eta, 'n_max': n_max, 'thr': sorted(thr),
            'op': rng.choice(['greater', 'greater_equal', None])}


class _GammaRec:
    """scipy.stats.gamma with the calls of sf recorded (everything else delegated)"""
    def __init__(self, real):
        self._real = real
        self.sf_calls = []

    def sf(self, x, *a, **kw):
        v = self._real.sf(x, *a, **kw)
        self.sf_calls.append((float(x), float(v)))
        if 'a' in kw and 'scale' in kw:
            self.pars = (float(kw['a']), float(kw['scale']))
        return v

    def __getattr__(self, name):
        return getattr(self._real, name)


def check_fit(ctx, case, lines, checks, tail, eta_eff, fit_pars):
    """the fit itself: the real objective against an independent formula and the model's tg_objective; the fitted
    parameters against an independent maximum-likelihood fit of the truncated gamma density on the same tail"""
    import scipy.optimize
    import scipy.stats as st
    import skyllh.core.utils.analysis as UA
    if not tail:
        return
    site = 'truncated_gamma_logpdf'
    x = np.array([z2f(v) for v in tail], dtype=np.float64)
    eta_f = z2f(eta_eff)
    n = len(tail)

    def indep(a, sc):
        return -(float(np.sum(st.gamma.logpdf(x, a, scale=sc))) - n * float(st.gamma.logsf(eta_f, a, scale=sc)))
    with warnings.catch_warnings():
        warnings.simplefilter('ignore')
        for (a, sc) in ((0.75, 1.8), (0.5, 1.0), (2.0, 3.0)):
            try:
                v = float(UA.truncated_gamma_logpdf(a, sc, eta=eta_f, ts_above_eta=x, N_above_eta=n))
            except Exception as ex:
                ctx.violation(site, 'raises-' + exc_name(ex), 'objective raises', case=case)
                return
            w = indep(a, sc)
            if not (math.isfinite(v) and abs(v - w) <= 1e-9 * (1 + abs(w))):
                ctx.violation(site, 'objective-not-the-truncated-gamma-likelihood',
                              f'-logL(a={a}, scale={sc}) = {v}, independent -sum log(pdf/sf(eta)) = {w}', case=case, impl=v,
                              predicate='the gamma fit maximises the likelihood of the gamma density truncated at eta')
            c = float(st.gamma.cdf(eta_f, a, scale=sc))
            sl = float(np.sum(st.gamma.logpdf(x, a, scale=sc)))
            if c < 1:
                lines.append(f'tgobj {fhex(c)} {fhex(sl)} {n}')
                checks.append((site, dict(case, point=(a, sc)), ['Ok', v], 1e-12 * (1 + abs(v))))
        ctx.count('gamma:objective-points', 3)
        if fit_pars is None:
            return
        (a, sc) = fit_pars
        if not (0.1 - 1e-12 <= a <= 10 + 1e-12 and 0.1 - 1e-12 <= sc <= 10 + 1e-12):
            ctx.violation('calculate_pval_from_gammafit_to_trials', 'fit-parameters-outside-the-box', f'a = {a}, scale = {sc}', case=case)
            return
        # same float formulation as documented (so that the optimiser, an oracle, walks the same path): the comparison is
        # about WHAT is maximised from which start values inside which box, not about the quality of L-BFGS-B
        def indep2(pa, ps):
            return -(n * np.log(1. / (1. - st.gamma.cdf(eta_f, a=pa, scale=ps))) + np.sum(st.gamma.logpdf(x, a=pa, scale=ps)))
        f_impl, f_start = float(indep2(a, sc)), float(indep2(0.75, 1.8))
        if math.isfinite(f_impl) and math.isfinite(f_start) and f_impl > f_start + 1e-9 * (1 + abs(f_start)):
            ctx.violation('calculate_pval_from_gammafit_to_trials', 'fit-worse-than-its-start-values',
                          f'fitted (a, scale) = ({a}, {sc}) has -logL = {f_impl}, the documented start values (0.75, 1.8) have {f_start}',
                          case=case, impl=[a, sc],
                          predicate='p above the switch uses a truncated gamma fitted to the tail by maximum likelihood')
        # statistic only (the optimiser is an oracle; L-BFGS-B paths are not reproducible to the last bit near the box edges)
        ind = scipy.optimize.minimize(lambda p: indep2(p[0], p[1]), [0.75, 1.8], bounds=[[0.1, 10], [0.1, 10]])
        agree = math.isfinite(float(ind.fun)) and abs(f_impl - float(ind.fun)) <= 1e-4 * (1 + abs(float(ind.fun)))
        ctx.count('gamma:independent-fit-' + ('agrees' if agree else 'differs'))


def run_gamma_case(ctx, case, lines, checks):
    import skyllh.core.utils.analysis as UA
    vals, sw, eta, n_max, op = case['vals'], case['switch'], case['eta'], case['n_max'], case['op']
    n = len(vals)
    arr = np.array([z2f(v) for v in vals], dtype=np.float64)
    snap = arr.tobytes()
    zs = ' '.join(str(v) for v in vals)
    eta_eff = sw if eta is None else eta
    opw = 'gt' if op == 'greater' else 'ge'
    trunc = vals[:n_max] if n > n_max else vals                      # independent reading of the docstring
    tail = [v for v in trunc if v > eta_eff]
    site = 'calculate_pval_from_trials_mixed'
    results = []
    fit_pars = None
    for t in case['thr']:
        rec = _GammaRec(UA.gamma)
        fit_in = []
        orig_gamma, orig_tg = UA.gamma, UA.truncated_gamma_logpdf

        def tg(a, scale, eta, ts_above_eta, N_above_eta):
            if not fit_in:
                fit_in.append((float(eta), np.array(ts_above_eta, dtype=np.float64).tolist(), int(N_above_eta)))
            return orig_tg(a, scale, eta, ts_above_eta, N_above_eta)
        UA.gamma, UA.truncated_gamma_logpdf = rec, tg
        try:
            kws = {} if op is None else {'comp_operator': op}
            if eta is not None:
                kws['eta'] = z2f(eta)
            with warnings.catch_warnings():
                warnings.simplefilter('ignore')
                r = UA.calculate_pval_from_trials_mixed(arr, z2f(t), switch_at_ts=z2f(sw), n_max=n_max, **kws)
            impl = ['Ok', float(r[0]), float(r[1])]
        except Exception as ex:
            impl = ['Err', exc_name(ex)]
        finally:
            UA.gamma, UA.truncated_gamma_logpdf = orig_gamma, orig_tg
        sub = {'kind': 'gamma', 'vals': vals, 'switch': sw, 'eta': eta, 'n_max': n_max, 'thr': [t], 'op': op}
        regime = 'below' if t < sw else ('at' if t == sw else 'above')
        ctx.count('gamma:' + regime)
        s_eta, s_thr = 1.0, 1.0
        if t >= sw and impl[0] == 'Ok':
            main_calls = [c for c in rec.sf_calls]
            if len(main_calls) < 2 or main_calls[-2][0] != z2f(eta_eff) or main_calls[-1][0] != z2f(t):
                ctx.violation(site, 'survival-function-evaluated-elsewhere',
                              f'gamma.sf called at {[c[0] for c in main_calls[-2:]]}, expected eta={z2f(eta_eff)} and threshold={z2f(t)}',
                              case=sub, impl=impl)
                continue
            s_eta, s_thr = main_calls[-2][1], main_calls[-1][1]
            fit_pars = getattr(rec, 'pars', fit_pars)
            if not (0 < s_eta <= 1 and 0 <= s_thr <= 1 and s_thr <= s_eta * (1 + 1e-12)):
                # the premises of C12_gamma_range / _mono: checked on what the real fit delivered (empty tail included)
                ctx.violation(site, 'fitted-survival-function-violates-contract',
                              f'sf(eta) = {s_eta}, sf(threshold) = {s_thr} ({len(tail)} values in the tail)', case=sub, impl=impl,
                              predicate='0 < sf(eta) <= 1, 0 <= sf(t) <= sf(eta) for t >= eta')
                continue
            # what was handed to the fit
            if fit_in and (fit_in[0][1] != [z2f(v) for v in tail] or fit_in[0][2] != len(tail) or fit_in[0][0] != z2f(eta_eff)):
                ctx.violation(site, 'fit-input-not-the-tail-of-the-truncated-sample',
                              f'fit got {fit_in[0][2]} values above eta={fit_in[0][0]}, the first n_max trials have {len(tail)}',
                              case=sub, impl=impl, predicate='the tail is selected from the trials used for the fit')
        lines.append(f'mixedfull {opw} {t} {sw} {"-" if eta is None else eta} {n_max} {fhex(s_eta)} {fhex(s_thr)} | {zs}')
        checks.append(('calculate_pval_from_trials_mixed.full', sub, impl))
        if impl[0] != 'Ok':
            legal = n > 0 and (t < sw or t >= eta_eff) and (t < sw or len(trunc) > 0)
            if legal:
                ctx.violation(site, 'raises-' + impl[1], f'raises for a legal input (threshold {regime} the switch)', case=sub, impl=impl)
            continue
        p = impl[1]
        if not (-1e-12 <= p <= 1 + 1e-12):
            ctx.violation(site, 'out-of-range', f'p({z2f(t)}) = {p} ({regime} the switch, {n} trials, n_max = {n_max})',
                          case=sub, impl=impl, predicate='p in [0,1]')
        if t >= sw and t == eta_eff and len(trunc) > 0:
            want = len(tail) / len(trunc)
            if abs(p - want) > 1e-12 * max(want, 1e-300):
                ctx.violation(site, 'gamma-value-at-eta-not-the-tail-fraction',
                              f'p(eta) = {p}, tail fraction of the trials used = {len(tail)}/{len(trunc)}', case=sub, impl=impl,
                              predicate='at eta the gamma-fit p-value equals the fraction of trials above eta')
        results.append((t, regime, p))
    # monotonicity over the sorted thresholds
    for (t0, r0, p0), (t1, r1, p1) in zip(results, results[1:]):
        if p1 <= p0 + 1e-12 * max(1.0, p0):
            continue
        pair = {'kind': 'gamma', 'vals': vals, 'switch': sw, 'eta': eta, 'n_max': n_max, 'thr': [t0, t1], 'op': op}
        if r0 == 'below' and r1 != 'below':
            if eta is not None and eta != sw:
                ctx.count('gamma:increase-across-switch-with-explicit-eta(not promised)')
            elif n > n_max:
                ctx.violation(site, 'increases-across-switch-truncated-sample',
                              f'p({z2f(t0)}) = {p0} < p({z2f(t1)}) = {p1} with {n} trials and n_max = {n_max}',
                              case=pair, impl=[p0, p1], predicate='p non-increasing in the threshold')
            else:
                ctx.violation(site, 'increases-across-switch', f'p({z2f(t0)}) = {p0} < p({z2f(t1)}) = {p1}',
                              case=pair, impl=[p0, p1], predicate='p non-increasing in the threshold')
        else:
            ctx.violation(site, 'not-monotone-' + r1 + '-switch', f'p({z2f(t0)}) = {p0} < p({z2f(t1)}) = {p1}',
                          case=pair, impl=[p0, p1], predicate='p non-increasing in the threshold')
    check_fit(ctx, case, lines, checks, tail, eta_eff, fit_pars)
    # repeat probe on the unpatched function + arguments unchanged
    ts_rep = [t for t in case['thr'] if t >= max(sw, eta_eff)][:1]
    for t in ts_rep:
        try:
            with warnings.catch_warnings():
                warnings.simplefilter('ignore')
                kws = {} if eta is None else {'eta': z2f(eta)}
                a1 = UA.calculate_pval_from_trials_mixed(arr, z2f(t), switch_at_ts=z2f(sw), n_max=n_max, **kws)
                a2 = UA.calculate_pval_from_trials_mixed(arr, z2f(t), switch_at_ts=z2f(sw), n_max=n_max, **kws)
            if len(bits([a1[0], a2[0]])) != 1:
                ctx.violation(site, 'repeated-call-differs', f'{a1} {a2}', case=case)
        except Exception:
            pass
    if arr.tobytes() != snap:
        ctx.violation(site, 'argument-array-modified', 'ts_vals changed by the call', case=case)


# ============================================================== driver

def canon_impl(site, impl):
    return impl


def compare(ctx, checks, out):
    for chk, line in zip(checks, out):
        (site, case, impl) = chk[:3]
        ctx.corr_cases += 1
        if len(chk) > 3:
            model = parse_res(line)
            tol = chk[3]
            if tol is None:
                ctx.count('poly:ill-conditioned-not-compared')
                if impl[0] != model[0]:
                    ctx.disagree(site, case, impl, model)
            elif not (res_eq(impl, model) or (impl[0] == model[0] == 'Ok' and math.isfinite(impl[1])
                                              and math.isfinite(model[1]) and abs(impl[1] - model[1]) <= tol)):
                ctx.disagree(site, case, impl, model)
            continue
        if site == 'calculate_ns_grad2.signature':
            model = line.strip()
            if model != impl:
                ctx.disagree(site, case, impl, model)
            continue
        if site == 'calculate_pval_from_trials_mixed.full':
            w = line.split()
            if w and w[0] == 'Ok':
                model = ['Ok', float.fromhex(w[1]) if w[1] not in ('nan', 'inf', '-inf') else float(w[1]), float.fromhex(w[2])]
            elif w and w[0] == 'Err':
                model = ['Err', w[1]]
            else:
                model = ['unparsed', line]
            if not res_eq(impl, model):
                ctx.disagree(site, case, impl, model)
            continue
        if site == 'calculate_pval_from_trials_mixed':
            w = line.split()
            if w and w[0] == 'T':
                k, n = int(w[1]), int(w[2])
                ok = impl[0] == 'T' and feq(impl[1], k / n) and feq(impl[2], math.sqrt((k / n) * (1 - k / n) / n))
                model = ['T', k, n]
            elif w and w[0] == 'G':
                model = ['G', int(w[1]), int(w[2]), int(w[3])]
                ok = impl == model
            elif w and w[0] == 'Err':
                model = ['Err', w[1]]
                ok = impl == model
            else:
                model, ok = ['unparsed', line], False
            if not ok:
                ctx.disagree(site, case, impl, model)
            continue
        model = parse_res(line)
        if not res_eq(impl, model):
            ctx.disagree(site, case, impl, model)


def corpus_cases():
    """regression corpus: the input of the defect fixed in /repo by b047c50 (every fit result with ns == 0 raised
    TypeError in the Taylor variant) and boundary inputs of the p-value helpers"""
    base = {'kind': 'ts', 'layout': [('gamma', True), ('fx0', False), ('ns', True)], 'ns_name': 'ns',
            'fpv': [2.0, 0.0], 'grads': [0.5, 3.0], 'll': 0.0, 'kw': 'both', 'regime': 'zero', 'malformed': None}
    out = []
    for k in range(4):
        out.append(dict(base, sig=k, body=['B', -2.0]))
    out.append(dict(base, sig=1, body=['real', [0.5, 0.25, -0.125], 3, 5]))
    out.append(dict(base, sig=1, body=['real', None, 3, 5]))
    out.append(dict(base, sig=2, body=['B', -2.0], fpv=[2.0, -0.0], regime='negzero'))
    out.append(dict(base, sig=2, body=['B', -2.0], fpv=[2.0, -1.5], ll=4.25, regime='neg'))
    out.append(dict(base, sig=2, body=['B', -2.0], fpv=[2.0, 1.5], ll=4.25, regime='pos', kw='none'))
    S = 2 ** TS_SHIFT
    out.append({'kind': 'pval', 'vals': [4 * S, 0, 4 * S, 9 * S, 0, 4 * S], 'thr': [-S, 0, 1, 4 * S - 1, 4 * S, 4 * S + 1, 9 * S, 10 * S],
                'switch': 4 * S, 'eta': None, 'n_max': 500000, 'bad_op': True})
    out.append({'kind': 'pval', 'vals': [4 * S], 'thr': [4 * S - 1, 4 * S, 4 * S + 1], 'switch': 3 * S, 'eta': 2 * S,
                'n_max': 7, 'bad_op': True})
    out.append({'kind': 'pval', 'vals': [], 'thr': [0, S], 'switch': 3 * S, 'eta': None, 'n_max': 500000, 'bad_op': True})
    out.append({'kind': 'poly', 'ns': [0.0, 1.0, 2.0, 3.0, 4.0, 5.0], 'p': [0.5, 0.7, 0.82, 0.9, 0.94, 0.96],
                'w': [10.0] * 6, 'deg': 2, 'p_thr': 0.9})
    out.append({'kind': 'poly', 'ns': [0.0, 1.0, 2.0, 3.0, 4.0, 5.0], 'p': [0.5, 0.7, 0.82, 0.9, 0.94, 0.96],
                'w': [10.0] * 6, 'deg': 2, 'p_thr': 0.999})          # above the apex: no solution
    out.append({'kind': 'poly', 'ns': [0.0, 1.0, 2.0, 3.0, 4.0], 'p': [0.2, 0.25, 0.4, 0.6, 0.9],
                'w': [10.0] * 5, 'deg': 2, 'p_thr': 0.5})            # convex: falls back to degree 1
    out.append({'kind': 'poly', 'ns': [0.0, 1.0, 2.0], 'p': [0.2, 0.5, 0.9], 'w': [1.0] * 3, 'deg': 2, 'p_thr': 0.5})
    # gamma-fit branch: more trials than n_max (seeded C12-6: tail selected before the truncation); the sorted sample is
    # the deterministic witness of the open finding (p increases across the switch for a truncated sample)
    out.append({'kind': 'gamma', 'vals': [int(v * S) for v in (0, 2.5, 0, 0.25, 4.0, 0, 1.5, 0, 0.75, 6.0, 0, 0, 3.0, 0.1, 0, 2.0, 0, 0, 8.0, 0.5)] * 5,
                'switch': S, 'eta': None, 'n_max': 20, 'thr': [0, S // 2, S - 1, S, S + 1, 2 * S, 4 * S, 8 * S], 'op': None})
    out.append({'kind': 'gamma', 'vals': [8 * S, 6 * S, 5 * S, 3 * S, 2 * S] + [0] * 15, 'switch': S, 'eta': None, 'n_max': 5,
                'thr': [0, S - 1, S, 2 * S, 5 * S], 'op': 'greater'})
    # history probes (seeded C12-3: cache squared in place; seeded C12-4: sorted-trials memo keyed by id/size)
    out.append({'kind': 'hist_ts', 'R': [0.2, 0.5, 1.0, 1.7, 3.0, 0.05, 0.9, 12.0, 0.4, 0.0], 'N': 25,
                'R2': [0.3, 2.5, 0.9], 'N2': 7, 'f': [0.25, 0.75], 'll': 0.0})
    # the event selection left no event (n_selected = 0, n_events = 25): a = -1, b = -1/N, TS = N/2 (seeded C12-8: an early
    # return of the cache producer left the ns-gradient cache unset -> RuntimeError); also as second data set
    out.append({'kind': 'hist_ts', 'R': [], 'N': 25, 'R2': [0.3, 2.5, 0.9], 'N2': 7, 'f': [0.25, 0.75], 'll': 0.0})
    out.append({'kind': 'hist_ts', 'R': [0.2, 0.5, 1.0, 1.7], 'N': 9, 'R2': [], 'N2': 4, 'f': [0.5, 0.5], 'll': 0.0})
    # flat likelihood (all S/B = 1, no pure background event): a = b = 0 -> NaN (open finding, hit on every run)
    out.append({'kind': 'hist_ts', 'R': [1.0, 1.0, 1.0], 'N': 3, 'R2': [0.3, 2.5, 0.9], 'N2': 7, 'f': [0.5, 0.5], 'll': 0.0})
    out.append({'kind': 'hist_pval', 'b1': [0, 0, S // 2, S, 0, 3 * S], 'b2': [5 * S, 6 * S, 9 * S, 4 * S, 7 * S, 5 * S],
                'other': [S, 2 * S, 3 * S, 4 * S, 5 * S, 6 * S], 'thr': [2 * S, 4 * S]})
    return out


def run_one(ctx, case, lines, checks):
    k = case.get('kind')
    if k == 'ts':
        run_ts_case(ctx, case, lines, checks)
    elif k == 'pval':
        run_pval_case(ctx, case, lines, checks)
    elif k == 'poly':
        run_poly_case(ctx, case, lines, checks)
        if case.get('probe'):
            run_hist_poly_case(ctx, case)
    elif k == 'gamma':
        run_gamma_case(ctx, case, lines, checks)
    elif k == 'hist_ts':
        run_hist_ts_case(ctx, case, lines, checks)
    elif k == 'hist_pval':
        run_hist_pval_case(ctx, case)
    else:
        raise ValueError(f'unknown case kind {k}')


def evaluate_model(ctx, lines, checks):
    exe = common.ocaml_build(ctx, 'c12') if ctx.model_ok else None
    if exe is None:
        ctx.notes.append('model did not build: implementation-only predicates were evaluated')
        return
    try:
        out = common.ocaml_run(exe, lines)
    except RuntimeError as ex:
        ctx.broken.append({'kind': 'model-eval', 'error': str(ex)[:1500]})
        return
    if len(out) != len(lines):
        ctx.broken.append({'kind': 'model-eval', 'error': f'{len(out)} results for {len(lines)} cases'})
        return
    compare(ctx, checks, out)


def coq_crosscheck(ctx, cases):
    """the counting part evaluated inside Coq (vm_compute) against the extracted code and brute force"""
    imports = ('From Coq Require Import ZArith List. Import ListNotations. Open Scope Z_scope.\n'
               'From Sky Require Import Result PyList M_Stat.\n')
    exprs, want = [], []
    for c in cases:
        vals = c['vals']
        for t in c['thr'][:4]:
            for op, f in (('Greater', lambda v, t: v > t), ('GreaterEqual', lambda v, t: v >= t)):
                exprs.append(f'pval_counts {op} {common.zlist(vals)} {common.zlit(t)}')
                want.append(('Ok', (sum(1 for v in vals if f(v, t)), len(vals))) if vals else ('Err', 'ZeroDivision'))
        if len(exprs) >= 380:
            break
    if not exprs:
        return
    try:
        got = common.coq_eval('c12', imports, exprs[:400])
    except RuntimeError as ex:
        ctx.broken.append({'kind': 'model-eval', 'error': str(ex)[:1500]})
        return
    for e, g, w in zip(exprs, got, want):
        ctx.corr_cases += 1
        g2 = (g[0], tuple(g[1])) if isinstance(g, tuple) and g[0] == 'Ok' else g
        if g2 != w:
            ctx.disagree('pval_counts.vm_compute', {'kind': 'coq', 'expr': e}, list(w), repr(g))
    ctx.count('coq-vm_compute-crosschecks', len(exprs[:400]))


def check_manual(ctx):
    """S_Stat.v is a hand transcription of doc/user_manual.tex (eq. TS and the ns = 0 expression): pin the source text"""
    import os
    import re
    try:
        tex = open(os.path.join(common.REPO, 'doc', 'user_manual.tex')).read()
    except OSError as ex:
        ctx.broken.append({'kind': 'spec-source', 'error': f'doc/user_manual.tex not readable: {ex}'})
        return
    flat = re.sub(r'\s+', '', tex)
    want = [r'\mathrm{TS}=2\mathrm{sgn}(\hatns)\log\Lambda(\hatns,\hatps),',
            r'\mathrm{TS}=-2\frac{\left(\frac{\mathrm{d}\log\Lambda(\ns=0,\ps=\hatps)}{\mathrm{d}\ns}\right)^2}'
            r'{4\frac{\mathrm{d}^2\log\Lambda(\ns=0,\ps=\hatps)}{\mathrm{d}\ns^2}}.']
    for wtxt in want:
        if wtxt not in flat:
            ctx.broken.append({'kind': 'spec-source', 'error': 'doc/user_manual.tex no longer contains the equation transcribed in '
                               'coq/spec/S_Stat.v: ' + wtxt[:80]})
    ctx.count('manual-equations-pinned', len(want))


def run(ctx):
    check_manual(ctx)
    rng = ctx.rng
    lines, checks = [], []
    cases = corpus_cases()
    n_ts = ctx.budget(1500, 30000)
    n_pv = ctx.budget(300, 6000)
    n_po = ctx.budget(1200, 25000)
    for regime in ['neg', 'zero', 'negzero', 'pos', 'nan', 'inf']:
        for _ in range(ctx.budget(10, 100)):
            cases.append(gen_ts_case(ctx, rng, force=regime))
    for _ in range(n_ts):
        cases.append(gen_ts_case(ctx, rng))
    for n in range(0, 8):
        cases.append(gen_pval_case(ctx, rng, n))
    for _ in range(n_pv):
        cases.append(gen_pval_case(ctx, rng))
    for i in range(n_po):
        c = gen_poly_case(ctx, rng)
        if i % 10 == 0:
            c['probe'] = True
        cases.append(c)
    for i in range(ctx.budget(24, 400)):
        cases.append(gen_gamma_case(ctx, rng, adversarial=(i % 6 == 5)))
    for _ in range(ctx.budget(40, 400)):
        cases.append(gen_hist_ts_case(ctx, rng))
    for _ in range(ctx.budget(30, 300)):
        cases.append(gen_hist_pval_case(ctx, rng))
    run_sig_cases(ctx, lines, checks)
    for c in cases:
        ctx.case(c)
        run_one(ctx, c, lines, checks)
    for c in cases[:3] + [c for c in cases if c['kind'] == 'pval'][:1] + [c for c in cases if c['kind'] == 'poly'][:2]:
        ctx.sample(c)
    evaluate_model(ctx, lines, checks)
    if ctx.model_ok:
        coq_crosscheck(ctx, [c for c in cases if c['kind'] == 'pval'])


def replay(ctx, rp):
    c = rp.get('case') or {}
    kind = c.get('kind')
    if kind == 'pval1':
        c = {'kind': 'pval', 'vals': c['vals'], 'thr': sorted({c['thr']} | ({c['prev_thr']} if 'prev_thr' in c else set())),
             'switch': c['thr'] + 1, 'eta': None, 'n_max': 500000, 'bad_op': c.get('op') == 'less'}
    elif kind == 'mixed1':
        c = {'kind': 'pval', 'vals': c['vals'], 'thr': [c['thr']], 'switch': c['switch'], 'eta': c['eta'],
             'n_max': c['n_max'], 'bad_op': False}
    elif kind not in ('ts', 'pval', 'poly', 'hist_ts', 'hist_pval', 'gamma'):
        ctx.notes.append('replay file has no concrete input (broken obligation / signature table): re-running the full check')
        return run(ctx)
    c.pop('variant', None)
    lines, checks = [], []
    ctx.case(c)
    run_one(ctx, c, lines, checks)
    evaluate_model(ctx, lines, checks)
