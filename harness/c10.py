"""C10 — every constructed probability density is non-negative and normalised.

Correspondence: the REAL skyllh classes (SignalTimePDF, BackgroundTimePDF over
Livetime and Box/GaussianTimeFluxProfile; I3EnergyPDF; BackgroundI3SpatialPDF;
GaussianPSFPointLikeSourceSignalSpatialPDF) against coq/model/M_Pdf.v — the
real-valued parts executed on IEEE doubles through extraction (ocaml/c10), the
index / range logic by vm_compute over Z on dyadic inputs.
Predicates (failing-input search): the property itself evaluated on the
implementation with independent oracles — numerical quadrature of get_pd over
the on-time intervals / the log10(E) range / the disc, brute-force on-time
membership, non-negativity, and "accepted by the validity check => get_pd
returns a value"."""
import math
import warnings

import numpy as np

from harness import common
from harness.common import zlit, zlist

GEN_MODULES = ['pdf', 'livetime']
MODEL_TARGETS = ['model/M_Pdf.vo', 'model/M_PdfState.vo', 'model/M_PdfExt.vo']
PROOF_TARGETS = ['proofs/P_PdfTime.vo', 'proofs/P_Pdf.vo', 'proofs/P_PdfBridge.vo', 'proofs/P_PdfState.vo',
                 'proofs/P_PdfExt.vo', 'proofs/P_PdfSmooth.vo']
LEVEL = 'proof'
RULE = ('time PDFs: interval lists with 1..30 intervals (touching, zero-length, tiny/huge gaps) x box and gaussian '
        'profiles of every placement (inside one interval, spanning gaps, in a gap, before/after the live time, '
        'covering everything, edges on interval edges, zero width); histogram PDFs: random MC on dyadic grids with '
        'empty bins, empty bands, zero physics weights and events exactly on inner and outermost bin edges, with '
        'and without smoothing; PSF: random sigma and separations; a case is non-trivial when it has >= 1 interval '
        '/ >= 1 MC event and is distinct by input hash')
TRUSTED = [
    'Coq 8.16.1 kernel incl. vm_compute (no native_compute)',
    'axioms printed by Print Assumptions: ClassicalDedekindReals.sig_not_dec, sig_forall_dec, '
    'functional_extensionality_dep, Classical_Prop.classic (Coq reals + Coquelicot); the Z-valued lookup theorems '
    'are closed under the global context',
    'premise of the gaussian-profile theorems: erf has derivative 2/sqrt(pi) exp(-x^2) (scipy.special.erf is '
    'external code; C10_erf_exists shows the premise is satisfiable)',
    'translator/py2coq.py: per-element reading of the numpy formulas (80 kernels of G_pdf.v incl. 21 statement-skeleton pins, each '
    'pinned by a characterising lemma K_* or used definitionally)',
    'hand model M_Pdf.v of masks / reductions / array plumbing, validated by this correspondence; '
    'Livetime.is_on and get_uptime_intervals_between enter through their closed forms, proved equal to the C14 '
    'model of the code on integer-valued inputs (P_PdfBridge.v)',
    'extraction (ExtrOcamlBasic only) + hand-written OCaml driver and float record (ocaml/common/numf.ml)',
    'theorems are about the real-number reading; float rounding (incl. numpy pairwise summation, libm erf/exp) is '
    'outside the theorems and is bounded only empirically by the correspondence tolerances',
    'np.histogram / np.histogram2d binning convention (half-open bins, last bin closed) is checked against the '
    'model binning on every case but is numpy code; scipy InterpolatedUnivariateSpline interpolates its knots '
    '(oracle); the smoothed histogram (scipy.signal.convolve) is covered by predicates only',
    'S = 0 (window without on-time) and empty declination bands give inf/NaN in the code: stated as theorems at the '
    'extended-real instance M_PdfExt.v (IEEE-style special values, no signed zeros; transcendental fields only lifted); '
    'the normalisation theorems are guarded by S <> 0 / non-zero band content (witnesses show the guards are needed) and '
    'the predicates skip those cases (counted)',
    'oracles as Section hypotheses / readings: the log-spline interpolates its nodes (C10_spline_midpoint); '
    'scipy.signal.convolve(mode="same") is the centred finite sum (smooth1, compared with the real class on every run)',
]

UNIT = 2 ** 20
SCALE = 2 ** 23            # model integer = float * SCALE (time PDFs use floats directly)
IMPORTS = ('From Coq Require Import ZArith List. Import ListNotations. Open Scope Z_scope.\n'
           'From Sky Require Import Result PyList M_Pdf.\n')

fh = common.fhex


def pf(s):
    if s == 'nan':
        return math.nan
    if s == 'inf':
        return math.inf
    if s == '-inf':
        return -math.inf
    return float.fromhex(s)


def same(a, b, tol, scale=1.0):
    """float agreement: NaN == NaN, infinities equal, else |a-b| <= tol*scale"""
    if math.isnan(a) or math.isnan(b):
        return math.isnan(a) and math.isnan(b)
    if math.isinf(a) or math.isinf(b):
        return a == b
    return abs(a - b) <= tol * max(scale, abs(a), abs(b), 1e-300)


# ============================================================================ time PDFs

def gen_intervals(rng, n, origin):
    """dyadic edges (multiples of 1/8 day): exact in float64"""
    edges = []
    t = origin * 8
    for i in range(n):
        if i > 0:
            r = rng.random()
            gap = 0 if r < 0.25 else 1 if r < 0.5 else rng.randint(2, 40) if r < 0.9 else rng.randint(1000, 100000)
            t += gap
        r = rng.random()
        w = 0 if r < 0.1 else 1 if r < 0.35 else rng.randint(2, 60)
        edges.append((t / 8.0, (t + w) / 8.0))
        t += w
    return edges


def gen_profile(rng, ivs):
    lo, hi = ivs[0][0], ivs[-1][1]
    pos = [iv for iv in ivs if iv[1] - iv[0] >= 0.25]
    gaps = [(ivs[i][1], ivs[i + 1][0]) for i in range(len(ivs) - 1) if ivs[i + 1][0] - ivs[i][1] >= 0.25]
    edges = sorted({e for iv in ivs for e in iv})
    place = rng.choice(['inside', 'inside', 'span', 'span', 'span', 'gap', 'before', 'after', 'cover', 'cover', 'edges',
                        'edges', 'zero', 'random', 'random', 'random', 'partly-out', 'partly-out'])
    q = 1.0 / 16
    if place == 'span' and len(ivs) >= 2:
        i = rng.randrange(len(ivs) - 1)
        j = rng.randrange(i + 1, len(ivs))
        ts = ivs[i][0] + q * rng.randint(-2, max(0, int((ivs[i][1] - ivs[i][0]) / q)))
        te = ivs[j][0] + q * rng.randint(0, max(0, int((ivs[j][1] - ivs[j][0]) / q)) + 2)
        te = max(te, ts)
        kind = rng.choice(['box', 'box', 'gauss'])
        if kind == 'box':
            return {'kind': 'box', 'place': place, 't0': 0.5 * (ts + te), 'tw': te - ts}
        return {'kind': 'gauss', 'place': place, 't0': 0.5 * (ts + te),
                'sigma': rng.choice([q, 0.25, 1.0, 3.0, max(q, (te - ts) / 4), 40.0])}
    if place == 'inside' and pos:
        a, b = rng.choice(pos)
        ts = a + q * rng.randint(0, int((b - a) / q) - 1)
        te = ts + q * rng.randint(1, max(1, int((b - ts) / q)))
    elif place == 'gap' and gaps:
        a, b = rng.choice(gaps)
        ts = a + q * rng.randint(0, int((b - a) / q) - 1)
        te = ts + q * rng.randint(0, max(0, int((b - ts) / q)))
    elif place == 'before':
        te = lo - q * rng.randint(0, 40)
        ts = te - q * rng.randint(0, 80)
    elif place == 'after':
        ts = hi + q * rng.randint(0, 40)
        te = ts + q * rng.randint(0, 80)
    elif place == 'cover':
        ts, te = lo - 2.0, hi + 2.0
    elif place == 'edges':
        ts = rng.choice(edges)
        te = rng.choice([e for e in edges if e >= ts])
    elif place == 'zero':
        ts = te = rng.choice(edges) + q * rng.randint(-1, 1)
    elif place == 'partly-out':
        ts = lo - q * rng.randint(1, 60)
        te = lo + q * rng.randint(1, max(2, int(min(hi - lo, 200) / q)))
    else:
        place = 'random' if place not in ('inside', 'gap') else place + '->random'
        span = min(hi - lo, 400.0)
        ts = lo - 1.0 + q * rng.randint(0, int((span + 2.0) / q))
        te = ts + q * rng.randint(0, int((span + 2.0) / q))
    kind = rng.choice(['box', 'box', 'gauss'])
    if kind == 'box':
        # t0, tw chosen so that t0 -/+ tw/2 are exact
        return {'kind': 'box', 'place': place, 't0': 0.5 * (ts + te), 'tw': te - ts}
    sigma = rng.choice([q / 4, q, 0.25, 1.0, 3.0, max(q, (te - ts) / 4 or q), 40.0])
    return {'kind': 'gauss', 'place': place, 't0': 0.5 * (ts + te), 'sigma': sigma}


def make_tdm(times):
    from unittest.mock import Mock
    from skyllh.core.trialdata import TrialDataManager
    n = len(times)
    tdm = Mock(spec_set=['__class__', 'trial_data_state_id', 'get_n_values', 'src_evt_idxs', 'n_sources',
                         'n_selected_events', 'get_data'])
    tdm.__class__ = TrialDataManager
    tdm.trial_data_state_id = 1
    tdm.get_n_values = lambda: n
    tdm.src_evt_idxs = (np.zeros(n, dtype=np.int64), np.arange(n))
    tdm.n_sources = 1
    tdm.n_selected_events = n
    tdm.get_data = lambda key: times
    return tdm


class TimeEnv:
    def __init__(self):
        from skyllh.core.config import Config
        from skyllh.core.parameters import ParameterModelMapper
        from skyllh.core.source_model import SourceModel
        self.cfg = Config()
        self.pmm = ParameterModelMapper(models=[SourceModel()])
        self.rec = self.pmm.create_src_params_recarray(gflp_values=[])


def build_time(env, case):
    from skyllh.core.livetime import Livetime
    from skyllh.core.flux_model import BoxTimeFluxProfile, GaussianTimeFluxProfile
    from skyllh.core.signalpdf import SignalTimePDF
    from skyllh.core.backgroundpdf import BackgroundTimePDF
    ivs = case['ivs']
    lt = Livetime(np.array(ivs, dtype=np.float64).reshape((len(ivs), 2)))
    p = case['profile']

    def mk():
        if p['kind'] == 'box':
            return BoxTimeFluxProfile(t0=p['t0'], tw=p['tw'], cfg=env.cfg)
        return GaussianTimeFluxProfile(t0=p['t0'], sigma_t=p['sigma'], cfg=env.cfg)
    prof = mk()
    sig = SignalTimePDF(pmm=env.pmm, livetime=lt, time_flux_profile=prof, cfg=env.cfg)
    bkg = BackgroundTimePDF(livetime=lt, time_flux_profile=mk(), cfg=env.cfg)
    return lt, prof, sig, bkg


def eval_time(env, sig, bkg, times, rec=None):
    times = np.asarray(times, dtype=np.float64)
    tdm = make_tdm(times)
    with np.errstate(all='ignore'), warnings.catch_warnings():
        warnings.simplefilter('ignore')
        (pd_s, grads) = sig.get_pd(tdm=tdm, params_recarray=env.rec if rec is None else rec)
        bkg.initialize_for_new_trial(tdm)
        (pd_b, _) = bkg.get_pd(tdm)
    return np.array(pd_s, dtype=np.float64), np.array(pd_b, dtype=np.float64)


def brute_on(ivs, t):
    return any(l <= t < u for l, u in ivs)


_GL = np.polynomial.legendre.leggauss(16)


def quad_nodes(ivs, brk):
    """Gauss-Legendre nodes/weights on every piece of every up-time interval cut at the break points"""
    xs, ws = [], []
    for l, u in ivs:
        if not u > l:
            continue
        pts = sorted({l, u} | {b for b in brk if l < b < u})
        for a, b in zip(pts, pts[1:]):
            h = 0.5 * (b - a)
            xs.append(0.5 * (a + b) + h * _GL[0])
            ws.append(h * _GL[1])
    if not xs:
        return np.zeros(0), np.zeros(0)
    return np.concatenate(xs), np.concatenate(ws)


def time_case(ctx, env, case, lines, checks):
    ivs = [tuple(iv) for iv in case['ivs']]
    p = case['profile']
    cdesc = {'kind': 'time', 'ivs': ivs, 'profile': p}
    try:
        lt, prof, sig, bkg = build_time(env, case)
    except Exception as ex:
        ctx.violation('TimePDF.__init__', 'raises-' + type(ex).__name__, f'constructor raised: {ex}', case=cdesc)
        return
    ts, te = float(prof.t_start), float(prof.t_stop)
    edges = sorted({e for iv in ivs for e in iv})
    probes = set()
    for e in edges[:40] + [ts, te, 0.5 * (ts + te)]:
        probes.update([e, e - 1.0 / 32, e + 1.0 / 32])
    for l, u in ivs[:20]:
        probes.add(0.5 * (l + u))
    probes.update([edges[0] - 5.0, edges[-1] + 5.0])
    probes = sorted(probes)
    pd_s, pd_b = eval_time(env, sig, bkg, probes)
    S_impl = float(sig._S)
    Sb_impl = float(bkg._S)
    # ---- model line
    def model_line(pr, pts):
        if p['kind'] == 'box':
            head = ['T', 'box', fh(float(pr.t_start)), fh(float(pr.t_stop))]
        else:
            head = ['T', 'gauss', fh(float(pr.t_start)), fh(float(pr.t_stop)), fh(float(pr.sigma_t))]
        return ' '.join(head + [str(len(ivs))] + [fh(x) for iv in ivs for x in iv] + [str(len(pts))] + [fh(t) for t in pts])
    lines.append(model_line(prof, probes))
    checks.append(('time', cdesc, {'S': S_impl, 'Sb': Sb_impl, 'probes': probes, 'sig': pd_s.tolist(), 'bkg': pd_b.tolist()}))
    def do_update():
        # ---- the same SignalTimePDF object after a parameter update through params_recarray (S must follow)
        p2 = case.get('update')
        if p2 is not None:
            if p['kind'] == 'box':
                rec2 = np.array([(p2['t0'], p2['tw'])], dtype=[('t0', np.float64), ('tw', np.float64)])
            else:
                rec2 = np.array([(p2['t0'], p2['sigma'])], dtype=[('t0', np.float64), ('sigma_t', np.float64)])
            pts2 = sorted(set(probes) | {p2['t0'], float(p2['t0']) + 1.0 / 32})
            try:
                pd2, _ = eval_time(env, sig, bkg, pts2, rec=rec2)
                S2 = float(sig._S)
                cd2 = dict(cdesc, update=p2)
                lines.append(model_line(prof, pts2))
                checks.append(('time', cd2, {'S': S2, 'Sb': S2, 'probes': pts2, 'sig': pd2.tolist(), 'bkg': pd2.tolist()}))
                ctx.count('time-param-update')
                # predicate: no dependence on the earlier parameter values (fresh object gives the same density)
                fresh_case = {'ivs': ivs, 'profile': dict(p2, kind=p['kind'])}
                _, prof_f, sig_f, bkg_f = build_time(env, fresh_case)
                if (float(prof_f.t_start), float(prof_f.t_stop)) == (float(prof.t_start), float(prof.t_stop)):
                    pdf_, _ = eval_time(env, sig_f, bkg_f, pts2)
                    if not all(same(a, b, 1e-12) for a, b in zip(pd2.tolist(), pdf_.tolist())):
                        ctx.violation('SignalTimePDF.get_pd', 'stale-normalisation-after-parameter-update',
                                      'density after set_params differs from a freshly constructed PDF with the same parameters',
                                      case=cd2, impl=pd2.tolist()[:8], model=pdf_.tolist()[:8],
                                      predicate='pd depends on the current parameters only')
                    ctx.count('time-param-update-fresh-compared')
            except Exception as ex:
                ctx.violation('SignalTimePDF.get_pd', 'raises-' + type(ex).__name__, f'get_pd with updated parameters raised: {ex}',
                              case=dict(cdesc, update=p2))

    ctx.count('time:' + p['kind'])
    ctx.count('time-place:' + p['place'])
    ctx.count(f'time-n:{len(ivs)}')
    # ---- predicates on the implementation (independent oracle)
    for name, pdv in (('SignalTimePDF', pd_s), ('BackgroundTimePDF', pd_b)):
        for t, v in zip(probes, pdv.tolist()):
            if not brute_on(ivs, t) and not v == 0.0:
                ctx.violation(name + '.get_pd', 'nonzero-off-time', f'pd({t}) = {v} during detector off-time',
                              case=dict(cdesc, t=t), impl=v, predicate='pd(t) = 0 for t outside every [l,u)')
    if not (S_impl > 0 and math.isfinite(S_impl)):
        ctx.count('time-S-zero')
        # OPEN FINDING (known_findings.d/C10.json): with S = 0 the code returns inf / NaN for on-time events
        for name, pdv in (('SignalTimePDF', pd_s), ('BackgroundTimePDF', pd_b)):
            bad = [(t, v) for t, v in zip(probes, pdv.tolist()) if brute_on(ivs, t) and not (math.isfinite(v) and v >= 0)]
            if bad:
                ctx.violation(name + '.get_pd', 'nan-or-inf-density-when-S-is-zero',
                              f'S = {S_impl!r}; pd({bad[0][0]}) = {bad[0][1]!r} for an on-time event',
                              case=dict(cdesc, t=bad[0][0]), impl=bad[0][1],
                              predicate='a density is finite and >= 0 (window without on-time)')
        do_update()
        return
    ctx.count('time-S-positive')
    brk = {ts, te}
    tol_norm = 1e-6
    if p['kind'] == 'gauss':
        s = float(prof.sigma_t)
        t0 = 0.5 * (ts + te)
        brk |= {t0 + 0.5 * j * s for j in range(-17, 18)}
        # S is a sum of differences of erf values of size c1 = sqrt(pi/2) sigma each: when only a far tail of
        # the gaussian is on-time the subtraction cancels (rounding, outside the real-number property);
        # the tolerance follows the conditioning  (terms * 2 c1) / S
        n_terms = sum(1 for (l, u) in ivs if ts < u and l <= te)
        cond = (n_terms + 1) * 2.0 * math.sqrt(math.pi / 2) * abs(s) / S_impl
        tol_norm += 1e-14 * cond
        if cond > 1e8:
            ctx.count('time-S-ill-conditioned')
    xs, ws = quad_nodes(ivs, brk)
    if len(xs) == 0:
        do_update()
        return
    q_s, q_b = eval_time(env, sig, bkg, xs)
    for name, qv in (('SignalTimePDF', q_s), ('BackgroundTimePDF', q_b)):
        total = float(np.sum(qv * ws))
        if not np.all(qv >= 0) or not all(v >= 0 for v in (pd_s if name[0] == 'S' else pd_b).tolist()):
            ctx.violation(name + '.get_pd', 'negative-density', 'a negative or NaN density value with S > 0',
                          case=cdesc, impl=repr(qv[:5].tolist()), predicate='pd >= 0')
        if not abs(total - 1.0) <= tol_norm:
            ctx.violation(name + '.get_pd', 'not-normalised',
                          f'sum over on-time intervals of the quadrature of get_pd = {total!r}',
                          case=cdesc, impl=total, predicate='sum_I int_I pd = 1 (Gauss-Legendre, pieces cut at profile/interval edges)')
    do_update()


def compare_time(ctx, check, out):
    _, cdesc, impl = check
    tok = out.split()
    if not tok or tok[0].startswith('ERR'):
        ctx.disagree('time-pdf', cdesc, impl, out, 'model driver error')
        return
    S_m = pf(tok[0])
    k = int(tok[1])
    terms = [pf(x) for x in tok[2:2 + k]]
    m = len(impl['probes'])
    sg = [pf(x) for x in tok[2 + k:2 + k + m]]
    bg = [pf(x) for x in tok[2 + k + m:2 + k + 2 * m]]
    scale = sum(abs(x) for x in terms)
    if cdesc['profile']['kind'] == 'gauss':
        scale += 3.0 * abs(cdesc['profile']['sigma']) * (k + 1)
    for nm, S_i in (('S', impl['S']), ('Sb', impl['Sb'])):
        if not same(S_i, S_m, 1e-11, scale):
            ctx.disagree('TimePDF._S', cdesc, {nm: S_i}, {'S': S_m, 'terms': terms[:8]}, 'sum of on-time profile integrals differs')
            return
    for nm, vi, vm in (('sig', impl['sig'], sg), ('bkg', impl['bkg'], bg)):
        S_i = impl['S'] if nm == 'sig' else impl['Sb']
        for t, a, b in zip(impl['probes'], vi, vm):
            ok = (a == 0.0) == (b == 0.0)
            if ok and a != 0.0:
                if math.isfinite(a) and math.isfinite(b):
                    ok = same(a * S_i, b * S_m, 1e-9)
                else:
                    ok = same(a, b, 0.0)
            if not ok:
                ctx.disagree('time-pdf.' + nm, dict(cdesc, t=t), {'pd': a, 'S': S_i}, {'pd': b, 'S': S_m},
                             'density value differs')
                return


def gen_time_case(ctx, rng, n=None):
    n = n or rng.choice([1, 1, 2, 2, 3, 3, 4, 5, 8, 13, 20, 30])
    origin = rng.choice([0, 1, 58000, -5])
    ivs = gen_intervals(rng, n, origin)
    case = {'ivs': ivs, 'profile': gen_profile(rng, ivs)}
    if rng.random() < 0.5:
        for _ in range(6):
            p2 = gen_profile(rng, ivs)
            if p2['kind'] == case['profile']['kind']:
                case['update'] = p2
                break
    return case


def time_corpus():
    ivs = [(0.0, 1.0), (1.25, 4.625), (7.75, 10.0)]
    out = [{'ivs': ivs, 'profile': {'kind': 'box', 'place': 'test_signalpdf', 't0': 5.0, 'tw': 10.0}},
           {'ivs': ivs, 'profile': {'kind': 'box', 'place': 'gap', 't0': 6.0, 'tw': 1.0}},
           {'ivs': ivs, 'profile': {'kind': 'box', 'place': 'edges', 't0': 2.9375, 'tw': 3.375}},
           {'ivs': ivs, 'profile': {'kind': 'gauss', 'place': 'span', 't0': 4.0, 'sigma': 1.0}},
           {'ivs': ivs, 'profile': {'kind': 'gauss', 'place': 'gap', 't0': 6.0, 'sigma': 0.0625}},
           {'ivs': [(2.0, 2.0), (2.0, 3.0), (3.0, 3.5)], 'profile': {'kind': 'box', 'place': 'touching', 't0': 2.5, 'tw': 1.0}},
           # S = 0: zero-width box inside the on-time (inf at the box, NaN elsewhere on-time) and a box in the gap
           {'ivs': ivs, 'profile': {'kind': 'box', 'place': 'zero', 't0': 2.0, 'tw': 0.0}},
           {'ivs': ivs, 'profile': {'kind': 'box', 'place': 'gap', 't0': 6.0, 'tw': 1.0}},
           {'ivs': ivs, 'profile': {'kind': 'box', 'place': 'test_signalpdf', 't0': 5.0, 'tw': 10.0},
            'update': {'kind': 'box', 'place': 'inside', 't0': 3.0, 'tw': 2.0}},
           {'ivs': ivs, 'profile': {'kind': 'gauss', 'place': 'span', 't0': 4.0, 'sigma': 1.0},
            'update': {'kind': 'gauss', 'place': 'span', 't0': 8.5, 'sigma': 0.25}}]
    return out


# ============================================================================ a REAL TrialDataManager

class RealTDM:
    """builds real skyllh TrialDataManager instances (one point source, no event selection) from plain arrays"""
    def __init__(self):
        from skyllh.core.config import Config
        from skyllh.core.parameters import ParameterModelMapper
        from skyllh.core.source_model import PointLikeSource
        from skyllh.core.source_hypo_grouping import SourceHypoGroupManager, SourceHypoGroup
        from skyllh.core.flux_model import SteadyPointlikeFFM
        self.cfg = Config()
        src = PointLikeSource(ra=1.0, dec=0.1)
        fm = SteadyPointlikeFFM(Phi0=1, energy_profile=None, cfg=self.cfg)
        self.shg_mgr = SourceHypoGroupManager(SourceHypoGroup(sources=[src], fluxmodel=fm, detsigyield_builders=[]))
        self.pmm = ParameterModelMapper(models=[src])

    def make(self, **fields):
        from skyllh.core.trialdata import TrialDataManager
        from skyllh.core.storage import DataFieldRecordArray as DFRA
        n = len(next(iter(fields.values())))
        names = list(fields)
        arr = np.zeros(n, dtype=[(k, np.float64) for k in names])
        for k in names:
            arr[k] = fields[k]
        tdm = TrialDataManager()
        tdm.initialize_trial(self.shg_mgr, self.pmm, DFRA(arr))
        return tdm


_REAL_TDM = []


def real_tdm(**fields):
    if not _REAL_TDM:
        _REAL_TDM.append(RealTDM())
    return _REAL_TDM[0].make(**fields)


def special(v):
    """test-event coordinate: int on the 1/16 grid, or 'nan' / 'inf' / '-inf'"""
    if isinstance(v, str):
        return float(v)
    return v / 16.0


# ============================================================================ histogram PDFs

class TDM(dict):
    def get_data(self, k):
        return self[k]


def gen_edges(rng, nb, lo8, maxw):
    e = [lo8]
    for _ in range(nb):
        e.append(e[-1] + rng.randint(1, maxw))
    return e            # integers, unit 1/8


def gen_hist_case(ctx, rng):
    nbe = rng.choice([1, 2, 3, 4, 6, 9])
    nbs = rng.choice([1, 2, 3, 5])
    eE = gen_edges(rng, nbe, rng.choice([8, 16, 0]), 6)          # log10(E) edges * 8
    eS = gen_edges(rng, nbs, -8, 4)                              # sin(dec) edges * 8 (not confined to [-1,1]: any binning)
    n = rng.choice([0, 1, 3, 10, 40, 120])
    ev = []
    empty_band = rng.random() < 0.3 and nbs >= 2
    skip_band = rng.randrange(nbs) if empty_band else None
    for _ in range(n):
        r = rng.random()
        # values on a 1/16 grid (half of them exactly on edges), some outside the range
        x = rng.choice(eE) * 2 if r < 0.35 else rng.randint(eE[0] * 2 - 2, eE[-1] * 2 + 2)
        y = rng.choice(eS) * 2 if rng.random() < 0.35 else rng.randint(eS[0] * 2 - 2, eS[-1] * 2 + 2)
        if skip_band is not None and eS[skip_band] * 2 <= y <= eS[skip_band + 1] * 2:
            continue
        mcw = rng.choice([1.0, 0.5, 2.5, rng.random() * 10])
        phw = 0.0 if rng.random() < 0.2 else rng.choice([1.0, 0.25, rng.random()])
        ev.append((x, y, mcw, phw))
    if n and rng.random() < 0.5:      # events exactly on the outermost edges
        ev.append((eE[-1] * 2, eS[-1] * 2, 1.0, 1.0))
        ev.append((eE[0] * 2, eS[0] * 2, 1.0, 0.5))
    tests = []
    for _ in range(10):
        x = rng.choice(eE) * 2 if rng.random() < 0.5 else rng.randint(eE[0] * 2 - 3, eE[-1] * 2 + 3)
        y = rng.choice(eS) * 2 if rng.random() < 0.5 else rng.randint(eS[0] * 2 - 3, eS[-1] * 2 + 3)
        tests.append((x, y))
    tests += [(eE[-1] * 2, eS[-1] * 2), (eE[0] * 2, eS[0] * 2), (eE[-1] * 2, eS[0] * 2 + 1), (eE[0] * 2 + 1, eS[-1] * 2)]
    smooth = rng.choice([0, 0, 1]) if nbe >= 3 else 0
    return {'kind': 'ehist', 'eE': eE, 'eS': eS, 'ev': ev, 'tests': tests, 'smooth': smooth}


def hist_corpus():
    """the failing input of the repaired defect (22ec0cf): events on the upper-most edges"""
    return [{'kind': 'ehist', 'eE': [8, 16, 24, 40], 'eS': [-8, 0, 4, 8],
             'ev': [(80, 16, 1.0, 1.0), (16, -16, 1.0, 0.5), (40, 2, 2.0, 1.0), (50, 9, 1.0, 1.0), (33, -3, 1.0, 0.0)],
             'tests': [(80, 16), (80, 3), (40, 16), (16, -16), (48, 0), (81, 0), (16, 17)], 'smooth': 0},
            # a declination band without any MC event (NaN band), non-square 2 x 4
            {'kind': 'ehist', 'eE': [8, 16, 24], 'eS': [-8, -4, 0, 4, 8],
             'ev': [(20, -14, 1.0, 1.0), (40, -3, 2.0, 0.5), (17, 9, 1.0, 1.0), (48, 16, 1.0, 1.0)],
             'tests': [(48, 16), (16, -16), (30, 2), (48, -16), (20, 16)], 'smooth': 0},
            # smoothed, every band populated
            {'kind': 'ehist', 'eE': [8, 16, 24, 40, 48], 'eS': [-8, 0, 8],
             'ev': [(20, -9, 1.0, 1.0), (33, -3, 2.0, 0.5), (50, -2, 1.0, 1.0), (90, -8, 1.0, 1.0),
                    (17, 9, 1.0, 1.0), (48, 16, 1.0, 1.0), (96, 3, 0.5, 1.0)],
             'tests': [(96, 16), (16, -16), (30, 2)], 'smooth': 1}]


def ehist_impl(cfg, case):
    """runs the real I3EnergyPDF; returns dict of observations"""
    from skyllh.core.binning import BinningDefinition
    from skyllh.i3.pdf import I3EnergyPDF
    from skyllh.core.smoothing import BlockSmoothingFilter
    eE = np.array(case['eE'], dtype=np.float64) / 8.0
    eS = np.array(case['eS'], dtype=np.float64) / 8.0
    ev = case['ev']
    le = np.array([e[0] / 16.0 for e in ev], dtype=np.float64)
    sd = np.array([e[1] / 16.0 for e in ev], dtype=np.float64)
    mcw = np.array([e[2] for e in ev], dtype=np.float64)
    phw = np.array([e[3] for e in ev], dtype=np.float64)
    be = BinningDefinition('log_energy', eE)
    bs = BinningDefinition('sin_dec', eS)
    with np.errstate(all='ignore'), warnings.catch_warnings():
        warnings.simplefilter('ignore')
        pdf = I3EnergyPDF(cfg=cfg, pmm=None, data_log10_energy=le, data_sin_dec=sd, data_mcweight=mcw,
                          data_physicsweight=phw, log10_energy_binning=be, sin_dec_binning=bs,
                          smoothing_filter=BlockSmoothingFilter(case['smooth']) if case['smooth'] else None)
    return pdf, eE, eS


def eval_event(pdf, x, y, dec=None):
    """the REAL assert_is_valid_for_trial_data and get_pd for ONE event held by a REAL TrialDataManager;
    returns (valid_result, pd_result)"""
    with np.errstate(all='ignore'), warnings.catch_warnings():
        warnings.simplefilter('ignore')
        tdm = real_tdm(log_energy=np.array([x]), sin_dec=np.array([y]),
                       dec=(np.array([dec]) if dec is not None else
                            np.arcsin(np.clip(np.array([y]), -1, 1)) if math.isfinite(y) else np.array([y])))
        try:
            pdf.assert_is_valid_for_trial_data(tdm)
            v = ['Ok']
        except ValueError:
            v = ['Err', 'ValueError']
        except Exception as ex:
            v = ['Err', type(ex).__name__]
        try:
            (pd, _) = pdf.get_pd(tdm)
            g = ['Ok', float(pd[0])]
        except Exception as ex:
            g = ['Err', type(ex).__name__]
    return v, g


def ehist_case(ctx, cfg, case, zexprs, zchecks, lines, checks):
    cdesc = dict(case)
    try:
        pdf, eE, eS = ehist_impl(cfg, case)
    except Exception as ex:
        ctx.violation('I3EnergyPDF.__init__', 'raises-' + type(ex).__name__, f'constructor raised: {ex}', case=cdesc)
        return
    hist = np.array(pdf.hist, dtype=np.float64)
    nbe, nbs = len(case['eE']) - 1, len(case['eS']) - 1
    ctx.count(f"ehist:smooth={case['smooth']}")
    ctx.count(f'ehist-bins:{nbe}x{nbs}')
    # the real assert_is_valid_for_trial_data on a dec-valued tdm (sin(arcsin(y)) may round; only used for
    # the all-valid events of the predicate below)
    # ---- per-event observations + Z model expressions (scaled by 16: edges*2, values as they are)
    zE = zlist([e * 2 for e in case['eE']])
    zS = zlist([e * 2 for e in case['eS']])
    idx = '[' + '; '.join('[' + '; '.join(str(i * 1000 + j) for j in range(nbs)) + ']' for i in range(nbe)) + ']'
    obs = []
    xin, yin = case['eE'][0] * 2 + 1, case['eS'][0] * 2 + 1           # an in-range point
    for (x, y) in [('nan', yin), (xin, 'nan'), ('inf', yin), (xin, '-inf'), ('nan', 'nan')]:
        v, g = eval_event(pdf, special(x), special(y))
        ctx.count('lookup-nan-or-inf')
        if v != ['Err', 'ValueError']:
            ctx.disagree('I3EnergyPDF.assert_is_valid_for_trial_data', dict(cdesc, event=(x, y)), v, ['Err', 'ValueError'],
                         'a NaN / infinite value must be rejected (C10_nan_rejected, C10_inf_rejected)')
        if v == ['Ok'] and g[0] != 'Ok':
            ctx.violation('I3EnergyPDF.get_pd', 'raises-' + g[1] + '-for-accepted-data',
                          f'event (log_energy={x}, sin_dec={y}) passes the validity check but get_pd raises',
                          case=dict(cdesc, event=(x, y)), impl=g,
                          predicate='assert_is_valid_for_trial_data accepts => get_pd returns a value')
    # the check must read the field get_pd evaluates: sin_dec out of range while dec itself is harmless
    for y_out in (case['eS'][-1] * 2 + 1, case['eS'][0] * 2 - 1):
        v, g = eval_event(pdf, xin / 16.0, y_out / 16.0, dec=0.0)
        if v != ['Err', 'ValueError']:
            ctx.disagree('I3EnergyPDF.assert_is_valid_for_trial_data', dict(cdesc, event=(xin, y_out), dec=0.0), v,
                         ['Err', 'ValueError'], 'sin_dec outside the binning range must be rejected whatever dec is')
    for (x, y) in case['tests']:
        v, g = eval_event(pdf, x / 16.0, y / 16.0)
        obs.append((v, g))
        zexprs.append(f'(eh_assert_valid {zE} {zS} {zlit(x)} {zlit(y)}, eh_get_pd {idx} {zE} {zS} {zlit(x)} {zlit(y)})')
        zchecks.append(('lookup', dict(cdesc, event=(x, y)), (v, g), hist))
        ctx.count('lookup-valid' if v == ['Ok'] else 'lookup-invalid')
        if x == case['eE'][-1] * 2 or y == case['eS'][-1] * 2:
            ctx.count('lookup-on-upper-edge')
        # predicate: accepted data can be evaluated
        if v == ['Ok'] and g[0] != 'Ok':
            ctx.violation('I3EnergyPDF.get_pd', 'raises-' + g[1] + '-for-accepted-data',
                          f'event (log_energy={x / 16.0}, sin_dec={y / 16.0}) passes the validity check but get_pd raises',
                          case=dict(cdesc, event=(x, y)), impl=g,
                          predicate='assert_is_valid_for_trial_data accepts => get_pd returns a value')
    # the real validity method + get_pd on ALL accepted test events at once (real TDM)
    acc = [(x, y) for (x, y), (v, g) in zip(case['tests'], obs) if v == ['Ok']]
    if acc:
        tdm = real_tdm(log_energy=np.array([a[0] / 16.0 for a in acc]), sin_dec=np.array([a[1] / 16.0 for a in acc]),
                       dec=np.zeros(len(acc)))
        try:
            pdf.assert_is_valid_for_trial_data(tdm)
            ctx.count('assert_is_valid-real-call')
        except Exception as ex:
            ctx.violation('I3EnergyPDF.assert_is_valid_for_trial_data', 'rejects-in-range-data',
                          f'raised {type(ex).__name__} for data inside the binning range', case=cdesc)
        try:
            pdf.get_pd(tdm)
        except Exception as ex:
            ctx.violation('I3EnergyPDF.get_pd', 'raises-' + type(ex).__name__ + '-for-accepted-data',
                          'get_pd raised for data accepted by assert_is_valid_for_trial_data', case=cdesc, impl=repr(ex))
    # ---- MC binning by the Z model (for the float model of the normalisation)
    if case['ev']:
        xs = [e[0] for e in case['ev']]
        ys = [e[1] for e in case['ev']]
        zexprs.append(f'(mapM (hist_bin {zE}) {zlist(xs)}, mapM (hist_bin {zS}) {zlist(ys)})')
        zchecks.append(('fill', cdesc, hist, (lines, checks)))
    # ---- predicates on the constructed histogram (independent oracle)
    w = np.diff(eE)
    band_content = [0.0] * nbs

    def brute_bin(edges, v):
        for i in range(len(edges) - 1):
            if edges[i] <= v < edges[i + 1] or (i == len(edges) - 2 and v == edges[i + 1]):
                return i
        return None
    for (x, y, mcw, phw) in case['ev']:
        i = brute_bin(case['eE'], x / 2.0)
        j = brute_bin(case['eS'], y / 2.0)
        if i is not None and j is not None and phw != 0.0:
            band_content[j] += mcw * phw
    for j in range(nbs):
        col = hist[:, j]
        if band_content[j] > 0:
            ctx.count('ehist-band-positive')
            if not np.all(col >= 0):
                ctx.violation('I3EnergyPDF.hist', 'negative-or-nan-entry', f'band {j} has a negative or NaN entry',
                              case=cdesc, impl=col.tolist(), predicate='entries >= 0')
            if not case['smooth']:
                tot = float(np.sum(col * w))
                if not abs(tot - 1.0) <= 1e-9:
                    ctx.violation('I3EnergyPDF.hist', 'band-not-normalised', f'band {j}: sum h_i dlogE_i = {tot!r}',
                                  case=cdesc, impl=tot, predicate='sum_i h[i][j] * dlogE[i] = 1 for bands with content')
                # quadrature of get_pd along log10(E): midpoints of a refinement of the bins, plus both outer edges
                yq = 0.5 * (eS[j] + eS[j + 1])
                xq, wq = [], []
                for i in range(nbe):
                    for k in range(4):
                        xq.append(eE[i] + (k + 0.5) * w[i] / 4)
                        wq.append(w[i] / 4)
                tdm = TDM(log_energy=np.array(xq + [eE[0], eE[-1]]), sin_dec=np.full(len(xq) + 2, yq))
                try:
                    (pdq, _) = pdf.get_pd(tdm)
                    tq = float(np.sum(np.array(pdq[:-2]) * np.array(wq)))
                    if not abs(tq - 1.0) <= 1e-9 or not np.all(np.array(pdq) >= 0):
                        ctx.violation('I3EnergyPDF.get_pd', 'not-normalised', f'band {j}: quadrature of get_pd = {tq!r}',
                                      case=cdesc, impl=tq, predicate='int get_pd dlog10E = 1 per band with content')
                except Exception as ex:
                    ctx.violation('I3EnergyPDF.get_pd', 'raises-' + type(ex).__name__ + '-for-accepted-data',
                                  'get_pd raised on in-range quadrature points incl. the outermost edges', case=cdesc, impl=repr(ex))
        else:
            ctx.count('ehist-band-empty')
            # OPEN FINDING (known_findings.d/C10.json): a band without content is 0/0 = NaN throughout
            if not case['smooth'] and np.any(np.isnan(col)):
                ctx.violation('I3EnergyPDF.hist', 'nan-entries-in-empty-band',
                              f'declination band {j} has no content and its entries are NaN', case=dict(cdesc, band=j),
                              impl=col.tolist(), predicate='entries of a density are finite and >= 0 (empty bins)')


def compare_z(ctx, zchecks, vals):
    for chk, v in zip(zchecks, vals):
        ctx.corr_cases += 1
        if chk[0] == 'lookup':
            _, cdesc, (iv, ig), hist = chk
            mv, mg = v
            mv = ['Ok'] if (isinstance(mv, tuple) and mv[0] == 'Ok') else ['Err', mv[1]]
            if isinstance(mg, tuple) and mg[0] == 'Ok':
                i, j = divmod(mg[1], 1000)
                mgc = ['Ok', float(hist[i, j])] if (0 <= i < hist.shape[0] and 0 <= j < hist.shape[1]) else ['Ok', math.nan, 'bad-index']
            else:
                mgc = ['Err', mg[1]]
            okv = (mv == iv)
            okg = (mgc[0] == ig[0]) and (same(mgc[1], ig[1], 0.0) if mgc[0] == 'Ok' else mgc[1] == ig[1])
            if not (okv and okg):
                ctx.disagree('I3EnergyPDF.lookup', cdesc, {'valid': iv, 'get_pd': ig}, {'valid': mv, 'get_pd': mgc, 'raw': repr(mg)})
        elif chk[0] == 'fill':
            _, cdesc, hist, (lines, checks) = chk
            (bx, by) = v
            if not (isinstance(bx, tuple) and bx[0] == 'Ok' and isinstance(by, tuple) and by[0] == 'Ok'):
                ctx.disagree('I3EnergyPDF.fill', cdesc, None, repr(v)[:300], 'model binning failed')
                continue

            def opt(o):
                return o[1] if isinstance(o, tuple) and o[0] == 'Some' else None
            bi = [opt(o) for o in bx[1]]
            bj = [opt(o) for o in by[1]]
            nbe, nbs = len(cdesc['eE']) - 1, len(cdesc['eS']) - 1
            raw = [[0.0] * nbe for _ in range(nbs)]
            terms = [[[] for _ in range(nbe)] for _ in range(nbs)]
            bad = [(i, j) for i, j in zip(bi, bj)
                   if (i is not None and not 0 <= i < nbe) or (j is not None and not 0 <= j < nbs)]
            if bad:
                ctx.disagree('I3EnergyPDF.fill', cdesc, 'np.histogram2d bins', {'model_bins_out_of_range': bad[:5]},
                             'model binning returns a bin index outside the histogram')
                continue
            for (x, y, mcw, phw), i, j in zip(cdesc['ev'], bi, bj):
                if i is None or j is None or phw == 0.0:
                    continue
                terms[j][i].append(mcw * phw)
            for j in range(nbs):
                for i in range(nbe):
                    raw[j][i] = math.fsum(terms[j][i])
            w = [(cdesc['eE'][i + 1] - cdesc['eE'][i]) / 8.0 for i in range(nbe)]
            for j in range(nbs):
                if cdesc['smooth']:
                    kern = [1.0] * (2 * cdesc['smooth'] + 1)          # BlockSmoothingFilter(nbins).axis_kernel_array
                    lines.append(' '.join(['ES', str(nbe)] + [fh(c) for c in raw[j]] + [fh(x) for x in w]
                                          + [str(len(kern))] + [fh(x) for x in kern]))
                    checks.append(('esmooth', dict(cdesc, band=j), hist[:, j].tolist()))
                else:
                    lines.append(' '.join(['E', str(nbe)] + [fh(c) for c in raw[j]] + [fh(x) for x in w]))
                    checks.append(('eband', dict(cdesc, band=j), hist[:, j].tolist()))


def compare_eband(ctx, check, out):
    _, cdesc, col = check
    tok = out.split()
    if not tok or tok[0].startswith('ERR'):
        ctx.disagree('I3EnergyPDF.hist', cdesc, col, out, 'model driver error')
        return
    vals = [pf(x) for x in tok]
    h, integral = vals[:-1], vals[-1]
    if len(h) != len(col) or not all(same(a, b, 1e-11) for a, b in zip(col, h)):
        ctx.disagree('I3EnergyPDF.hist', cdesc, col, h, 'normalised band differs')


# ---------------------------------------------------------------------------- spatial histogram

def gen_shist_case(ctx, rng):
    nb = rng.choice([2, 3, 4, 6, 10])
    e = sorted(rng.sample(range(-8, 9), nb + 1))       # sin(dec) edges * 8, inside [-1, 1]
    n = rng.choice([5, 20, 80, 200])
    ev = []
    leave_empty = rng.random() < 0.25
    for _ in range(n):
        x = rng.choice(e) * 2 if rng.random() < 0.3 else rng.randint(e[0] * 2 - 1, e[-1] * 2 + 1)
        if leave_empty and e[0] * 2 <= x < e[1] * 2:
            continue
        ev.append((x, rng.choice([1.0, 1.0, 0.5, rng.random() * 3])))
    k = rng.choice([1, 2, 3])
    if nb <= k:
        k = 1
    return {'kind': 'shist', 'e': e, 'ev': ev, 'k': k}


def shist_case(ctx, cfg, case, zexprs, zchecks, lines, checks):
    from skyllh.core.binning import BinningDefinition
    from skyllh.i3.backgroundpdf import BackgroundI3SpatialPDF
    cdesc = dict(case)
    e = np.array(case['e'], dtype=np.float64) / 8.0
    xs = np.array([v[0] for v in case['ev']], dtype=np.float64) / 16.0
    ws = np.array([v[1] for v in case['ev']], dtype=np.float64)
    b = BinningDefinition('sin_dec', e)
    ctx.count(f"shist:k={case['k']}")
    try:
        with np.errstate(all='ignore'), warnings.catch_warnings():
            warnings.simplefilter('ignore')
            pdf = BackgroundI3SpatialPDF(cfg=cfg, data_sin_dec=xs, data_weights=ws, sin_dec_binning=b,
                                         spline_order_sin_dec=case['k'])
        centers = b.bincenters
        tdm = TDM(sin_dec=centers)
        pdf.initialize_for_new_trial(tdm)
        (pd, _) = pdf.get_pd(tdm)
        logv = pdf._log_spline(centers)
        impl = ['Ok', np.exp(logv).tolist(), np.array(pd).tolist(), np.array(logv).tolist()]
        # off-centre points incl. both outer half-bins and the outermost edges
        wb = np.diff(e)
        q = np.concatenate([e[:-1] + 0.125 * wb, e[:-1] + 0.875 * wb, [e[0], e[-1]]])
        tq = TDM(sin_dec=q)
        pdf.initialize_for_new_trial(tq)
        impl.append([q.tolist(), np.array(pdf.get_pd(tq)[0]).tolist(), centers.tolist(), case['k']])
    except ValueError:
        impl = ['Err', 'ValueError']
    except Exception as ex:
        impl = ['Err', type(ex).__name__]
        ctx.violation('BackgroundI3SpatialPDF.__init__', 'raises-' + type(ex).__name__, str(ex)[:200], case=cdesc)
    ctx.count('shist-' + impl[0])
    # raw histogram: independent brute-force binning (np.histogram convention), compared with the class result
    edges = e.tolist()
    nb = len(edges) - 1
    terms = [[] for _ in range(nb)]
    for x, wgt in zip(xs.tolist(), ws.tolist()):
        for i in range(nb):
            if edges[i] <= x < edges[i + 1] or (i == nb - 1 and x == edges[-1]):
                terms[i].append(wgt)
    raw = [math.fsum(t) for t in terms]
    lines.append(' '.join(['H', str(nb)] + [fh(v) for v in raw] + [fh(v) for v in edges]))
    checks.append(('shist', cdesc, impl))
    if impl[0] == 'Ok':
        w = np.diff(e)
        dens = np.array(impl[1])
        tot = float(np.sum(dens * w))
        if not np.all(dens > 0) or not abs(tot - 1.0) <= 1e-9:
            ctx.violation('BackgroundI3SpatialPDF', 'not-normalised', f'sum_i exp(logspline(center_i)) * width_i = {tot!r}',
                          case=cdesc, impl=tot, predicate='sin(dec) density positive and sums to 1 against the bin widths')
        sph = float(2 * math.pi * np.sum(np.array(impl[2]) * w))
        if not abs(sph - 1.0) <= 1e-9 or not np.all(np.array(impl[2]) > 0):
            ctx.violation('BackgroundI3SpatialPDF.get_pd', 'sphere-not-normalised', f'2 pi sum_i pd_i width_i = {sph!r}',
                          case=cdesc, impl=sph, predicate='integral over the sphere (step reading) = 1')
        for lv in impl[3][:4]:
            lines.append('Q ' + fh(lv))
            checks.append(('shpd', dict(cdesc, logv=lv), float(0.5 / np.pi * np.exp(lv))))


def compare_shist(ctx, check, out):
    _, cdesc, impl = check
    tok = out.split()
    if tok[0] == 'Err':
        if impl[0] != 'Err' or impl[1] != tok[1]:
            ctx.disagree('BackgroundI3SpatialPDF', cdesc, impl[:2], tok, 'model rejects the histogram, implementation accepts')
        return
    if tok[0] != 'Ok' or impl[0] != 'Ok':
        ctx.disagree('BackgroundI3SpatialPDF', cdesc, impl[:2], tok[:3], 'acceptance differs')
        return
    vals = [pf(x) for x in tok[1:]]
    h = vals[:-1]
    if len(h) != len(impl[1]) or not all(same(a, b, 1e-9) for a, b in zip(impl[1], h)):
        ctx.disagree('BackgroundI3SpatialPDF', cdesc, impl[1], h, 'normalised histogram differs')
        return
    if not all(same(a, b / (2 * math.pi), 1e-9) for a, b in zip(impl[2], h)):
        ctx.disagree('BackgroundI3SpatialPDF.get_pd', cdesc, impl[2], h, 'pd differs from density / (2 pi)')
        return
    # between the centres / in the outer half-bins: the documented log-spline (order k, extrapolating) through the
    # MODEL's node values, built here independently of skyllh
    import scipy.interpolate
    q, pdq, centers, k = impl[4]
    ref = scipy.interpolate.InterpolatedUnivariateSpline(centers, np.log(np.array(h)), k=k)
    want = (0.5 / math.pi * np.exp(ref(np.array(q)))).tolist()
    if not all(same(a, b, 1e-8) for a, b in zip(pdq, want)):
        ctx.disagree('BackgroundI3SpatialPDF.get_pd', dict(cdesc, q=q), pdq, want,
                     'density off the bin centres differs from the order-k extrapolating log-spline through the model nodes')


# ---------------------------------------------------------------------------- PSF

def psf_case(ctx, cfg, rng, lines, checks, case=None):
    from skyllh.core.signalpdf import GaussianPSFPointLikeSourceSignalSpatialPDF
    from skyllh.core.utils.coords import angular_separation
    if case is None:
        sigma = rng.choice([0.002, 0.01, 0.02, 0.05]) * (1 + rng.random())
        case = {'kind': 'psf', 'sigma': sigma, 'src': (rng.random() * 6.0, (rng.random() - 0.5) * 1.0),
                'seed': rng.randrange(10 ** 9)}
    sigma = case['sigma']
    src_ra, src_dec = case['src']
    pdf = GaussianPSFPointLikeSourceSignalSpatialPDF(cfg=cfg)
    # radial quadrature nodes along the meridian through the source
    R = 9.0 * sigma
    pts = np.linspace(0.0, R, 19)
    xs = np.concatenate([0.5 * (a + b) + 0.5 * (b - a) * _GL[0] for a, b in zip(pts, pts[1:])])
    wq = np.concatenate([0.5 * (b - a) * _GL[1] for a, b in zip(pts, pts[1:])])
    n = len(xs)
    src = np.zeros(1, dtype=[('ra', np.float64), ('dec', np.float64)])
    src['ra'] = src_ra
    src['dec'] = src_dec
    data = {'src_array': src, 'ra': np.full(n, src_ra), 'dec': src_dec + xs, 'ang_err': np.full(n, sigma)}
    class _T:
        src_evt_idxs = (np.zeros(n, dtype=np.int64), np.arange(n))

        @staticmethod
        def get_data(k):
            return data[k]
    tdm = _T()
    pd = np.array(pdf.calculate_pd(tdm), dtype=np.float64)
    psi = angular_separation(np.full(n, src_ra), np.full(n, src_dec), data['ra'], data['dec'])
    ctx.count('psf-cases')
    tot = float(np.sum(2 * math.pi * psi * pd * wq))
    want = 1.0 - math.exp(-R * R / (2 * sigma * sigma))
    if not np.all(pd > 0) or not abs(tot - want) <= 1e-6:
        ctx.violation('GaussianPSFPointLikeSourceSignalSpatialPDF.calculate_pd', 'not-normalised',
                      f'disc integral {tot!r}, expected {want!r}', case=case, impl=tot,
                      predicate='int_0^R 2 pi r pd(r) dr = 1 - exp(-R^2/(2 sigma^2))')
    for k in range(0, n, 24):
        lines.append('P ' + fh(sigma ** 2) + ' ' + fh(float(psi[k])))
        checks.append(('psf', dict(case, psi=float(psi[k])), float(pd[k])))
    # ---- history probes: two sources in one call (each normalised on its own), repeat, inputs unchanged
    sigma2 = 0.5 * sigma
    R2 = 9.0 * sigma2
    xs2 = xs * (R2 / R)
    wq2 = wq * (R2 / R)
    src2 = np.zeros(2, dtype=[('ra', np.float64), ('dec', np.float64)])
    src2['ra'] = [src_ra, (src_ra + 1.0) % 6.0]
    src2['dec'] = [src_dec, -src_dec]
    d2 = {'src_array': src2,
          'ra': np.concatenate([np.full(n, src2['ra'][0]), np.full(n, src2['ra'][1])]),
          'dec': np.concatenate([src2['dec'][0] + xs, src2['dec'][1] + xs2]),
          'ang_err': np.concatenate([np.full(n, sigma), np.full(n, sigma2)])}
    snaps = snap(d2['src_array'], d2['ra'], d2['dec'], d2['ang_err'])

    class _T2:
        src_evt_idxs = (np.repeat(np.arange(2), 2 * n), np.tile(np.arange(2 * n), 2))

        @staticmethod
        def get_data(k):
            return d2[k]
    pdf2 = GaussianPSFPointLikeSourceSignalSpatialPDF(cfg=cfg)
    a = np.array(pdf2.calculate_pd(_T2()), dtype=np.float64)
    _ = pdf.calculate_pd(tdm)
    b = np.array(pdf2.calculate_pd(_T2()), dtype=np.float64)
    if not beq(a, b):
        ctx.violation('GaussianPSFPointLikeSourceSignalSpatialPDF.calculate_pd', 'repeat-differs',
                      'the same call twice (another instance in between) gives different values', case=case)
    if changed(snaps, [d2['src_array'], d2['ra'], d2['dec'], d2['ang_err']]) is not None:
        ctx.violation('GaussianPSFPointLikeSourceSignalSpatialPDF.calculate_pd', 'argument-modified',
                      'an event / source array was modified', case=case)
    own = [a[0:n], a[3 * n:4 * n]]
    for k, (vals, r_, w_, sg_, R_) in enumerate(((own[0], xs, wq, sigma, R), (own[1], xs2, wq2, sigma2, R2))):
        psi_k = angular_separation(np.full(n, src2['ra'][k]), np.full(n, src2['dec'][k]), d2['ra'][k * n:(k + 1) * n],
                                   d2['dec'][k * n:(k + 1) * n])
        tot_k = float(np.sum(2 * math.pi * psi_k * vals * w_))
        want_k = 1.0 - math.exp(-R_ * R_ / (2 * sg_ * sg_))
        if not abs(tot_k - want_k) <= 1e-6:
            ctx.violation('GaussianPSFPointLikeSourceSignalSpatialPDF.calculate_pd', 'multi-source-not-normalised',
                          f'source {k}: disc integral {tot_k!r}, expected {want_k!r}', case=dict(case, source=k), impl=tot_k)
    if not close_arr(own[0], pd, 1e-12):
        ctx.violation('GaussianPSFPointLikeSourceSignalSpatialPDF.calculate_pd', 'multi-source-differs-from-single-source',
                      'source 0 of a two-source call differs from the single-source call', case=case)
    # ---- the Rayleigh PSF class: two sources with different sigma, cap integral each on its own, model values
    from skyllh.core.signalpdf import RayleighPSFPointSourceSignalSpatialPDF
    ray = RayleighPSFPointSourceSignalSpatialPDF(cfg=cfg)
    # values: one per (source, event) pair; events 0..n-1 have sigma, events n..2n-1 have sigma2
    psi_vals = np.concatenate([xs, xs2, xs, xs2])          # source 0 x all events, source 1 x all events
    dr = {'psi': psi_vals, 'ang_err': d2['ang_err']}
    sn = snap(dr['psi'], dr['ang_err'])

    class _TR:
        src_evt_idxs = (np.repeat(np.arange(2), 2 * n), np.tile(np.arange(2 * n), 2))

        @staticmethod
        def get_data(k):
            return dr[k]
    with np.errstate(all='ignore'):
        ray.initialize_for_new_trial(_TR())
        rv = np.array(ray.get_pd(_TR())[0], dtype=np.float64)
        ray2 = RayleighPSFPointSourceSignalSpatialPDF(cfg=cfg)
        ray2.initialize_for_new_trial(_TR())
        rv2 = np.array(ray2.get_pd(_TR())[0], dtype=np.float64)
    ctx.count('rayleigh-cases')
    if not beq(rv, rv2) or changed(sn, [dr['psi'], dr['ang_err']]) is not None:
        ctx.violation('RayleighPSFPointSourceSignalSpatialPDF.get_pd', 'repeat-differs-or-argument-modified',
                      'a second instance gives different values or an input array changed', case=case)
    for (lo_, r_, w_, sg_, R_) in ((0, xs, wq, sigma, R), (n, xs2, wq2, sigma2, R2), (2 * n, xs, wq, sigma, R),
                                   (3 * n, xs2, wq2, sigma2, R2)):
        vals = rv[lo_:lo_ + n]
        tot_k = float(np.sum(2 * math.pi * np.sin(r_) * vals * w_))
        want_k = 1.0 - math.exp(-R_ * R_ / (2 * sg_ * sg_))
        if not (np.all(vals > 0) and abs(tot_k - want_k) <= 1e-6):
            ctx.violation('RayleighPSFPointSourceSignalSpatialPDF.get_pd', 'not-normalised',
                          f'cap integral {tot_k!r}, expected {want_k!r}', case=dict(case, block=lo_), impl=tot_k,
                          predicate='int_0^Psi 2 pi sin(psi) pd dpsi = 1 - exp(-Psi^2/(2 sigma^2))')
    for kk in range(0, 4 * n, 97):
        sg_ = sigma if (kk % (2 * n)) < n else sigma2
        lines.append('P ' + fh(sg_ ** 2) + ' ' + fh(float(psi_vals[kk])))
        checks.append(('rayleigh', dict(case, psi=float(psi_vals[kk]), sigma=sg_), float(rv[kk])))
    # OPEN FINDING (known_findings.d/C10.json): an event exactly on the source (psi = 0) gets 0/0 = NaN
    d0 = {'psi': np.array([0.0, sigma]), 'ang_err': np.array([sigma, sigma])}

    class _T0:
        src_evt_idxs = (np.zeros(2, dtype=np.int64), np.arange(2))

        @staticmethod
        def get_data(k):
            return d0[k]
    with np.errstate(all='ignore'):
        ray.initialize_for_new_trial(_T0())
        v0 = np.array(ray.get_pd(_T0())[0], dtype=np.float64)
    if not (math.isfinite(v0[0]) and v0[0] >= 0):
        ctx.violation('RayleighPSFPointSourceSignalSpatialPDF.get_pd', 'nan-at-zero-separation',
                      f'pd(psi = 0) = {v0[0]!r}', case=dict(case, psi=0.0), impl=float(v0[0]),
                      predicate='a density is finite and >= 0')


def compare_simple(ctx, check, out, site, col=0, tol=1e-12):
    _, cdesc, impl = check
    tok = out.split()
    try:
        m = pf(tok[col])
    except Exception:
        ctx.disagree(site, cdesc, impl, out, 'model driver error')
        return
    if not same(impl, m, tol):
        ctx.disagree(site, cdesc, impl, m, 'value differs')


# ============================================================================ history probes
# Metamorphic probes on the REAL objects (tools/HARDENING.md): the result of every observable is a function of
# the current inputs only.  No model involved: fresh twins and the independent quadrature oracle.

def beq(a, b):
    a = np.asarray(a)
    b = np.asarray(b)
    return a.shape == b.shape and bool(np.array_equal(a, b, equal_nan=True))


def close_arr(a, b, tol):
    a = np.asarray(a, dtype=np.float64).ravel().tolist()
    b = np.asarray(b, dtype=np.float64).ravel().tolist()
    return len(a) == len(b) and all(same(x, y, tol) for x, y in zip(a, b))


def snap(*arrs):
    return [np.array(a, copy=True) for a in arrs]


def changed(snaps, arrs):
    """index of the first array that differs bytewise from its snapshot"""
    for k, (s0, a) in enumerate(zip(snaps, arrs)):
        a = np.asarray(a)
        if s0.dtype != a.dtype or s0.shape != a.shape or s0.tobytes() != a.tobytes():
            return k
    return None


def make_tdm_k(times, K):
    from unittest.mock import Mock
    from skyllh.core.trialdata import TrialDataManager
    n = len(times)
    tdm = Mock(spec_set=['__class__', 'trial_data_state_id', 'get_n_values', 'src_evt_idxs', 'n_sources',
                         'n_selected_events', 'get_data'])
    tdm.__class__ = TrialDataManager
    tdm.trial_data_state_id = 1
    tdm.get_n_values = lambda: K * n
    tdm.src_evt_idxs = (np.repeat(np.arange(K), n), np.tile(np.arange(n), K))
    tdm.n_sources = K
    tdm.n_selected_events = n
    tdm.get_data = lambda key: times
    return tdm


def mk_profile(env, p):
    from skyllh.core.flux_model import BoxTimeFluxProfile, GaussianTimeFluxProfile
    if p['kind'] == 'box':
        return BoxTimeFluxProfile(t0=p['t0'], tw=p['tw'], cfg=env.cfg)
    return GaussianTimeFluxProfile(t0=p['t0'], sigma_t=p['sigma'], cfg=env.cfg)


def rec_of(kind, rows):
    if kind == 'box':
        return np.array([(r['t0'], r['tw']) for r in rows], dtype=[('t0', np.float64), ('tw', np.float64)])
    return np.array([(r['t0'], r['sigma']) for r in rows], dtype=[('t0', np.float64), ('sigma_t', np.float64)])


def call_sig(sig, tdm, rec):
    with np.errstate(all='ignore'), warnings.catch_warnings():
        warnings.simplefilter('ignore')
        return sig.get_pd(tdm=tdm, params_recarray=rec)[0]


def time_hist_corpus():
    ivs = [(0.0, 1.0), (1.25, 4.625), (7.75, 10.0)]
    b = lambda t0, tw: {'kind': 'box', 'place': 'corpus', 't0': t0, 'tw': tw}            # noqa: E731
    g = lambda t0, s: {'kind': 'gauss', 'place': 'corpus', 't0': t0, 'sigma': s}         # noqa: E731
    return [{'kind': 'time-history', 'ivs': ivs, 'pkind': 'box', 'init': b(5.0, 10.0), 'initB': b(2.0, 2.0),
             'rows': [b(2.0, 2.0), b(8.5, 1.0), b(3.0, 6.0)]},
            {'kind': 'time-history', 'ivs': ivs, 'pkind': 'gauss', 'init': g(4.0, 1.0), 'initB': g(8.5, 0.25),
             'rows': [g(2.0, 0.5), g(8.5, 0.25), g(4.0, 2.0)]}]


def gen_time_hist_case(ctx, rng):
    n = rng.choice([1, 2, 3, 3, 5, 8])
    ivs = gen_intervals(rng, n, rng.choice([0, 1, 58000]))
    kind = rng.choice(['box', 'box', 'gauss'])
    rows = []
    want = rng.choice([2, 3, 4]) + 2
    while len(rows) < want:
        p = gen_profile(rng, ivs)
        if p['kind'] == kind:
            rows.append(p)
    # partially coinciding parameters (a memo keyed on part of the state would be hit)
    for k in range(3, len(rows)):
        r = rng.random()
        prev = rows[k - 1]
        wkey = 'tw' if kind == 'box' else 'sigma'
        if r < 0.2:
            rows[k] = dict(prev, **{wkey: prev[wkey] * 2 + (0.125 if kind == 'box' else 0.0)})          # same t0
        elif r < 0.4:
            rows[k] = dict(prev, t0=prev['t0'] + rng.choice([0.5, 1.0, 2.25]))                           # same width
        elif r < 0.55 and kind == 'box':
            d = rng.choice([0.5, 1.0, 3.0])
            rows[k] = dict(prev, t0=prev['t0'] + d / 2, tw=prev['tw'] + d)                                # same t_start
        elif r < 0.7 and kind == 'box':
            d = rng.choice([0.5, 1.0, 3.0])
            rows[k] = dict(prev, t0=prev['t0'] - d / 2, tw=prev['tw'] + d)                                # same t_stop
    return {'kind': 'time-history', 'ivs': ivs, 'pkind': kind, 'init': rows[0], 'initB': rows[1], 'rows': rows[2:]}


def quad_norm_check(ctx, site, kind_tag, cdesc, ivs, prof_state, evalf, S):
    """independent oracle: sum over up-time intervals of the quadrature of evalf = 1 (S > 0 only)"""
    if not (S > 0 and math.isfinite(S)):
        return
    ts, te, sg = prof_state
    brk = {ts, te}
    tol = 1e-6
    if sg is not None:
        t0 = 0.5 * (ts + te)
        brk |= {t0 + 0.5 * j * sg for j in range(-17, 18)}
        n_terms = sum(1 for (l, u) in ivs if ts < u and l <= te)
        tol += 1e-14 * (n_terms + 1) * 2.0 * math.sqrt(math.pi / 2) * abs(sg) / S
    xs, ws = quad_nodes(ivs, brk)
    if len(xs) == 0:
        return
    q = np.asarray(evalf(xs), dtype=np.float64)
    tot = float(np.sum(q * ws))
    if not np.all(q >= 0) or not abs(tot - 1.0) <= tol:
        ctx.violation(site, kind_tag, f'quadrature over the on-time = {tot!r}', case=cdesc, impl=tot,
                      predicate='each density is normalised on its own: sum_I int_I pd = 1')


def time_history_case(ctx, env, case, lines=None, checks=None):
    from skyllh.core.livetime import Livetime
    from skyllh.core.parameters import ParameterModelMapper
    from skyllh.core.source_model import SourceModel
    from skyllh.core.signalpdf import SignalTimePDF
    from skyllh.core.backgroundpdf import BackgroundTimePDF
    cdesc = dict(case)
    ivs = [tuple(iv) for iv in case['ivs']]
    rows = case['rows']
    K = len(rows)
    kind = case['pkind']
    ctx.count('hist-time:' + kind)
    ctx.count(f'hist-time-sources:{K}')
    arr = np.array(ivs, dtype=np.float64).reshape((len(ivs), 2))
    lt = Livetime(arr)                       # ONE Livetime shared by all PDF instances
    pmm = ParameterModelMapper(models=[SourceModel() for _ in range(K)])
    # two instances built BEFORE first use
    sigA = SignalTimePDF(pmm=pmm, livetime=lt, time_flux_profile=mk_profile(env, case['init']), cfg=env.cfg)
    sigB = SignalTimePDF(pmm=env.pmm, livetime=lt, time_flux_profile=mk_profile(env, case['initB']), cfg=env.cfg)
    bkgA = BackgroundTimePDF(livetime=lt, time_flux_profile=mk_profile(env, case['init']), cfg=env.cfg)
    bkgB = BackgroundTimePDF(livetime=lt, time_flux_profile=mk_profile(env, case['initB']), cfg=env.cfg)
    edges = sorted({e for iv in ivs for e in iv})
    pts = set()
    for e in edges[:16]:
        pts.update([e, e - 1.0 / 32, e + 1.0 / 32])
    for r in rows + [case['init'], case['initB']]:
        pts.update([r['t0'], r['t0'] + 1.0 / 64])
    for l, u in ivs[:8]:
        pts.add(0.5 * (l + u))
    times = np.array(sorted(pts), dtype=np.float64)
    # same length as `times` (a re-used buffer would be exercised), different on/off pattern per position
    times2 = np.array([t + 1.0 / 128 for t in sorted(pts, reverse=True)], dtype=np.float64)
    n = len(times)
    rec = rec_of(kind, rows)
    rec_rev = rec_of(kind, rows[::-1])
    lt_arr = lt.uptime_mjd_intervals_arr
    snaps = snap(times, times2, rec, rec_rev, lt_arr, arr)
    watched = lambda: [times, times2, rec, rec_rev, lt.uptime_mjd_intervals_arr, arr]     # noqa: E731
    names = ['times', 'times2', 'params_recarray', 'params_recarray(rev)', 'livetime.uptime_mjd_intervals_arr', 'intervals']

    def args_ok(site):
        k = changed(snaps, watched())
        if k is not None:
            ctx.violation(site, 'argument-modified:' + names[k], 'an input array was modified by the call',
                          case=cdesc, predicate='arguments are inputs')

    def twin_sig(p):
        """fresh single-source SignalTimePDF with a fresh Livetime and profile"""
        return SignalTimePDF(pmm=env.pmm, livetime=Livetime(np.array(ivs, dtype=np.float64).reshape((len(ivs), 2))),
                             time_flux_profile=mk_profile(env, p), cfg=env.cfg)

    def state(prof):
        return (float(prof.t_start), float(prof.t_stop), float(prof.sigma_t) if kind == 'gauss' else None)

    def near_window(t, st):
        return abs(t - st[0]) < 1e-6 or abs(t - st[1]) < 1e-6

    def cmp_twin(site, tag, got, tw_vals, st, tms, extra):
        for t, a, b in zip(tms.tolist(), np.asarray(got).tolist(), np.asarray(tw_vals).tolist()):
            if kind == 'gauss' and near_window(t, st):
                continue
            if not same(a, b, 0.0 if kind == 'box' else 1e-9):
                ctx.violation(site, tag, f'pd({t}) = {a!r}, a freshly built PDF with the same parameters gives {b!r}',
                              case=dict(cdesc, **extra), impl=a, model=b,
                              predicate='the density depends on the current parameters of its own source only')
                return False
        return True
    try:
        # ---- 1. one get_pd call, K sources with different parameters; instance B interleaved
        tdmK = make_tdm_k(times, K)
        profA = sigA.time_flux_profile
        init_state = state(profA)
        tolA = float(getattr(profA, '_tol', 0.0))
        r1 = call_sig(sigA, tdmK, rec)
        c1 = np.array(r1, copy=True)
        twin_S = []
        args_ok('SignalTimePDF.get_pd')
        rB1 = call_sig(sigB, make_tdm_k(times, 1), env.rec)
        cB1 = np.array(rB1, copy=True)
        twB = twin_sig(case['initB'])
        cmp_twin('SignalTimePDF.get_pd', 'two-instances-interfere', rB1, call_sig(twB, make_tdm_k(times, 1), env.rec),
                 state(twB.time_flux_profile), times, {'instance': 'B'})
        for k, row in enumerate(rows):
            tw = twin_sig(dict(row, kind=kind))
            st = state(tw.time_flux_profile)
            tv = call_sig(tw, make_tdm_k(times, 1), env.rec)
            twin_S.append(float(tw._S))
            ok = cmp_twin('SignalTimePDF.get_pd', 'multi-source-differs-from-single-source', r1[k * n:(k + 1) * n], tv, st,
                          times, {'source': k})
            if ok and len(ivs) <= 8:
                def evalf(xs, k=k):
                    out = call_sig(sigA, make_tdm_k(np.asarray(xs, dtype=np.float64), K), rec)
                    m = len(xs)
                    return out[k * m:(k + 1) * m]
                quad_norm_check(ctx, 'SignalTimePDF.get_pd', 'multi-source-not-normalised', dict(cdesc, source=k), ivs, st,
                                evalf, float(tw._S))
        # ---- model of the state machine (calc_pd from the constructor state), same rows and times
        if lines is not None:
            head = ['MS', kind, fh(init_state[0]), fh(init_state[1])] + ([fh(init_state[2])] if kind == 'gauss' else [])
            head += [fh(tolA), str(len(ivs))] + [fh(x) for iv in ivs for x in iv]
            head += [str(K)] + [fh(float(v)) for row in rec.tolist() for v in row]
            head += [str(n)] + [fh(t) for t in times.tolist()]
            lines.append(' '.join(head))
            checks.append(('multi', cdesc, {'pd': c1.tolist(), 'S': twin_S, 'n': n, 'K': K}))
        # ---- 2. repeat / interleave / results are owned by the caller
        r2 = call_sig(sigA, tdmK, rec)
        if not (beq(r2, c1) if kind == 'box' else close_arr(r2, c1, 1e-9)):
            ctx.violation('SignalTimePDF.get_pd', 'repeat-differs', 'the same call twice gives different densities', case=cdesc)
        _ = call_sig(sigA, make_tdm_k(times2, K), rec_rev)        # other events, other parameter order
        _ = call_sig(sigB, make_tdm_k(times2, 1), env.rec)
        r3 = call_sig(sigA, tdmK, rec)
        if not (beq(r3, c1) if kind == 'box' else close_arr(r3, c1, 1e-9)):
            ctx.violation('SignalTimePDF.get_pd', 'interleave-differs',
                          'the same call gives a different density after calls with other events / parameters / instances', case=cdesc)
        if not beq(r1, c1) or not beq(rB1, cB1):
            ctx.violation('SignalTimePDF.get_pd', 'result-overwritten-by-later-call',
                          'an array returned earlier was modified by a later call', case=cdesc)
        if np.shares_memory(r1, r3) or np.shares_memory(r1, rB1):
            ctx.violation('SignalTimePDF.get_pd', 'results-share-memory', 'results of different calls share memory', case=cdesc)
        args_ok('SignalTimePDF.get_pd')
        # ---- 3. new trial data (initialize_for_new_trial pre-computes with the CURRENT profile state)
        for site, objA, objB, pA, pB in (('BackgroundTimePDF', bkgA, bkgB, case['init'], case['initB']),):
            res = {}
            for tag, tms in (('t1', times), ('t2', times2), ('t1-again', times)):
                for nm, ob, pp in (('A', objA, pA), ('B', objB, pB)):
                    tdm = make_tdm_k(tms, 1)
                    with np.errstate(all='ignore'), warnings.catch_warnings():
                        warnings.simplefilter('ignore')
                        ob.initialize_for_new_trial(tdm)
                        res[(tag, nm)] = ob.get_pd(tdm)[0]
                        if tag == 't1':
                            res[('t1c', nm)] = np.array(res[(tag, nm)], copy=True)
                    twb = BackgroundTimePDF(livetime=Livetime(np.array(ivs, dtype=np.float64).reshape((len(ivs), 2))),
                                            time_flux_profile=mk_profile(env, pp), cfg=env.cfg)
                    with np.errstate(all='ignore'), warnings.catch_warnings():
                        warnings.simplefilter('ignore')
                        twb.initialize_for_new_trial(make_tdm_k(tms, 1))
                        tv = twb.get_pd(make_tdm_k(tms, 1))[0]
                    if not beq(res[(tag, nm)], tv):
                        ctx.violation(site + '.get_pd', 'new-trial-differs-from-fresh',
                                      f'after initialize_for_new_trial ({tag}, instance {nm}) the density differs from a fresh PDF',
                                      case=cdesc)
            for nm in ('A', 'B'):
                if not beq(res[('t1', nm)], res[('t1c', nm)]):
                    ctx.violation(site + '.get_pd', 'result-overwritten-by-later-call',
                                  'the array returned for the first trial was modified by a later trial', case=cdesc)
            if kind == 'box':
                quad_norm_check(ctx, site + '.get_pd', 'not-normalised-after-new-trial', cdesc, ivs,
                                state(objA.time_flux_profile),
                                lambda xs: (objA.initialize_for_new_trial(make_tdm_k(np.asarray(xs), 1)),
                                            objA.get_pd(make_tdm_k(np.asarray(xs), 1))[0])[1], float(objA._S))
        # SignalTimePDF pre-computation for a new trial: all sources see the current profile state
        tdm1 = make_tdm_k(times2, K)
        with np.errstate(all='ignore'), warnings.catch_warnings():
            warnings.simplefilter('ignore')
            sigA.initialize_for_new_trial(tdm1)
            rt = sigA.get_pd(tdm1, rec)[0]
        stA = state(sigA.time_flux_profile)
        cur = {'kind': kind, 't0': 0.5 * (stA[0] + stA[1])}
        cur.update({'tw': stA[1] - stA[0]} if kind == 'box' else {'sigma': stA[2]})
        twc = twin_sig(cur)
        tvc = call_sig(twc, make_tdm_k(times2, 1), env.rec)
        m2 = len(times2)
        for k in range(K):
            if not cmp_twin('SignalTimePDF.get_pd', 'new-trial-differs-from-fresh', rt[k * m2:(k + 1) * m2], tvc,
                            state(twc.time_flux_profile), times2, {'source': k, 'after': 'initialize_for_new_trial'}):
                break
        args_ok('SignalTimePDF.initialize_for_new_trial')
        # ---- 4. the public setters, a profile shared by two PDFs, changes of the live-time array from outside
        def fresh_vals(ivs_now, prof_now, tms, bkg_=False):
            st_ = state(prof_now)
            cur_ = {'kind': kind, 't0': 0.5 * (st_[0] + st_[1])}
            cur_.update({'tw': st_[1] - st_[0]} if kind == 'box' else {'sigma': st_[2]})
            lt_ = Livetime(np.array(ivs_now, dtype=np.float64).reshape((len(ivs_now), 2)))
            if bkg_:
                tb = BackgroundTimePDF(livetime=lt_, time_flux_profile=mk_profile(env, cur_), cfg=env.cfg)
                with np.errstate(all='ignore'), warnings.catch_warnings():
                    warnings.simplefilter('ignore')
                    tb.initialize_for_new_trial(make_tdm_k(tms, 1))
                    return np.array(tb.get_pd(make_tdm_k(tms, 1))[0]), tb, st_
            ts_ = SignalTimePDF(pmm=env.pmm, livetime=lt_, time_flux_profile=mk_profile(env, cur_), cfg=env.cfg)
            return call_sig(ts_, make_tdm_k(tms, 1), env.rec), ts_, st_

        def cmp_obj(site, tag, got, ivs_now, prof_now, tms, bkg_=False):
            tv, tw_, st_ = fresh_vals(ivs_now, prof_now, tms, bkg_)
            for t, a, b in zip(tms.tolist(), np.asarray(got).tolist(), tv.tolist()):
                if kind == 'gauss' and near_window(t, st_):
                    continue
                if not same(a, b, 1e-9):
                    ctx.violation(site, tag, f'pd({t}) = {a!r}, a freshly built PDF with the current live time and '
                                  f'profile gives {b!r} (cached S = {float(getattr(tw_, "_S")):.6g} for the fresh one)',
                                  case=dict(cdesc, step=tag), impl=a, model=b,
                                  predicate='the density depends on the current live time and profile only')
                    return
        sigC = SignalTimePDF(pmm=env.pmm, livetime=lt, time_flux_profile=mk_profile(env, case['init']), cfg=env.cfg)
        bkgC = BackgroundTimePDF(livetime=lt, time_flux_profile=mk_profile(env, case['init']), cfg=env.cfg)
        _ = call_sig(sigC, make_tdm_k(times, 1), env.rec)              # read before the mutations
        # (a) time_flux_profile setter
        newp = mk_profile(env, dict(rows[0], kind=kind))
        sigC.time_flux_profile = newp
        _, twS, _ = fresh_vals(ivs, newp, times)
        if not same(float(sigC._S), float(twS._S), 1e-9):
            ctx.violation('SignalTimePDF.time_flux_profile', 'stale-S-after-setter',
                          f'_S = {float(sigC._S)!r} right after the setter, a fresh PDF has {float(twS._S)!r}', case=cdesc)
        cmp_obj('SignalTimePDF.time_flux_profile', 'stale-normalisation-after-setter',
                call_sig(sigC, make_tdm_k(times, 1), env.rec), ivs, newp, times)
        bkgC.time_flux_profile = mk_profile(env, dict(rows[0], kind=kind))
        with np.errstate(all='ignore'), warnings.catch_warnings():
            warnings.simplefilter('ignore')
            bkgC.initialize_for_new_trial(make_tdm_k(times, 1))
            gb = bkgC.get_pd(make_tdm_k(times, 1))[0]
        cmp_obj('BackgroundTimePDF.time_flux_profile', 'stale-normalisation-after-setter', gb, ivs,
                bkgC.time_flux_profile, times, bkg_=True)
        # (b) livetime setter: drop the first interval / shrink the last one
        ivs2 = [(l, u) for (l, u) in ivs[1:]] or [(ivs[0][0], 0.5 * (ivs[0][0] + ivs[0][1]))]
        sigC.livetime = Livetime(np.array(ivs2, dtype=np.float64).reshape((len(ivs2), 2)))
        _, twS, _ = fresh_vals(ivs2, sigC.time_flux_profile, times)
        if not same(float(sigC._S), float(twS._S), 1e-9):
            ctx.violation('SignalTimePDF.livetime', 'stale-S-after-setter',
                          f'_S = {float(sigC._S)!r} right after the setter, a fresh PDF has {float(twS._S)!r}', case=cdesc)
        cmp_obj('SignalTimePDF.livetime', 'stale-normalisation-after-setter',
                call_sig(sigC, make_tdm_k(times, 1), env.rec), ivs2, sigC.time_flux_profile, times)
        bkgC.livetime = Livetime(np.array(ivs2, dtype=np.float64).reshape((len(ivs2), 2)))
        with np.errstate(all='ignore'), warnings.catch_warnings():
            warnings.simplefilter('ignore')
            bkgC.initialize_for_new_trial(make_tdm_k(times, 1))
            gb = bkgC.get_pd(make_tdm_k(times, 1))[0]
        cmp_obj('BackgroundTimePDF.livetime', 'stale-normalisation-after-setter', gb, ivs2, bkgC.time_flux_profile,
                times, bkg_=True)
        # (c) ONE profile object shared by a signal and a background PDF: the signal PDF's rows alter it
        shared = mk_profile(env, case['init'])
        ltS = Livetime(np.array(ivs, dtype=np.float64).reshape((len(ivs), 2)))
        sigS = SignalTimePDF(pmm=env.pmm, livetime=ltS, time_flux_profile=shared, cfg=env.cfg)
        bkgS = BackgroundTimePDF(livetime=ltS, time_flux_profile=shared, cfg=env.cfg)
        with np.errstate(all='ignore'), warnings.catch_warnings():
            warnings.simplefilter('ignore')
            bkgS.initialize_for_new_trial(make_tdm_k(times, 1))
            _ = bkgS.get_pd(make_tdm_k(times, 1))
        _ = call_sig(sigS, make_tdm_k(times, 1), rec_of(kind, rows[:1]))
        with np.errstate(all='ignore'), warnings.catch_warnings():
            warnings.simplefilter('ignore')
            bkgS.initialize_for_new_trial(make_tdm_k(times, 1))
            gb = bkgS.get_pd(make_tdm_k(times, 1))[0]
        cmp_obj('BackgroundTimePDF.get_pd', 'stale-normalisation-shared-profile', gb, ivs, shared, times, bkg_=True)
        # (d) the profile / the live-time array changed from outside
        if kind == 'box':
            shared.tw = float(shared.tw) + 0.5
        else:
            shared.sigma_t = float(shared.sigma_t) * 2
        cmp_obj('SignalTimePDF.get_pd', 'stale-normalisation-after-outside-change',
                call_sig(sigS, make_tdm_k(times, 1), env.rec), ivs, shared, times)
        ltS.uptime_mjd_intervals_arr = np.array(ivs2, dtype=np.float64).reshape((len(ivs2), 2))
        cmp_obj('SignalTimePDF.get_pd', 'stale-normalisation-after-outside-change',
                call_sig(sigS, make_tdm_k(times, 1), env.rec), ivs2, shared, times)
        with np.errstate(all='ignore'), warnings.catch_warnings():
            warnings.simplefilter('ignore')
            bkgS.initialize_for_new_trial(make_tdm_k(times, 1))
            gb = bkgS.get_pd(make_tdm_k(times, 1))[0]
        cmp_obj('BackgroundTimePDF.get_pd', 'stale-normalisation-after-outside-change', gb, ivs2, shared, times, bkg_=True)
        if lines is not None and float(sigS._S) > 0:
            # the float model at the object's final state (intervals ivs2, profile `shared`)
            fin = call_sig(sigS, make_tdm_k(times, 1), env.rec)
            stS = state(shared)
            head = ['T', kind, fh(stS[0]), fh(stS[1])] + ([fh(stS[2])] if kind == 'gauss' else [])
            head += [str(len(ivs2))] + [fh(x) for iv in ivs2 for x in iv] + [str(n)] + [fh(t) for t in times.tolist()]
            lines.append(' '.join(head))
            checks.append(('time', dict(cdesc, kind='time', ivs=ivs2, profile={'kind': kind, 'place': 'after-ops',
                                                                              'sigma': stS[2] or 0.0}),
                           {'S': float(sigS._S), 'Sb': float(bkgS._S), 'probes': times.tolist(), 'sig': fin.tolist(),
                            'bkg': np.asarray(gb).tolist()}))
        ctx.count('hist-time-done')
    except Exception as ex:
        ctx.violation('harness.time_history_case', 'crash-' + type(ex).__name__, repr(ex)[:300], case=cdesc)


# ---------------------------------------------------------------------------- spatial PDF histories

def gen_shist_hist_case(ctx, rng):
    nb = rng.choice([3, 4, 6])
    e = sorted(rng.sample(range(-8, 9), nb + 1))
    ev = []
    for i in range(nb):                       # every bin populated: the constructor accepts
        for _ in range(rng.randint(1, 12)):
            ev.append((rng.randint(e[i] * 2, e[i + 1] * 2 - 1), rng.choice([1.0, 1.0, 0.5, 2.0])))
    adds = []
    for _ in range(2):
        adds.append([rng.choice(e) * 2 if rng.random() < 0.3 else rng.randint(e[0] * 2 - 2, e[-1] * 2 + 2)
                     for _ in range(rng.randint(1, max(2, len(ev))))])
    return {'kind': 'shist-history', 'e': e, 'ev': ev, 'adds': adds, 'k': rng.choice([1, 2])}


def shist_history_case(ctx, cfg, case, lines=None, checks=None):
    from skyllh.core.binning import BinningDefinition
    from skyllh.i3.backgroundpdf import BackgroundI3SpatialPDF, DataBackgroundI3SpatialPDF, MCBackgroundI3SpatialPDF
    from skyllh.core.storage import DataFieldRecordArray as DFRA
    cdesc = dict(case)
    ctx.count('hist-shist')
    e = np.array(case['e'], dtype=np.float64) / 8.0
    xs = np.array([v[0] for v in case['ev']], dtype=np.float64) / 16.0
    ws = np.array([v[1] for v in case['ev']], dtype=np.float64)
    adds = [np.array(a, dtype=np.float64) / 16.0 for a in case['adds']]
    evs = []
    for a in adds:
        r = np.zeros(len(a), dtype=[('sin_dec', np.float64), ('other', np.float64)])
        r['sin_dec'] = a
        evs.append(r)
    w = np.diff(e)

    def mk(x, wt):
        with np.errstate(all='ignore'), warnings.catch_warnings():
            warnings.simplefilter('ignore')
            return BackgroundI3SpatialPDF(cfg=cfg, data_sin_dec=x, data_weights=wt,
                                          sin_dec_binning=BinningDefinition('sin_dec', e.copy()), spline_order_sin_dec=case['k'])

    def observe(pdf, b):
        c = b.bincenters
        q = np.concatenate([c, e[:-1] + 0.25 * w, [e[0], e[-1]]])
        tdm = TDM(sin_dec=q)
        with np.errstate(all='ignore'), warnings.catch_warnings():
            warnings.simplefilter('ignore')
            pdf.initialize_for_new_trial(tdm)
            pd = np.array(pdf.get_pd(tdm)[0], copy=True)
            dens = np.exp(pdf._log_spline(c))
        return pd, dens

    trace = []
    trace_of = [None]

    def check(tag, pdf, b, x_all, w_all, site):
        pd, dens = observe(pdf, b)
        if pdf is trace_of[0]:
            trace.append(dens.tolist())
        tw = mk(x_all, w_all)
        pdt, denst = observe(tw, tw.get_binning('sin_dec'))
        if not (close_arr(pd, pdt, 1e-12) and close_arr(dens, denst, 1e-12)):
            ctx.violation(site, 'differs-from-fresh',
                          f'{tag}: the density differs from a PDF freshly built from the same (combined) sample',
                          case=dict(cdesc, step=tag), impl=dens.tolist(), model=denst.tolist(),
                          predicate='the density is a function of the current sample only')
        tot = float(np.sum(dens * w))
        sph = float(2 * math.pi * np.sum(pd[:len(w)] * w))
        if not (np.all(dens > 0) and abs(tot - 1.0) <= 1e-9 and abs(sph - 1.0) <= 1e-9):
            ctx.violation(site, 'not-normalised', f'{tag}: sum_i f(center_i) width_i = {tot!r}, sphere = {sph!r}',
                          case=dict(cdesc, step=tag), impl=[tot, sph], predicate='step reading of the density integrates to 1')
        return pd
    try:
        bA = BinningDefinition('sin_dec', e.copy())
        m3 = max(1, len(xs) // 3)
        xsB = np.concatenate([xs, xs[:m3]])              # a different sample with every bin populated
        wsB = np.concatenate([ws, 3.0 * ws[:m3]])
        snaps = snap(xs, ws, e, evs[0], evs[1])
        with np.errstate(all='ignore'), warnings.catch_warnings():
            warnings.simplefilter('ignore')
            A = BackgroundI3SpatialPDF(cfg=cfg, data_sin_dec=xs, data_weights=ws, sin_dec_binning=bA, spline_order_sin_dec=case['k'])
            B = BackgroundI3SpatialPDF(cfg=cfg, data_sin_dec=xsB, data_weights=wsB, sin_dec_binning=bA,
                                       spline_order_sin_dec=case['k'])
        orig_hist = np.array(A._orig_hist, copy=True)
        inr = lambda a: a[(a >= e[0]) & (a <= e[-1])]            # noqa: E731
        site = 'BackgroundI3SpatialPDF'
        trace_of[0] = A
        p0 = check('constructed', A, bA, xs, ws, site)
        p0c = p0.copy()
        check('constructed (second instance)', B, bA, xsB, wsB, site)
        steps = [('add_events#1', 0), ('add_events#2', 1), ('reset', None), ('add_events#1 after reset', 0)]
        for tag, idx in steps:
            with np.errstate(all='ignore'), warnings.catch_warnings():
                warnings.simplefilter('ignore')
                if idx is None:
                    A.reset()
                    xa, wa = xs, ws
                else:
                    A.add_events(evs[idx])
                    xa = np.concatenate([xs, inr(adds[idx])])
                    wa = np.concatenate([ws, np.ones(len(inr(adds[idx])))])
            check(tag, A, bA, xa, wa, site + ('.reset' if idx is None else '.add_events'))
            check(tag + ' (other instance untouched)', B, bA, xsB, wsB, site + '.two-instances')
            if not beq(A._orig_hist, orig_hist):
                ctx.violation(site + '.add_events', 'stored-histogram-modified', f'{tag}: the stored original histogram changed',
                              case=dict(cdesc, step=tag))
        if lines is not None:
            edges_l = e.tolist()
            nb = len(edges_l) - 1

            def brute(vals, wts):
                t = [[] for _ in range(nb)]
                for x, wt in zip(vals, wts):
                    for i in range(nb):
                        if edges_l[i] <= x < edges_l[i + 1] or (i == nb - 1 and x == edges_l[-1]):
                            t[i].append(wt)
                return [math.fsum(z) for z in t]
            orig = brute(xs.tolist(), ws.tolist())
            toks = ['AE', str(nb)] + [fh(v) for v in orig] + [fh(v) for v in edges_l]
            for tag, idx in steps:
                if idx is None:
                    toks.append('R')
                else:
                    toks += ['A'] + [fh(v) for v in brute(adds[idx].tolist(), [1.0] * len(adds[idx]))]
            lines.append(' '.join(toks))
            checks.append(('addev', cdesc, {'trace': trace, 'nb': nb}))
        if not beq(p0, p0c):
            ctx.violation(site + '.get_pd', 'result-overwritten-by-later-call', 'an array returned earlier was modified', case=cdesc)
        k = changed(snaps, [xs, ws, e, evs[0], evs[1]])
        if k is not None:
            ctx.violation(site, 'argument-modified:' + ['data_sin_dec', 'data_weights', 'binedges', 'events#1', 'events#2'][k],
                          'an input array was modified', case=cdesc)
        if not beq(bA.binedges, e):
            ctx.violation(site, 'argument-modified:binning', 'the BinningDefinition was modified', case=cdesc)
        # the data / MC wrappers are the base class on the same arrays
        rec = np.zeros(len(xs), dtype=[('sin_dec', np.float64), ('w1', np.float64), ('w2', np.float64)])
        rec['sin_dec'] = xs
        rec['w1'] = 0.25 * ws
        rec['w2'] = 0.75 * ws
        d = DFRA(rec)
        cols = snap(d['sin_dec'], d['w1'], d['w2'])
        with np.errstate(all='ignore'), warnings.catch_warnings():
            warnings.simplefilter('ignore')
            M = MCBackgroundI3SpatialPDF(cfg=cfg, data_mc=d, physics_weight_field_names=['w1', 'w2'], sin_dec_binning=bA,
                                         spline_order_sin_dec=case['k'])
            D = DataBackgroundI3SpatialPDF(cfg=cfg, data_exp=d, sin_dec_binning=bA, spline_order_sin_dec=case['k'])
        check('MCBackgroundI3SpatialPDF', M, bA, xs, 0.25 * ws + 0.75 * ws, 'MCBackgroundI3SpatialPDF')
        check('DataBackgroundI3SpatialPDF', D, bA, xs, np.ones(len(xs)), 'DataBackgroundI3SpatialPDF')
        if changed(cols, [d['sin_dec'], d['w1'], d['w2']]) is not None:
            ctx.violation('MCBackgroundI3SpatialPDF', 'argument-modified:data_mc', 'a column of the stored data was modified', case=cdesc)
    except Exception as ex:
        ctx.violation('harness.shist_history_case', 'crash-' + type(ex).__name__, repr(ex)[:300], case=cdesc)


# ---------------------------------------------------------------------------- energy PDF histories

def ehist_history_case(ctx, cfg, case):
    """two I3EnergyPDF instances alive at once, repeated / interleaved get_pd, inputs unchanged, wrappers"""
    from skyllh.core.binning import BinningDefinition
    from skyllh.i3.pdf import I3EnergyPDF
    from skyllh.i3.backgroundpdf import DataBackgroundI3EnergyPDF, MCBackgroundI3EnergyPDF
    from skyllh.core.storage import DataFieldRecordArray as DFRA
    cdesc = dict(case, kind='ehist-history')
    ev = case['ev']
    if len(ev) < 2:
        return
    ctx.count('hist-ehist')
    try:
        eE = np.array(case['eE'], dtype=np.float64) / 8.0
        eS = np.array(case['eS'], dtype=np.float64) / 8.0
        le = np.array([e[0] / 16.0 for e in ev])
        sd = np.array([e[1] / 16.0 for e in ev])
        mcw = np.array([e[2] for e in ev])
        phw = np.array([e[3] for e in ev])
        be, bs = BinningDefinition('log_energy', eE.copy()), BinningDefinition('sin_dec', eS.copy())
        snaps = snap(le, sd, mcw, phw, eE, eS)

        def mk(sl):
            with np.errstate(all='ignore'), warnings.catch_warnings():
                warnings.simplefilter('ignore')
                return I3EnergyPDF(cfg=cfg, pmm=None, data_log10_energy=le[sl], data_sin_dec=sd[sl], data_mcweight=mcw[sl],
                                   data_physicsweight=phw[sl], log10_energy_binning=be, sin_dec_binning=bs, smoothing_filter=None)
        A = mk(slice(None))
        B = mk(slice(0, None, 2))
        hA, hB = np.array(A.hist, copy=True), np.array(B.hist, copy=True)
        tx = np.array([t[0] / 16.0 for t in case['tests']])
        ty = np.array([t[1] / 16.0 for t in case['tests']])
        ok = (tx >= eE[0]) & (tx <= eE[-1]) & (ty >= eS[0]) & (ty <= eS[-1])
        tx, ty = tx[ok], ty[ok]
        tdm1 = TDM(log_energy=tx, sin_dec=ty)
        tdm2 = TDM(log_energy=tx[::-1].copy(), sin_dec=ty[::-1].copy())
        s2 = snap(tx, ty)
        a1 = A.get_pd(tdm1)[0]
        a1c = np.array(a1, copy=True)
        b1 = B.get_pd(tdm1)[0]
        A.get_pd(tdm2)
        a2 = A.get_pd(tdm1)[0]
        b2 = B.get_pd(tdm1)[0]
        if not (beq(a2, a1c) and beq(b1, b2)):
            ctx.violation('I3EnergyPDF.get_pd', 'repeat-differs', 'the same call gives different values (two instances, interleaved)', case=cdesc)
        if not beq(a1, a1c) or np.shares_memory(a1, a2) or np.shares_memory(a1, A.hist):
            ctx.violation('I3EnergyPDF.get_pd', 'result-overwritten-by-later-call',
                          'a returned array changed later or shares memory with another result / the histogram', case=cdesc)
        if not (beq(A.hist, hA) and beq(B.hist, hB)):
            ctx.violation('I3EnergyPDF.hist', 'histogram-modified-by-get_pd', 'the stored histogram changed', case=cdesc)
        tw = mk(slice(None))
        if not beq(tw.hist, hA):
            ctx.violation('I3EnergyPDF.hist', 'differs-from-fresh', 'a second construction from the same arrays differs', case=cdesc)
        k = changed(snaps + s2, [le, sd, mcw, phw, eE, eS, tx, ty])
        if k is not None or not (beq(be.binedges, eE) and beq(bs.binedges, eS)):
            ctx.violation('I3EnergyPDF', 'argument-modified', f'input array #{k} or a binning was modified', case=cdesc)
        # wrappers
        rec = np.zeros(len(le), dtype=[('log_energy', np.float64), ('sin_dec', np.float64), ('mcweight', np.float64),
                                       ('p1', np.float64), ('p2', np.float64)])
        rec['log_energy'], rec['sin_dec'], rec['mcweight'], rec['p1'], rec['p2'] = le, sd, mcw, 0.5 * phw, 0.5 * phw
        d = DFRA(rec)
        cols = snap(*[d[f] for f in ('log_energy', 'sin_dec', 'mcweight', 'p1', 'p2')])
        with np.errstate(all='ignore'), warnings.catch_warnings():
            warnings.simplefilter('ignore')
            M = MCBackgroundI3EnergyPDF(cfg=cfg, data_mc=d, physics_weight_field_names=['p1', 'p2'], log10_energy_binning=be,
                                        sin_dec_binning=bs)
            D = DataBackgroundI3EnergyPDF(cfg=cfg, data_exp=d, log10_energy_binning=be, sin_dec_binning=bs)
            D2 = I3EnergyPDF(cfg=cfg, pmm=None, data_log10_energy=le, data_sin_dec=sd, data_mcweight=np.ones(len(le)),
                             data_physicsweight=np.ones(len(le)), log10_energy_binning=be, sin_dec_binning=bs, smoothing_filter=None)
        if not close_arr(M.hist, hA, 1e-12):
            ctx.violation('MCBackgroundI3EnergyPDF', 'differs-from-fresh', 'differs from I3EnergyPDF on the same arrays', case=cdesc)
        if not beq(D.hist, D2.hist):
            ctx.violation('DataBackgroundI3EnergyPDF', 'differs-from-fresh', 'differs from I3EnergyPDF with unit weights', case=cdesc)
        if changed(cols, [d[f] for f in ('log_energy', 'sin_dec', 'mcweight', 'p1', 'p2')]) is not None:
            ctx.violation('MCBackgroundI3EnergyPDF', 'argument-modified:data_mc', 'a column of the stored data was modified', case=cdesc)
    except Exception as ex:
        ctx.violation('harness.ehist_history_case', 'crash-' + type(ex).__name__, repr(ex)[:300], case=cdesc)


# ---------------------------------------------------------------------------- constructor arguments are not aliased

def alias_case(ctx, cfg):
    """DETERMINISTIC: every ndarray handed to a binning / PDF constructor (float64 edges buffers included) is
    overwritten in place by the caller afterwards; every observable of the object must stay what it was."""
    from skyllh.core.binning import BinningDefinition
    from skyllh.i3.pdf import I3EnergyPDF
    from skyllh.i3.backgroundpdf import BackgroundI3SpatialPDF
    from skyllh.core.smoothing import BlockSmoothingFilter
    ctx.count('alias-case')
    case = {'kind': 'alias'}
    ctx.case(case)
    try:
        for smooth in (0, 1):
            eE = np.array([1.0, 1.5, 2.5, 3.0, 4.0, 6.0])           # float64 buffers owned by the caller
            eS = np.array([-1.0, -0.25, 0.5, 1.0])
            le = np.array([1.2, 1.7, 2.0, 2.9, 3.5, 5.0, 6.0, 1.0, 2.6, 4.4, 1.6, 3.2])
            sd = np.array([-0.9, -0.5, 0.0, 0.4, 0.7, 1.0, -1.0, 0.6, -0.3, 0.2, 0.9, -0.7])
            mcw = np.array([1.0, 2.0, 0.5, 1.5, 1.0, 3.0, 1.0, 2.5, 1.0, 0.5, 2.0, 1.0])
            phw = np.array([1.0, 0.5, 1.0, 0.0, 1.0, 0.25, 1.0, 1.0, 0.75, 1.0, 0.5, 1.0])
            bE = BinningDefinition('log_energy', eE)
            bS = BinningDefinition('sin_dec', eS)
            for nm, b, src in (('log_energy', bE, eE), ('sin_dec', bS, eS)):
                if np.shares_memory(b.binedges, src):
                    ctx.violation('BinningDefinition.binedges', 'aliases-caller-array',
                                  f'the {nm} BinningDefinition shares memory with the ndarray it was built from',
                                  case=dict(case, binning=nm), predicate='constructor arguments are copied')
            filt = BlockSmoothingFilter(1) if smooth else None
            with np.errstate(all='ignore'), warnings.catch_warnings():
                warnings.simplefilter('ignore')
                pdf = I3EnergyPDF(cfg=cfg, pmm=None, data_log10_energy=le, data_sin_dec=sd, data_mcweight=mcw,
                                  data_physicsweight=phw, log10_energy_binning=bE, sin_dec_binning=bS, smoothing_filter=filt)
            w0 = np.diff(eE).copy()
            tx = np.array([1.0, 1.25, 1.5, 2.75, 3.9, 6.0, 5.0])
            ty = np.array([-1.0, 0.0, 0.5, 0.9, 1.0, -0.3, 0.49])
            def observe():
                t = real_tdm(log_energy=tx.copy(), sin_dec=ty.copy(), dec=np.zeros(len(tx)))
                pdf.assert_is_valid_for_trial_data(t)
                return (np.array(pdf.get_pd(t)[0], copy=True), np.array(pdf.hist, copy=True),
                        np.array(pdf.get_binning('log_energy').binedges, copy=True),
                        np.array(pdf.get_binning('sin_dec').binedges, copy=True),
                        (pdf.axes['log_energy'].vmin, pdf.axes['log_energy'].vmax))
            o1 = observe()
            # the caller re-uses its buffers (e.g. one edges buffer re-filled per season)
            eE[:] = np.linspace(1.0, 6.3, len(eE))
            eS[:] = np.array([-1.0, -0.5, 0.25, 1.0])
            le[:] = 2.0
            sd[:] = 0.0
            mcw[:] = 7.0
            phw[:] = 0.0
            if filt is not None:
                filt.axis_kernel_array[:] = 5.0
            o2 = observe()
            names = ['get_pd', 'hist', 'log_energy edges', 'sin_dec edges', 'log_energy axis']
            for nm, a, b in zip(names, o1, o2):
                if not beq(np.asarray(a, dtype=np.float64), np.asarray(b, dtype=np.float64)):
                    ctx.violation('I3EnergyPDF', 'changed-by-caller-writing-into-constructor-argument',
                                  f'{nm} changed after the caller overwrote the arrays it had passed to the constructors '
                                  f'(smoothing={smooth})', case=dict(case, observable=nm, smooth=smooth),
                                  impl=np.asarray(b, dtype=np.float64).ravel()[:8].tolist(),
                                  model=np.asarray(a, dtype=np.float64).ravel()[:8].tolist(),
                                  predicate='an object is a function of the values it was constructed from')
            # band integrals with the bin widths the object itself reports (the lookup binning)
            if not smooth:
                wl = np.diff(pdf.get_binning('log_energy').binedges)
                for j in range(pdf.hist.shape[1]):
                    col = pdf.hist[:, j]
                    if np.all(np.isfinite(col)):
                        tot = float(np.sum(col * wl))
                        if not abs(tot - 1.0) <= 1e-9:
                            ctx.violation('I3EnergyPDF.hist', 'band-not-normalised-for-lookup-binning',
                                          f'band {j}: sum h_i * (width of the bin get_pd looks up) = {tot!r}',
                                          case=dict(case, band=j), impl=tot,
                                          predicate='the histogram is normalised w.r.t. the binning used by get_pd')
                if not beq(wl, w0):
                    ctx.violation('BinningDefinition.binedges', 'changed-by-caller-writing-into-constructor-argument',
                                  'the bin widths of the registered binning changed', case=case)
        # spatial PDF + its binning
        eS = np.array([-1.0, -0.5, 0.0, 0.5, 1.0])
        xs = np.array([-0.9, -0.7, -0.4, -0.1, 0.2, 0.3, 0.6, 0.8, 1.0, -1.0])
        ws = np.array([1.0, 2.0, 1.0, 0.5, 1.5, 1.0, 2.0, 1.0, 1.0, 0.5])
        bS = BinningDefinition('sin_dec', eS)
        with np.errstate(all='ignore'), warnings.catch_warnings():
            warnings.simplefilter('ignore')
            sp = BackgroundI3SpatialPDF(cfg=cfg, data_sin_dec=xs, data_weights=ws, sin_dec_binning=bS, spline_order_sin_dec=2)
        q = np.array([-0.95, -0.75, -0.2, 0.1, 0.75, 0.99])

        def obs_sp():
            t = TDM(sin_dec=q.copy())
            sp.initialize_for_new_trial(t)
            return (np.array(sp.get_pd(t)[0], copy=True), np.array(sp._orig_hist, copy=True),
                    np.array(sp.get_binning('sin_dec').binedges, copy=True))
        s1 = obs_sp()
        evs = np.zeros(3, dtype=[('sin_dec', np.float64)])
        evs['sin_dec'] = [-0.6, 0.1, 0.9]
        sp.add_events(evs)
        sa = obs_sp()
        eS[:] = np.array([-1.0, -0.6, 0.1, 0.4, 1.0])
        xs[:] = 0.0
        ws[:] = 3.0
        evs['sin_dec'] = 0.0
        sb = obs_sp()
        sp.reset()
        s2 = obs_sp()
        for tag, a, b in (('after add_events', sa, sb), ('after reset', s1, s2)):
            for nm, u, v in zip(['get_pd', '_orig_hist', 'sin_dec edges'], a, b):
                if not beq(u, v):
                    ctx.violation('BackgroundI3SpatialPDF', 'changed-by-caller-writing-into-constructor-argument',
                                  f'{nm} ({tag}) changed after the caller overwrote the arrays it had passed in',
                                  case=dict(case, observable=nm), impl=np.asarray(v).ravel()[:8].tolist(),
                                  model=np.asarray(u).ravel()[:8].tolist(),
                                  predicate='an object is a function of the values it was constructed from')
    except Exception as ex:
        ctx.violation('harness.alias_case', 'crash-' + type(ex).__name__, repr(ex)[:300], case=case)


# ---------------------------------------------------------------------------- smoothing

def smooth_big_case(ctx, rng):
    """(200, 50) histogram with empty regions and a width-5 kernel: scipy would choose the FFT method"""
    from skyllh.core.smoothing import BlockSmoothingFilter, NeighboringBinHistSmoothingMethod, UNSMOOTH_AXIS
    r = np.random.RandomState(rng.randrange(2 ** 31))
    h = r.random_sample((200, 50))
    h[r.random_sample((200, 50)) < 0.5] = 0.0
    h[:60] = 0.0
    sm = NeighboringBinHistSmoothingMethod((BlockSmoothingFilter(2).axis_kernel_array, UNSMOOTH_AXIS))
    out = np.array(sm.smooth(h))
    ctx.count('smooth-big')
    ctx.case({'kind': 'smooth-big', 'sum': float(h.sum())})
    lo = h.min(axis=0)
    hi = h.max(axis=0)
    if not (np.all(out >= lo[None, :]) and np.all(out <= hi[None, :] * (1 + 1e-12))):
        bad = np.argwhere(out < lo[None, :])
        ctx.violation('NeighboringBinHistSmoothingMethod.smooth', 'not-a-convex-combination',
                      f'{len(bad)} smoothed bins of a (200, 50) histogram are negative / outside the input range, '
                      f'min = {float(out.min())!r}', case={'kind': 'smooth-big'}, impl=float(out.min()),
                      predicate='min h <= smoothed_i <= max h (in particular >= 0)')


def smooth_case(ctx, rng, lines, checks):
    """real NeighboringBinHistSmoothingMethod on a random 2d histogram vs smooth1 per column; convexity and the
    conservation law as predicates"""
    import scipy.signal
    from skyllh.core.smoothing import (BlockSmoothingFilter, GaussianSmoothingFilter, NeighboringBinHistSmoothingMethod,
                                       UNSMOOTH_AXIS)
    nb = rng.choice([1, 1, 2, 3])
    flt = rng.choice([BlockSmoothingFilter, GaussianSmoothingFilter])(nb)
    k = np.array(flt.axis_kernel_array, dtype=np.float64)
    n = rng.randint(len(k), len(k) + 8)
    m = rng.choice([1, 2, 4])
    h = np.array([[0.0 if rng.random() < 0.3 else rng.random() * rng.choice([1, 10]) for _ in range(m)] for _ in range(n)])
    case = {'kind': 'smooth', 'k': k.tolist(), 'h': h.tolist()}
    ctx.case(case)
    ctx.count('smooth:' + type(flt).__name__)
    h0 = h.copy()
    sm = NeighboringBinHistSmoothingMethod((k, UNSMOOTH_AXIS))
    out = np.array(sm.smooth(h), dtype=np.float64)
    out2 = np.array(sm.smooth(h), dtype=np.float64)
    if not beq(h, h0) or not beq(out, out2):
        ctx.violation('NeighboringBinHistSmoothingMethod.smooth', 'argument-modified-or-repeat-differs',
                      'the input histogram changed or a repeated call differs', case=case)
    norm = scipy.signal.convolve(np.ones(n), k, mode='same')
    for j in range(m):
        col, s = h[:, j], out[:, j]
        lo, hi = float(col.min()), float(col.max())
        eps = 1e-12 * (1 + hi)
        if not (np.all(s >= lo - eps) and np.all(s <= hi + eps)):
            ctx.violation('NeighboringBinHistSmoothingMethod.smooth', 'not-a-convex-combination',
                          'a smoothed bin lies outside the range of the input bins (negative or unbounded)',
                          case=dict(case, column=j), impl=s.tolist(), predicate='min h <= smoothed_i <= max h')
        a, b = float(np.sum(norm * s)), float(np.sum(norm * col))
        if not same(a, b, 1e-10):
            ctx.violation('NeighboringBinHistSmoothingMethod.smooth', 'norm-weighted-mass-not-conserved',
                          f'sum norm_i smoothed_i = {a!r} but sum norm_i h_i = {b!r}', case=dict(case, column=j),
                          predicate='symmetric kernel conserves the kernel-norm weighted mass')
        lines.append(' '.join(['SM', str(len(k))] + [fh(v) for v in k.tolist()] + [str(n)] + [fh(v) for v in col.tolist()]))
        checks.append(('smooth', dict(case, column=j), s.tolist()))


def compare_list(ctx, check, out, site, tol):
    _, cdesc, impl = check
    tok = out.split()
    if not tok or tok[0].startswith('ERR'):
        ctx.disagree(site, cdesc, impl, out, 'model driver error')
        return
    vals = [pf(x) for x in tok]
    if len(vals) != len(impl) or not all(same(a, b, tol) for a, b in zip(impl, vals)):
        ctx.disagree(site, cdesc, impl, vals, 'values differ')


def compare_multi(ctx, check, out):
    _, cdesc, impl = check
    tok = out.split()
    if not tok or tok[0].startswith('ERR'):
        ctx.disagree('SignalTimePDF.multi-source', cdesc, None, out, 'model driver error')
        return
    vals = [pf(x) for x in tok]
    n, K = impl['n'], impl['K']
    if len(vals) != K * (n + 1):
        ctx.disagree('SignalTimePDF.multi-source', cdesc, None, out[:200], 'model output has the wrong length')
        return
    for k in range(K):
        S_m = vals[k * (n + 1)]
        blk = vals[k * (n + 1) + 1:(k + 1) * (n + 1)]
        S_i = impl['S'][k]
        for a, b in zip(impl['pd'][k * n:(k + 1) * n], blk):
            ok = (a == 0.0) == (b == 0.0)
            if ok and a != 0.0:
                ok = same(a * S_i, b * S_m, 1e-9) if (math.isfinite(a) and math.isfinite(b)) else same(a, b, 0.0)
            if not ok:
                ctx.disagree('SignalTimePDF.multi-source', dict(cdesc, source=k), {'pd': a, 'S_fresh': S_i},
                             {'pd': b, 'S_model': S_m}, 'source block differs from the state-machine model')
                return


def compare_addev(ctx, check, out):
    _, cdesc, impl = check
    tok = out.split()
    if not tok or tok[0] != 'Ok':
        ctx.disagree('BackgroundI3SpatialPDF.add_events', cdesc, 'Ok', out[:100], 'model rejects an accepted histogram')
        return
    vals = [pf(x) for x in tok[1:]]
    nb = impl['nb']
    want = [v for step in impl['trace'] for v in step]
    if len(vals) != len(want) or not all(same(a, b, 1e-9) for a, b in zip(want, vals)):
        ctx.disagree('BackgroundI3SpatialPDF.add_events', cdesc, want[:3 * nb], vals[:3 * nb],
                     'node values after the op sequence differ from the state-machine model')


# ============================================================================ driver

def run_cases(ctx, tcases, hcases, scases, npsf, psf_cases=None, thist=(), shhist=(), nsmooth=0):
    from skyllh.core.config import Config
    env = TimeEnv()
    cfg = Config()
    lines, checks = [], []
    zexprs, zchecks = [], []
    for c in thist:
        ctx.case(c)
        time_history_case(ctx, env, c, lines, checks)
    for c in shhist:
        ctx.case(c)
        shist_history_case(ctx, cfg, c, lines, checks)
    for c in tcases:
        ctx.case(c)
        try:
            time_case(ctx, env, c, lines, checks)
        except Exception as ex:
            ctx.violation('harness.time_case', 'crash-' + type(ex).__name__, repr(ex)[:300], case=dict(c, kind='time'))
    for c in hcases:
        ctx.case(c)
        ehist_case(ctx, cfg, c, zexprs, zchecks, lines, checks)
        if not c['smooth']:
            ehist_history_case(ctx, cfg, c)
    for c in scases:
        ctx.case(c)
        shist_case(ctx, cfg, c, zexprs, zchecks, lines, checks)
    for _ in range(nsmooth):
        smooth_case(ctx, ctx.rng, lines, checks)
    if nsmooth:
        smooth_big_case(ctx, ctx.rng)
        alias_case(ctx, cfg)
    for c in (psf_cases or [None] * npsf):
        psf_case(ctx, cfg, ctx.rng, lines, checks, case=c)
        ctx.case({'psf': ctx.evaluations})
    if tcases:
        ctx.sample({'time_case': {'ivs': tcases[-1]['ivs'][:5], 'profile': tcases[-1]['profile']}})
    if hcases:
        ctx.sample({'ehist_case': {k: (v if k != 'ev' else v[:6]) for k, v in hcases[-1].items()}})
    if not ctx.model_ok:
        ctx.notes.append('model did not build: implementation-only predicates were evaluated')
        return
    # Z model first (its `fill` results add float-model lines)
    if zexprs:
        try:
            vals = common.coq_eval('c10', IMPORTS, zexprs)
            compare_z(ctx, zchecks, vals)
        except RuntimeError as ex:
            ctx.broken.append({'kind': 'model-eval', 'error': str(ex)[:1500]})
    exe = common.ocaml_build(ctx, 'c10')
    if exe is None:
        return
    try:
        outs = common.ocaml_run(exe, lines)
    except RuntimeError as ex:
        ctx.broken.append({'kind': 'model-eval', 'error': str(ex)[:1500]})
        return
    if len(outs) != len(lines):
        ctx.broken.append({'kind': 'model-eval', 'error': f'{len(outs)} results for {len(lines)} cases'})
        return
    for chk, out in zip(checks, outs):
        ctx.corr_cases += 1
        k = chk[0]
        if k == 'time':
            compare_time(ctx, chk, out)
        elif k == 'eband':
            compare_eband(ctx, chk, out)
        elif k == 'shist':
            compare_shist(ctx, chk, out)
        elif k == 'shpd':
            compare_simple(ctx, chk, out, 'BackgroundI3SpatialPDF.pd')
        elif k == 'psf':
            compare_simple(ctx, chk, out, 'GaussianPSF.calculate_pd', tol=1e-11)
        elif k == 'multi':
            compare_multi(ctx, chk, out)
        elif k == 'addev':
            compare_addev(ctx, chk, out)
        elif k == 'smooth':
            compare_list(ctx, chk, out, 'NeighboringBinHistSmoothingMethod.smooth', 1e-11)
        elif k == 'esmooth':
            compare_list(ctx, chk, out, 'I3EnergyPDF.hist(smoothed)', 1e-11)
        elif k == 'rayleigh':
            compare_simple(ctx, chk, out, 'RayleighPSF.get_pd', col=1, tol=1e-11)


def run(ctx):
    rng = ctx.rng
    nt = ctx.budget(120, 2500)
    tcases = time_corpus()
    for n in range(1, 31):          # every interval count 1..30
        if ctx.thorough() or n in (1, 2, 3, 7, 30):
            tcases.append(gen_time_case(ctx, rng, n))
    while len(tcases) < nt:
        tcases.append(gen_time_case(ctx, rng))
    hcases = hist_corpus() + [gen_hist_case(ctx, rng) for _ in range(ctx.budget(40, 600))]
    scases = [gen_shist_case(ctx, rng) for _ in range(ctx.budget(30, 400))]
    thist = time_hist_corpus() + [gen_time_hist_case(ctx, rng) for _ in range(ctx.budget(40, 500))]
    shhist = [gen_shist_hist_case(ctx, rng) for _ in range(ctx.budget(25, 300))]
    run_cases(ctx, tcases, hcases, scases, ctx.budget(6, 60), thist=thist, shhist=shhist, nsmooth=ctx.budget(30, 400))


def replay(ctx, rp):
    c = rp.get('case') or {}
    kind = c.get('kind')
    if kind == 'ehist-history':
        c = dict(c, kind='ehist')
        kind = 'ehist'
    if kind == 'time':
        case = {'ivs': [tuple(iv) for iv in c['ivs']], 'profile': c['profile']}
        if c.get('update'):
            case['update'] = c['update']
        return run_cases(ctx, [case], [], [], 0)
    if kind == 'ehist':
        case = {k: c[k] for k in ('kind', 'eE', 'eS', 'smooth')}
        case['ev'] = [tuple(e) for e in c['ev']]
        case['tests'] = [tuple(e) for e in c['tests']]
        if 'event' in c and tuple(c['event']) not in case['tests']:
            case['tests'].append(tuple(c['event']))
        return run_cases(ctx, [], [case], [], 0)
    if kind == 'shist':
        case = {'kind': 'shist', 'e': c['e'], 'ev': [tuple(e) for e in c['ev']], 'k': c['k']}
        return run_cases(ctx, [], [], [case], 0)
    if kind == 'time-history':
        case = dict(c, ivs=[tuple(iv) for iv in c['ivs']])
        case.pop('source', None)
        return run_cases(ctx, [], [], [], 0, thist=[case])
    if kind == 'shist-history':
        case = dict(c, ev=[tuple(e) for e in c['ev']])
        case.pop('step', None)
        return run_cases(ctx, [], [], [], 0, shhist=[case])
    if kind == 'alias':
        from skyllh.core.config import Config
        return alias_case(ctx, Config())
    if kind == 'psf':
        return run_cases(ctx, [], [], [], 0, psf_cases=[{k: c[k] for k in ('kind', 'sigma', 'src', 'seed')}])
    ctx.notes.append('replay file has no concrete input (broken obligation): re-running the full check')
    return run(ctx)
