"""C15 — grid rounding hits exact grid members; interpolation is exact and consistent.

Correspondence: the real skyllh ParameterGrid / IrregularParameterGrid /
Linear1D- and Parabola1DGridManifoldInterpolationMethod against the float
instance of coq/model/M_Grid.v (extracted OCaml on IEEE doubles): rounding
results, stored grids, floatD/intD are compared BIT-EXACTLY (bit identity is the
property), interpolation values/gradients with a tight tolerance (libm may be
involved).  A sample of grids is evaluated a second time inside Coq on the
SpecFloat (IEEE-754 specification) instance, which is the number system of the
`_refuted` witness.
Predicates (failing-input search): membership, bracket, half-spacing,
fixed-point and interpolation clauses evaluated on the implementation's results
with exact rational arithmetic (fractions.Fraction), independent of the model."""
import math
from fractions import Fraction as Fr

import numpy as np

from harness import common

GEN_MODULES = ['grid']
MODEL_TARGETS = ['model/M_Grid.vo', 'model/M_GridSF.vo', 'model/M_GridPdf.vo']
PROOF_TARGETS = ['proofs/P_Grid.vo', 'proofs/P_GridInterp.vo', 'proofs/P_GridSF.vo', 'proofs/P_GridCall.vo',
                 'proofs/P_GridLocal.vo', 'proofs/P_GridIrr.vo', 'proofs/P_GridExt.vo', 'proofs/P_GridCache.vo',
                 'proofs/P_GridHist.vo', 'proofs/P_GridPdf.vo', 'proofs/P_GridBelow.vo',
                 'proofs/P_GridMember.vo', 'proofs/P_GridEnd.vo', 'proofs/P_GridAuto.vo']
LEVEL = 'proof'
RULE = ('regular grids: origin in {0, few-decimal, full-precision random, large (58000, 1e5..)} x spacing '
        'in 1e-3..1e3 (decimal and dyadic) x 2..200 points x {from_range, explicit delta, delta=None} x '
        '{plain, after add_extra_lower_and_upper_bin}; values on every kind of position (grid points, '
        'half-way points, neighbours of grid points at 1 ulp / 1e-10 / 1e-9 spacings, random); irregular '
        'sorted grids 2..60 points; interpolation: polynomial degree 0..2 and exp/sin manifolds, 1..4 '
        'sources with shared or per-source values, call histories exercising the caches; 2-3 interpolation '
        'objects with different functions / grids built before first use and called in turn; two grids alive at '
        'once; a case is '
        'non-trivial when it has >= 2 grid points and is distinct by hash of its inputs')
TRUSTED = [
    'Coq 8.16.1 kernel incl. vm_compute (no native_compute)',
    'axioms printed by Print Assumptions for the RNum theorems: ClassicalDedekindReals.sig_not_dec, '
    'sig_forall_dec, functional_extensionality_dep (construction of R), Classical_Prop.classic (Coquelicot); '
    'the structural and SpecFloat theorems are closed under the global context',
    'translator/py2coq.py: per-element reading of the numpy expressions of parameters.py / interpolate.py '
    '(kernels of G_grid.v); np.around(x, d) read as rint(x*10^d)/10^d; floatD.astype(np.int64) read as trunc',
    'hand model M_Grid.v of control flow, array plumbing and caches, validated by this correspondence',
    'extraction (ExtrOcamlBasic) + hand-written OCaml float record ocaml/common/numf.ml and driver ocaml/c15/driver.ml',
    'Coq.Floats.SpecFloat as the definition of IEEE-754 binary64 arithmetic (cross-checked against numpy and '
    'the OCaml doubles on a sample of grids in every run)',
    'float rounding: the R theorems speak about exact arithmetic; bit identity on doubles is decided per grid '
    'by computation (self_consistent), not proved for all grids (it is false for some, see the known finding)',
    'np.searchsorted on a sorted array = number of entries < v (left) / <= v (right)',
    'the manifold function is a per-entry function of (trial data state, grid value of that source, source, '
    'event) (the documented contract of `func`); values array laid out in source blocks (TrialDataManager)',
    'PDFSet registry modelled as an insertion-ordered association list keyed by h v = hash(frozenset({name: v}.items())); '
    'h is an input with the contract x == y -> h x = h y (Python); the dict itself is Python\'s',
    'decimals (Python string formatting in get_number_of_float_decimals) and np.arange / np.mean(np.diff) are '
    'inputs of the model, recomputed independently by the harness',
]

SITE_PG = 'ParameterGrid.round_to_grid_point'
KIND_COARSE = 'coarse-grid:ulp(max|grid|)/delta>=1.25e-10'
COARSE = 1.25e-10


# ------------------------------------------------------------------ helpers
def hx(x):
    return float(x).hex()


def bits(x):
    x = float(x)
    if x != x:
        return 'nan'
    if x == 0.0:
        return '0'          # +0.0 and -0.0 are the same dictionary key
    return x.hex()


def unhex(s):
    return float.fromhex(s) if s not in ('nan', 'inf', '-inf') else float(s)


def ulp(x):
    return math.ulp(abs(float(x)))


def decimals_oracle(value):
    """independent reading of get_number_of_float_decimals: index of the last
    non-zero digit among the 16 decimals printed by '%.16f'"""
    frac = ('%.16f' % value).split('.')[1]
    return len(frac.rstrip('0'))


def exc_name(ex):
    return type(ex).__name__


# ------------------------------------------------------------------ regular grids
DELTAS = [1e-3, 2e-3, 5e-3, 1e-2, 0.025, 0.05, 0.1, 0.2, 0.25, 0.3, 0.5, 1.0, 2.0, 2.5, 5.0, 10.0, 25.0,
          100.0, 250.0, 1000.0, 2.0 ** -10, 2.0 ** -7, 0.125, 0.0625]


def gen_origin(rng):
    r = rng.random()
    if r < 0.12:
        return 'zero', 0.0
    if r < 0.4:
        return 'few-decimals', round(rng.uniform(-100, 100), rng.choice([0, 1, 1, 2, 2, 3, 4]))
    if r < 0.55:
        return 'full-precision', rng.uniform(-10, 10)
    if r < 0.7:
        return 'mjd', rng.choice([58000.0, 58000.5, 57891.25, 58000.0 + rng.randint(0, 999), 55000.1])
    if r < 0.8:
        return 'large', rng.choice([1e5, -1e5, 123456.0, 1e6, -58000.25, 4096.0, 1024.0, 8191.5])
    return 'moderate', float(rng.randint(-2000, 2000)) + rng.choice([0.0, 0.5, 0.1, 0.05])


def gen_regular(ctx, rng, forced=None):
    if forced:
        return dict(forced)
    okind, origin = gen_origin(rng)
    if rng.random() < 0.8:
        delta = rng.choice(DELTAS)
    else:
        delta = round(10 ** rng.uniform(-3, 3), rng.choice([3, 4]))
        if delta <= 0:
            delta = 1e-3
    n = rng.choice([2, 2, 3, 3, 4, 5, 8, 11, 20, 50, 101, 200, 200]) if rng.random() < 0.7 else rng.randint(2, 200)
    how = rng.choice(['from_range', 'from_range', 'explicit', 'explicit', 'none'])
    ext = rng.random() < 0.4
    dec = None
    if how != 'none' and rng.random() < 0.15:
        dec = min(16, max(decimals_oracle(origin), decimals_oracle(delta)) + rng.choice([0, 1, 2]))
    return {'origin': origin, 'okind': okind, 'delta': delta, 'n': n, 'how': how, 'ext': ext, 'dec': dec,
            'seed': rng.getrandbits(32)}


def build_regular(case):
    """returns (impl grid object or exception name, arr, delta0, dec) — arr/delta0/dec are the model inputs,
    recomputed here from the case, not read from the object"""
    from skyllh.core.parameters import ParameterGrid
    o, d, n = case['origin'], case['delta'], case['n']
    how = case['how']
    if how == 'from_range':
        stop = o + (n - 1) * d
        arr = np.arange(float(o), float(stop) + float(d), float(d))
        delta0 = float(d)
        mk = lambda: ParameterGrid.from_range('p', o, stop, d, decimals=case['dec'])  # noqa: E731
    else:
        arr = np.array([o + i * d for i in range(n)], dtype=np.float64)
        if how == 'explicit':
            delta0 = float(d)
            mk = lambda: ParameterGrid('p', arr.copy(), delta=d, decimals=case['dec'])  # noqa: E731
        else:
            delta0 = float(np.mean(np.diff(arr)))
            mk = lambda: ParameterGrid('p', arr.copy())  # noqa: E731
    dec = case['dec']
    if dec is None:
        dec = max(decimals_oracle(float(arr[0])), decimals_oracle(delta0))
    try:
        g = mk()
        if case['ext']:
            g.add_extra_lower_and_upper_bin()
    except Exception as ex:
        g = exc_name(ex)
    return g, arr, delta0, dec


def test_values(rng, grid, delta, k_random):
    """values inside [grid[0], grid[-1]], tagged by position kind"""
    n = len(grid)
    out = []
    idx = sorted(set([0, 1, n - 2, n - 1] + [rng.randrange(n) for _ in range(12)]))
    idx = [i for i in idx if 0 <= i < n]
    for i in idx:
        out.append(('gridpoint', float(grid[i])))
    lo, hi = float(grid[0]), float(grid[-1])
    for i in idx:
        g = float(grid[i])
        if i + 1 < n:
            out.append(('halfway', (g + float(grid[i + 1])) / 2))
        for tag, v in (('ulp-above', math.nextafter(g, math.inf)), ('ulp-below', math.nextafter(g, -math.inf)),
                       ('1e-10-above', g + 1e-10 * delta), ('1e-10-below', g - 1e-10 * delta),
                       ('6e-10-below', g - 6e-10 * delta), ('4e-9-above', g + 4e-9 * delta),
                       ('quarter', g + 0.25 * delta), ('three-quarter', g + 0.75 * delta)):
            if lo <= v <= hi:
                out.append((tag, float(v)))
    for _ in range(k_random):
        out.append(('random', rng.uniform(lo, hi)))
    return out


def grid_line(case, arr, delta0, dec, vals):
    return ' '.join(['G', str(dec), hx(delta0), '1' if case['ext'] else '0', str(len(arr))] + [hx(a) for a in arr]
                    + [str(len(vals))] + [hx(v) for _, v in vals])


def regular_predicates(ctx, case, g, vals, res):
    """the property evaluated on the implementation's results (exact rationals)"""
    grid = [float(x) for x in g.grid]
    delta = float(g.delta)
    lb = float(g.lower_bound)
    maxabs = max(abs(grid[0]), abs(grid[-1]), abs(lb))
    coarse = ulp(maxabs) / delta >= COARSE
    ctx.count('grid:coarse' if coarse else 'grid:fine')
    members = {bits(x): i for i, x in enumerate(grid)}
    tol = Fr(5e-10) * Fr(delta) + 4 * Fr(ulp(maxabs))
    D = Fr(delta)

    # The open finding is: on a coarse grid a value within float resolution of a grid point is assigned to a
    # NEIGHBOURING cell (lower / nearest / upper off by one spacing).  The clauses that can fail through it are
    # "a grid point is a fixed point of lower / nearest, upper gives the next one", "value < upper",
    # "lower <= value" and "nearest within half a spacing" -- and only for values within a few ulps of a grid
    # point.  Membership, strict monotonicity of the stored grid and upper = member after lower are never
    # waived, nor is any clause for a value that is not next to a grid point.
    near_tol = 8 * ulp(maxabs)

    def bad(what, tag, v, detail, obs):
        c = dict(case)
        c.update({'value': hx(v), 'position': tag})
        near_point = min(abs(v - x) for x in grid) <= near_tol
        if coarse and near_point and what in ('grid-point-fixed', 'value<upper', 'lower<=value', 'nearest<=half-spacing'):
            ctx.violation(SITE_PG, KIND_COARSE, detail, case=c, impl=obs, predicate=what)
        else:
            ctx.violation(SITE_PG, ('coarse-grid:' if coarse else 'fine-grid:') + what, detail, case=c, impl=obs,
                          predicate=what)

    # strictly increasing stored grid with distinct members
    if any(not (a < b) for a, b in zip(grid, grid[1:])):
        bad('grid-strictly-increasing', 'grid', grid[0], 'stored grid is not strictly increasing', [hx(x) for x in grid[:6]])
    for (tag, v), (fD, iD, ne, lo, up) in zip(vals, res):
        V = Fr(v)
        ctx.count('value:' + tag)
        il, iu, inr = members.get(bits(lo)), members.get(bits(up)), members.get(bits(ne))
        last = v >= grid[-1] - float(tol)
        obs = {'lower': hx(lo), 'nearest': hx(ne), 'upper': hx(up)}
        if il is None or inr is None or (iu is None and not last):
            bad('member', tag, v, 'a rounded value is not bit-identical to a grid member', obs)
            continue
        if not (Fr(lo) <= V + tol):
            bad('lower<=value', tag, v, 'lower grid point above the value', obs)
        if not (V < Fr(up)):
            bad('value<upper', tag, v, 'upper grid point not above the value', obs)
        if iu is not None and iu != il + 1:
            bad('upper=lower+spacing', tag, v, 'upper is not the member following lower', obs)
        if abs(Fr(ne) - V) > D / 2 + tol:
            bad('nearest<=half-spacing', tag, v, 'nearest grid point more than half a spacing away', obs)
        if tag == 'gridpoint':
            i = members[bits(v)]
            if il != i or inr != i or (iu is not None and iu != i + 1):
                bad('grid-point-fixed', tag, v, f'grid point #{i}: lower -> #{il}, nearest -> #{inr}, upper -> #{iu}', obs)


def run_regular(ctx, exe, cases):
    lines, metas = [], []
    for case in cases:
        rng = __import__('random').Random(case['seed'])
        g, arr, delta0, dec = build_regular(case)
        ctx.case({k: case[k] for k in ('origin', 'delta', 'n', 'how', 'ext', 'dec')}, nontrivial=len(arr) >= 2)
        ctx.count('how:' + case['how'] + ('+ext' if case['ext'] else ''))
        ctx.count('origin:' + case.get('okind', 'corpus'))
        ctx.count('npoints:' + ('2' if len(arr) == 2 else '3-10' if len(arr) <= 10 else '11-100' if len(arr) <= 100 else '101-201'))
        if isinstance(g, str):
            impl = ['Err', g]
            vals = []
        else:
            if g.decimals != dec:
                ctx.violation('ParameterGrid.__init__', 'decimals-differ-from-oracle',
                              f'decimals {g.decimals} != {dec}', case=case, impl=g.decimals, model=dec)
            grid = np.array(g.grid, dtype=np.float64)
            vals = test_values(rng, grid, float(g.delta), ctx.budget(8, 20)) if len(grid) >= 2 else []
            varr = np.array([v for _, v in vals], dtype=np.float64)
            (fD, iD) = g._calc_floatD_and_intD(varr) if len(vals) else ([], [])
            ne = g.round_to_nearest_grid_point(varr) if len(vals) else []
            lo = g.round_to_lower_grid_point(varr) if len(vals) else []
            up = g.round_to_upper_grid_point(varr) if len(vals) else []
            res = [(float(fD[i]), float(iD[i]), float(ne[i]), float(lo[i]), float(up[i])) for i in range(len(vals))]
            # scalar path agrees with the array path
            for i in (0, len(vals) // 2):
                if len(vals) and not (bits(g.round_to_lower_grid_point(float(varr[i]))) == bits(lo[i])
                                      and bits(g.round_to_nearest_grid_point(float(varr[i]))) == bits(ne[i])
                                      and bits(g.round_to_upper_grid_point(float(varr[i]))) == bits(up[i])):
                    ctx.violation(SITE_PG, 'scalar-differs-from-array', 'scalar call differs from array call',
                                  case=dict(case, value=hx(varr[i])))
            pts = [float(x) for x in grid]
            sc_impl = (len(pts) >= 1
                       and [bits(x) for x in g.round_to_lower_grid_point(grid)] == [bits(x) for x in pts]
                       and [bits(x) for x in g.round_to_nearest_grid_point(grid)] == [bits(x) for x in pts]
                       and [bits(x) for x in g.round_to_upper_grid_point(grid[:-1])] == [bits(x) for x in pts[1:]])
            ctx.count('self_consistent:' + str(bool(sc_impl)))
            impl = ['Ok', bits(g.lower_bound), bits(g.delta), [bits(x) for x in pts], sc_impl,
                    [tuple(bits(x) for x in r) for r in res]]
            if len(grid) >= 2:
                regular_predicates(ctx, case, g, vals, res)
        lines.append(grid_line(case, arr, delta0, dec, vals))
        metas.append((case, impl, len(vals)))
    if exe is None:
        return
    outs = common.ocaml_run(exe, lines)
    for (case, impl, nv), out in zip(metas, outs):
        ctx.corr_cases += 1
        t = out.split()
        if t[0] != 'Ok':
            model = ['Err', t[1] if len(t) > 1 else '?']
        else:
            n = int(t[3])
            gridm = [bits(unhex(x)) for x in t[4:4 + n]]
            sc = t[4 + n] == '1'
            rest = t[5 + n:]
            per = [tuple(bits(unhex(x)) for x in rest[5 * i:5 * i + 5]) for i in range(nv)]
            model = ['Ok', bits(unhex(t[1])), bits(unhex(t[2])), gridm, sc, per]
        if model != impl:
            ctx.disagree('ParameterGrid', case, _short(impl), _short(model),
                         'float model and implementation are not bit-identical')


def _short(r):
    if r[0] != 'Ok':
        return r
    return ['Ok', r[1], r[2], r[3][:4] + (['...'] if len(r[3]) > 4 else []), r[4],
            [p for p in r[5]][:3]]


# ------------------------------------------------------------------ SpecFloat cross-check (inside Coq)
SF_IMPORTS = ('From Coq Require Import ZArith List SpecFloat. Import ListNotations. Open Scope Z_scope.\n'
              'From Sky Require Import Result PyList Num M_Grid M_GridSF.\n')


def sf_lit(x):
    m, e = math.frexp(float(x))
    mi = int(m * 2 ** 53)
    return f'(sf_of ({mi}) ({e - 53}))'


def sf_val(p):
    m, e = p
    if e == 9999:
        return math.nan if m == 0 else math.copysign(math.inf, m)
    return math.ldexp(m, e)


def run_specfloat(ctx, cases):
    exprs, metas = [], []
    for case in cases:
        g, arr, delta0, dec = build_regular(case)
        if isinstance(g, str) or len(arr) > 12:
            continue
        grid = np.array(g.grid)
        lo = g.round_to_lower_grid_point(grid)
        up = g.round_to_upper_grid_point(grid)
        ne = g.round_to_nearest_grid_point(grid)
        arrl = '[' + '; '.join(sf_lit(a) for a in arr) + ']'
        ext = 'pg_extend SFNum' if case['ext'] else 'Ok'
        exprs.append(
            f'match (do p0 <- sf_grid {sf_lit(delta0)} {dec} {arrl}; {ext} p0) with '
            f'| Ok p => (map sf_repr (pg_grid p), (map sf_repr (map (round_lower SFNum (pg_desc p)) (pg_grid p)), '
            f'(map sf_repr (map (round_nearest SFNum (pg_desc p)) (pg_grid p)), '
            f'map sf_repr (map (round_upper SFNum (pg_desc p)) (pg_grid p))))) '
            f'| Err _ => ([], ([], ([], []))) end')
        metas.append((case, [[bits(x) for x in a] for a in (grid, lo, ne, up)]))
    if not exprs:
        return
    vals = common.coq_eval('c15sf', SF_IMPORTS, exprs)
    for (case, impl), v in zip(metas, vals):
        ctx.corr_cases += 1
        ctx.count('specfloat_crosscheck')
        (a, (b, (c, d))) = v
        model = [[bits(sf_val(p)) for p in lst] for lst in (a, b, c, d)]
        if model != impl:
            ctx.disagree('ParameterGrid/SpecFloat', case, [x[:4] for x in impl], [x[:4] for x in model],
                         'SpecFloat instance and implementation are not bit-identical')


# ------------------------------------------------------------------ irregular grids
def gen_irregular(rng):
    n = rng.choice([2, 2, 3, 4, 5, 8, 13, 30, 60])
    kind = rng.choice(['random', 'log', 'clustered', 'dyadic'])
    if kind == 'log':
        pts = sorted({10 ** rng.uniform(-3, 3) for _ in range(n)})
    elif kind == 'clustered':
        c = rng.uniform(-5, 5)
        pts = sorted({c + rng.choice([1, -1]) * 10 ** rng.uniform(-12, 1) for _ in range(n)})
    elif kind == 'dyadic':
        pts = sorted({rng.randint(-64, 64) / 8 for _ in range(n)})
    else:
        pts = sorted({rng.uniform(-100, 100) for _ in range(n)})
    while len(pts) < 2:
        pts.append(pts[-1] + 1.0)
    return {'grid': [hx(p) for p in pts], 'kind': kind, 'ext': rng.random() < 0.35, 'seed': rng.getrandbits(32)}


def run_irregular(ctx, exe, cases):
    from skyllh.core.parameters import IrregularParameterGrid
    lines, metas = [], []
    for case in cases:
        rng = __import__('random').Random(case['seed'])
        pts = [unhex(s) for s in case['grid']]
        ctx.case({'irr': case['grid'], 'ext': case['ext']})
        ctx.count('irregular:' + case['kind'] + ('+ext' if case['ext'] else ''))
        g = IrregularParameterGrid('p', np.array(pts, dtype=np.float64))
        try:
            if case['ext']:
                if len(pts) < 2:
                    raise IndexError('fewer than 2 points')
                g.add_extra_lower_and_upper_bin()
            grid = [float(x) for x in g.grid]
            sorted_ok = all(a < b for a, b in zip(grid, grid[1:]))
        except Exception as ex:
            impl = ['Err', exc_name(ex)]
            lines.append(' '.join(['I', '1' if case['ext'] else '0', str(len(pts))] + case['grid'] + ['0']))
            metas.append((case, impl, []))
            continue
        vals = []
        for i, p in enumerate(grid):
            vals.append(('gridpoint', p))
            if i + 1 < len(grid):
                vals.append(('halfway', (p + grid[i + 1]) / 2))
                vals.append(('ulp-above', math.nextafter(p, math.inf)))
            if i > 0:
                vals.append(('ulp-below', math.nextafter(p, -math.inf)))
        vals += [('random', rng.uniform(grid[0], grid[-1])) for _ in range(10)]
        if len(vals) > 60:
            vals = vals[:4] + rng.sample(vals[4:-2], 50) + vals[-2:]
        if not sorted_ok:
            # extension of a grid may destroy sortedness only through rounding; searchsorted is then undefined
            ctx.count('irregular:unsorted-after-extension')
            vals = []
        res = []
        for tag, v in vals:
            r = []
            for f in (g.round_to_nearest_grid_point, g.round_to_lower_grid_point, g.round_to_upper_grid_point):
                try:
                    r.append(bits(f(float(v))))
                except Exception as ex:
                    r.append('E:' + exc_name(ex))
            res.append(tuple(r))
            # predicates
            V = Fr(v)
            ne, lo, up = r
            mem = {bits(x): i for i, x in enumerate(grid)}
            c = {'irr': [hx(x) for x in grid], 'value': hx(v), 'position': tag}
            if lo.startswith('E:') or ne.startswith('E:') or lo not in mem or ne not in mem:
                ctx.violation('IrregularParameterGrid.round', 'not-a-member', 'result is not a grid member', case=c, impl=r)
                continue
            il = mem[lo]
            if not (Fr(grid[il]) <= V and (il + 1 == len(grid) or V < Fr(grid[il + 1]))):
                ctx.violation('IrregularParameterGrid.round_to_lower_grid_point', 'not-greatest-member-below',
                              'lower is not the greatest member <= value', case=c, impl=r)
            if il + 1 < len(grid):
                if up != bits(grid[il + 1]):
                    ctx.violation('IrregularParameterGrid.round_to_upper_grid_point', 'not-next-member',
                                  'upper is not the member following lower', case=c, impl=r)
            else:
                ctx.count('irregular:upper-at-last-point:' + up)
            best = min(abs(Fr(x) - V) for x in grid)
            # the half-way decision is taken on the float mid-point (g[i]+g[i+1])/2: allow its rounding
            slack = Fr(ulp(max(abs(grid[0]), abs(grid[-1]))))
            if abs(Fr(unhex(ne)) - V) > best + slack:
                ctx.violation('IrregularParameterGrid.round_to_nearest_grid_point', 'not-nearest',
                              'nearest is not a closest member', case=c, impl=r)
        impl = ['Ok', [bits(x) for x in grid], res]
        lines.append(' '.join(['I', '1' if case['ext'] else '0', str(len(pts))] + case['grid']
                              + [str(len(vals))] + [hx(v) for _, v in vals]))
        metas.append((case, impl, vals))
    if exe is None:
        return
    outs = common.ocaml_run(exe, lines)
    for (case, impl, vals), out in zip(metas, outs):
        ctx.corr_cases += 1
        t = out.split()
        if t[0] != 'Ok':
            model = ['Err', t[1] if len(t) > 1 else '?']
        else:
            n = int(t[1])
            rest = t[2 + n:]
            conv = lambda s: s if s.startswith('E:') else bits(unhex(s))  # noqa: E731
            model = ['Ok', [bits(unhex(x)) for x in t[2:2 + n]],
                     [tuple(conv(x) for x in rest[3 * i:3 * i + 3]) for i in range(len(vals))]]
        if model != impl:
            ctx.disagree('IrregularParameterGrid', case, str(impl)[:400], str(model)[:400])


# ------------------------------------------------------------------ interpolation
class StubTDM:
    """the part of TrialDataManager the interpolation methods use; the broadcasting
    methods are the real ones (unbound functions of the real class)"""

    def __init__(self, n_per_source, state_id):
        from skyllh.core.trialdata import TrialDataManager
        self._T = TrialDataManager
        self.n_sources = len(n_per_source)
        src = np.concatenate([np.full((k,), s, dtype=np.int64) for s, k in enumerate(n_per_source)])
        evt = np.concatenate([np.arange(k, dtype=np.int64) for k in n_per_source])
        self._src_evt_idxs = (src, evt)
        self.trial_data_state_id = state_id

    @property
    def src_evt_idxs(self):
        return self._src_evt_idxs

    def get_n_values(self):
        return len(self._src_evt_idxs[0])

    def broadcast_sources_array_to_values_array(self, *a, **k):
        return self._T.broadcast_sources_array_to_values_array(self, *a, **k)

    def broadcast_sources_arrays_to_values_arrays(self, *a, **k):
        return self._T.broadcast_sources_arrays_to_values_arrays(self, *a, **k)


def manifold_py(fam, c, ident, x, s, e):
    """same operations in the same order as ocaml/c15/driver.ml:manifold (numpy float64)"""
    c0, c1, c2, c3 = c
    i = np.float64(ident)
    s = s.astype(np.float64)
    e = e.astype(np.float64)
    k0 = c0 + 0.5 * i + 0.25 * s + 0.125 * e
    k1 = c1 * (1.0 + 0.25 * s - 0.5 * e)
    k2 = c2 * (1.0 + 0.125 * s)
    if fam == 0:
        return k0 + k1 * x + k2 * x * x
    return k0 + k1 * np.exp(c3 * x) + k2 * np.sin(x)


def manifold_exact(c, ident, x, s, e):
    """polynomial family in exact rationals: value and derivative"""
    c0, c1, c2, _ = (Fr(v) for v in c)
    k0 = c0 + Fr(1, 2) * ident + Fr(1, 4) * s + Fr(1, 8) * e
    k1 = c1 * (1 + Fr(1, 4) * s - Fr(1, 2) * e)
    k2 = c2 * (1 + Fr(1, 8) * s)
    X = Fr(x)
    return k0 + k1 * X + k2 * X * X, k1 + 2 * k2 * X


def evdata(ident, n_per):
    """the event data handed to the interpolation method: row 0 = a per-event quantity (the event number),
    row 1 = a quantity of the trial data as a whole (its state id).  It is a function of the trial data
    state, which is the contract under which the caches are keyed by the state id."""
    n = max(n_per)
    return np.array([np.arange(n, dtype=np.float64), np.full((n,), float(ident))])


def make_func(fam, c, calls_log):
    """manifold function that takes what it needs about the events from its `eventdata` argument"""
    def func(tdm, eventdata, gridparams_recarray, n_values):
        gp = gridparams_recarray
        if len(gp) == 1:
            gp = np.tile(gp, tdm.n_sources)
        (src, evt) = tdm.src_evt_idxs
        x = gp['p'][src]
        calls_log.append(1)
        assert n_values == len(src)
        return manifold_py(fam, c, eventdata[1, 0], x, src, eventdata[0][evt])
    return func


def gen_interp(rng, kind):
    fam = 0 if rng.random() < 0.7 else 1
    deg = rng.choice([0, 1, 1, 2, 2])
    c = [rng.randint(-40, 40) / 8, rng.randint(-40, 40) / 8 if deg >= 1 else 0.0,
         rng.randint(-16, 16) / 8 if deg >= 2 else 0.0, rng.choice([0.25, -0.5, 0.125])]
    if fam == 1:
        deg = 9
    # fine grids only (the coarse ones are the known finding of the rounding functions)
    if rng.random() < 0.25:
        # large origin, dyadic spacing (exactly representable, still a fine grid): a relative
        # comparison of cache keys (np.isclose) would confuse neighbouring cells here
        delta = rng.choice([0.5, 0.25, 0.125, 1.0])
        origin = rng.choice([58000.0, 1024.0, 57000.5, -4096.0])
        if fam == 1:            # exp(c3 * x) would overflow
            fam, deg = 0, 2
            c[2] = rng.randint(1, 16) / 8
    else:
        delta = rng.choice([0.1, 0.2, 0.25, 0.5, 1.0, 0.05, 0.01, 0.125])
        origin = rng.choice([0.0, 1.0, -3.0, 1.5, -1.5, 2.25, 10.0, -0.3, 1.05])
    n = rng.randint(4, 40)
    nsrc = rng.randint(1, 4)
    n_per = [rng.randint(1, 3) for _ in range(nsrc)]
    if nsrc >= 2 and rng.random() < 0.3:
        # sources without any selected event (first / middle / last); at least one source keeps its events
        for j in rng.sample(range(nsrc), rng.randint(1, nsrc - 1)):
            n_per[j] = 0
    return {'kind': kind, 'fam': fam, 'deg': deg, 'c': c, 'origin': origin, 'delta': delta, 'n': n,
            'n_per': n_per, 'seed': rng.getrandbits(32)}


def interp_calls(rng, case, grid, delta):
    """call history: (state id, xs) — repeated cells (cache hits), new cells, new state ids,
    shared (length 1) and per-source values, values on grid points and half-way points"""
    nsrc = len(case['n_per'])
    # all cells of the grid, the first and the last one included (there Parabola1D asks the manifold for
    # origin - spacing and Linear1D, at the last grid point, for last + spacing)
    inner = [float(x) for x in grid]
    lo, hi = inner[0], inner[-1]
    edge = [inner[0], inner[0] + 0.25 * delta, inner[0] + 0.5 * delta, inner[0] + 0.75 * delta,
            inner[-2] + 0.25 * delta, inner[-2] + 0.5 * delta, inner[-2] + 0.75 * delta, inner[-1]]
    calls = []
    ident = rng.randint(1, 5)
    base = None
    for k in range(rng.randint(3, 7)):
        r = rng.random()
        if r < 0.2:
            ident += 1
        shared = rng.random() < 0.4 or nsrc == 1
        m = 1 if shared else nsrc
        r2 = rng.random()
        if base is not None and r2 < 0.35 and len(base) == m:
            # stay in the same cells: small moves that keep lower / nearest grid point
            xs = [min(max(b + rng.uniform(-0.04, 0.04) * delta, lo), hi) for b in base]
        elif base is not None and r2 < 0.6 and len(base) == m:
            # some sources stay in their cell, the others move to a neighbouring / another cell
            xs = []
            for b in base:
                if rng.random() < 0.5:
                    xs.append(min(max(b + rng.uniform(-0.04, 0.04) * delta, lo), hi))
                else:
                    xs.append(min(max(b + rng.choice([-1, 1, 2, -3]) * delta, lo), hi))
        else:
            xs = []
            for _ in range(m):
                p = rng.random()
                g = rng.choice(inner[:-1])
                if rng.random() < 0.3:
                    xs.append(rng.choice(edge))
                elif p < 0.25:
                    xs.append(g)
                elif p < 0.4:
                    xs.append(g + 0.5 * delta)
                else:
                    xs.append(g + rng.uniform(0.1, 0.9) * delta)
        base = xs
        calls.append((ident, [float(x) for x in xs]))
    return calls


def run_interp(ctx, exe, cases):
    from skyllh.core.parameters import ParameterGrid
    from skyllh.core.interpolate import (Linear1DGridManifoldInterpolationMethod as Lin,
                                         Parabola1DGridManifoldInterpolationMethod as Par)
    lines, metas = [], []
    for case in cases:
        rng = __import__('random').Random(case['seed'])
        o, d, n = case['origin'], case['delta'], case['n']
        arr = np.array([o + i * d for i in range(n)], dtype=np.float64)
        dec = max(decimals_oracle(float(arr[0])), decimals_oracle(d))
        pg = ParameterGrid('p', arr.copy(), delta=d)
        grid = [float(x) for x in pg.grid]
        delta = float(pg.delta)
        Cls = Lin if case['kind'] == 'L' else Par
        log = []
        func = make_func(case['fam'], case['c'], log)
        meth = Cls(func, pg)
        calls = [(i, list(x)) for (i, x) in case['calls']] if case.get('calls') else interp_calls(rng, case, grid, delta)
        if 0 in case['n_per']:
            ctx.count('interp:source-without-events')
        ctx.case({k: case[k] for k in ('kind', 'fam', 'c', 'origin', 'delta', 'n', 'n_per')} | {'calls': calls})
        ctx.count(f"interp:{case['kind']}:" + ('poly-deg%d' % case['deg'] if case['fam'] == 0 else 'exp-sin'))
        ctx.count('interp:nsources:%d' % len(case['n_per']))
        idx_src = [s for s, k in enumerate(case['n_per']) for _ in range(k)]
        idx_evt = [e for s, k in enumerate(case['n_per']) for e in range(k)]
        impl = []
        for (ident, xs) in calls:
            tdm = StubTDM(case['n_per'], ident)
            pr = np.array([(x,) for x in xs], dtype=[('p', np.float64)])
            nlog = len(log)
            try:
                (vals, grads) = meth(tdm=tdm, eventdata=evdata(ident, case['n_per']), params_recarray=pr)
                assert np.asarray(grads).shape == (1, len(vals))
                (vals_arr, grads_arr) = (vals, grads)
                vals = [float(v) for v in vals]
                gr = [float(v) for v in np.asarray(grads)[0]]
                impl.append(['Ok', vals, gr])
                # the returned arrays are the caller's: overwrite them in place; every later call (cache hits
                # included) is compared with a fresh object and with the model, so an array that is still
                # referenced by the object's cache shows up there
                vals_arr += 7.0
                grads_arr *= 100.0
            except Exception as ex:
                impl.append(['Err', exc_name(ex)])
                continue
            ctx.count('interp:cache-hit' if len(log) == nlog else 'interp:cache-miss')
            ctx.count('interp:shared-value' if len(xs) == 1 else 'interp:per-source-values')
            # ---- predicates on the implementation
            # (a) transparency of the cache / shared value: a fresh object gives the same numbers
            fresh = Cls(make_func(case['fam'], case['c'], []), pg)
            xs_full = xs if len(xs) > 1 else xs * len(case['n_per'])
            prf = np.array([(x,) for x in xs_full], dtype=[('p', np.float64)])
            (v2, g2) = fresh(tdm=StubTDM(case['n_per'], ident), eventdata=evdata(ident, case['n_per']), params_recarray=prf)
            scale = max(1.0, max(abs(v) for v in vals))
            # same floating-point operations on the same inputs: equal up to a few ulps at most
            if (max(abs(a - b) for a, b in zip(vals, v2)) > 1e-14 * scale
                    or max(abs(a - b) for a, b in zip(gr, np.asarray(g2)[0])) > 1e-14 * scale / delta):
                ctx.violation(Cls.__name__ + '.__call__', 'cached-or-shared-differs-from-fresh',
                              'result differs from a fresh per-source evaluation', case=dict(case, calls=calls),
                              impl=[vals, gr], model=[list(map(float, v2)), list(map(float, np.asarray(g2)[0]))])
            for j, (s, e) in enumerate(zip(idx_src, idx_evt)):
                x = xs_full[s]
                on_grid = bits(x) in {bits(p) for p in grid}
                if case['fam'] == 0:
                    fx, dfx = manifold_exact(case['c'], ident, x, s, e)
                    exact = case['deg'] <= (1 if case['kind'] == 'L' else 2)
                    tolv = 1e-9 * (float(abs(fx)) + 10 + abs(x) ** 2)
                    if (exact or on_grid) and abs(Fr(vals[j]) - fx) > tolv:
                        ctx.violation(Cls.__name__ + '.__call__', 'value-not-exact',
                                      'interpolated value differs from the manifold '
                                      + ('at a grid point' if on_grid else 'for a polynomial of the interpolant degree'),
                                      case=dict(case, calls=calls, entry=j), impl=vals[j], model=float(fx))
                    if exact and abs(Fr(gr[j]) - dfx) > 1e-8 * (float(abs(dfx)) + 10 + abs(x)) / min(1.0, delta):
                        ctx.violation(Cls.__name__ + '.__call__', 'gradient-not-exact',
                                      'reported gradient differs from the derivative of the polynomial manifold',
                                      case=dict(case, calls=calls, entry=j), impl=gr[j], model=float(dfx))
                elif on_grid:
                    fx = float(manifold_py(1, case['c'], ident, np.float64(x), np.array(s), np.array(e)))
                    if abs(vals[j] - fx) > 1e-9 * (abs(fx) + 10):
                        ctx.violation(Cls.__name__ + '.__call__', 'value-not-exact',
                                      'interpolated value differs from the manifold at a grid point',
                                      case=dict(case, calls=calls, entry=j), impl=vals[j], model=fx)
            # (b) the gradient is the derivative of the reported value: central difference inside the cell
            h = 1e-3 * delta
            cellpos = [((Fr(x) - Fr(grid[0])) / Fr(delta)) % 1 for x in xs_full]
            if case['kind'] == 'L':
                inside = all(Fr(1, 100) < p < Fr(99, 100) for p in cellpos)
            else:
                inside = all(abs(p - Fr(1, 2)) > Fr(1, 100) for p in cellpos)
            # the probe points x +- h must stay inside the range of the grid (the property's quantifier)
            inside = inside and all(grid[0] + 2 * h <= x <= grid[-1] - 2 * h for x in xs_full)
            if inside:
                f1 = Cls(make_func(case['fam'], case['c'], []), pg)
                vp = f1(tdm=StubTDM(case['n_per'], ident), eventdata=evdata(ident, case['n_per']),
                        params_recarray=np.array([(x + h,) for x in xs_full], dtype=[('p', np.float64)]))[0]
                vm = f1(tdm=StubTDM(case['n_per'], ident), eventdata=evdata(ident, case['n_per']),
                        params_recarray=np.array([(x - h,) for x in xs_full], dtype=[('p', np.float64)]))[0]
                for j in range(len(vals)):
                    fd = (float(vp[j]) - float(vm[j])) / (2 * h)
                    if abs(fd - gr[j]) > 1e-6 * (abs(gr[j]) + scale / delta + 1):
                        ctx.violation(Cls.__name__ + '.__call__', 'gradient-is-not-derivative-of-value',
                                      'central difference of the reported values differs from the reported gradient',
                                      case=dict(case, calls=calls, entry=j), impl=gr[j], model=fd)
                ctx.count('interp:derivative-checked')
        # model line
        t = [case['kind'], str(dec), hx(d), str(len(arr))] + [hx(a) for a in arr]
        t += [str(case['fam'])] + [hx(v) for v in case['c']]
        t += [str(len(idx_src))] + [str(v) for p in zip(idx_src, idx_evt) for v in p]
        t += [str(len(calls))]
        for (ident, xs) in calls:
            t += [str(ident), str(len(xs))] + [hx(x) for x in xs]
        lines.append(' '.join(t))
        metas.append((case, calls, impl, delta))
    if exe is None:
        return
    outs = common.ocaml_run(exe, lines)
    for (case, calls, impl, delta), out in zip(metas, outs):
        ctx.corr_cases += 1
        t = out.split()
        k = 0
        model = []
        try:
            while k < len(t):
                if t[k] == 'Ok':
                    nv = int(t[k + 1])
                    model.append(['Ok', [unhex(x) for x in t[k + 2:k + 2 + nv]],
                                  [unhex(x) for x in t[k + 2 + nv:k + 2 + 2 * nv]]])
                    k += 2 + 2 * nv
                else:
                    model.append(['Err', t[k + 1]])
                    k += 2
        except Exception:
            model = [['unparsed', out[:200]]]
        ok = len(model) == len(impl)
        if ok:
            for a, b in zip(impl, model):
                if a[0] != b[0]:
                    ok = False
                elif a[0] == 'Err':
                    ok = ok and a[1] == b[1]
                else:
                    sc = max([1.0] + [abs(v) for v in a[1]])
                    ok = ok and len(a[1]) == len(b[1]) and len(a[2]) == len(b[2])
                    ok = ok and all(abs(x - y) <= 1e-11 * sc for x, y in zip(a[1], b[1]))
                    ok = ok and all(abs(x - y) <= 1e-11 * sc / min(1.0, delta) ** 2 for x, y in zip(a[2], b[2]))
        if not ok:
            ctx.disagree(('Linear1D' if case['kind'] == 'L' else 'Parabola1D') + 'GridManifoldInterpolationMethod',
                         dict(case, calls=calls), str(impl)[:600], str(model)[:600])


# ------------------------------------------------------------------ several objects alive at once
def _interp_objects(case):
    """build ALL method objects of a multi-instance case before the first use"""
    from skyllh.core.parameters import ParameterGrid
    from skyllh.core.interpolate import (Linear1DGridManifoldInterpolationMethod as Lin,
                                         Parabola1DGridManifoldInterpolationMethod as Par)
    objs = []
    for o in case['objs']:
        arr = np.array([o['origin'] + i * o['delta'] for i in range(o['n'])], dtype=np.float64)
        pg = ParameterGrid('p', arr.copy(), delta=o['delta'])
        Cls = Lin if o['kind'] == 'L' else Par
        objs.append({'spec': o, 'arr': arr, 'pg': pg, 'Cls': Cls,
                     'dec': max(decimals_oracle(float(arr[0])), decimals_oracle(o['delta'])),
                     'meth': Cls(make_func(o['fam'], o['c'], []), pg)})
    return objs


def gen_multi(rng):
    """2-3 interpolation objects with different manifold functions (same or different grids, same or
    mixed kinds), called in turn with the same / different state ids and the same / different cells"""
    k = rng.choice([2, 2, 3])
    same_grid = rng.random() < 0.7
    kinds = rng.choice([['L'] * k, ['P'] * k, ['L', 'P', 'L'][:k]])
    base = gen_interp(rng, 'L')
    n_per = base['n_per']
    objs = []
    for j in range(k):
        g = gen_interp(rng, kinds[j])
        if same_grid or j == 0:
            g['origin'], g['delta'], g['n'] = base['origin'], base['delta'], max(base['n'], 6)
        else:
            g['n'] = max(g['n'], 6)
        if abs(g['origin']) > 1000 and g['fam'] == 1:
            g['fam'], g['deg'] = 0, 2
        objs.append({k2: g[k2] for k2 in ('kind', 'fam', 'deg', 'c', 'origin', 'delta', 'n')})
    # steps: (object, state id, position in the object's own grid as (cell index, fraction) per source)
    steps = []
    ident = rng.randint(1, 4)
    pos = None
    nsrc = len(n_per)
    for _ in range(rng.randint(4, 9)):
        r = rng.random()
        if r < 0.15:
            ident += 1
        if pos is None or r > 0.55:
            m = 1 if (rng.random() < 0.4 or nsrc == 1) else nsrc
            pos = [(rng.randint(1, 3), rng.choice([0.0, 0.5, rng.uniform(0.1, 0.9), rng.uniform(0.1, 0.9)]))
                   for _ in range(m)]
        order = list(range(k))
        rng.shuffle(order)
        for j in order[:rng.randint(2, k)]:
            steps.append((j, ident, list(pos)))
    return {'multi': True, 'objs': objs, 'n_per': n_per, 'steps': steps}


def run_multi(ctx, exe, cases):
    lines, metas = [], []
    for case in cases:
        ctx.case(case)
        ctx.count('multi:%d-objects:%s' % (len(case['objs']), ''.join(o['kind'] for o in case['objs'])))
        objs = _interp_objects(case)
        n_per = case['n_per']
        idx_src = [s for s, k in enumerate(n_per) for _ in range(k)]
        idx_evt = [e for s, k in enumerate(n_per) for e in range(k)]
        hist = [[] for _ in objs]           # per object: (ident, xs, impl result)
        kept = []                           # (result copies, live result arrays) of earlier calls
        for (j, ident, pos) in case['steps']:
            ob = objs[j]
            grid = [float(x) for x in ob['pg'].grid]
            d = float(ob['pg'].delta)
            xs = [grid[min(c, len(grid) - 3)] + f * d for (c, f) in pos]
            pr = np.array([(x,) for x in xs], dtype=[('p', np.float64)])
            snap = pr.tobytes()
            try:
                (vals, grads) = ob['meth'](tdm=StubTDM(n_per, ident), eventdata=evdata(ident, n_per), params_recarray=pr)
                res = ['Ok', [float(v) for v in vals], [float(v) for v in np.asarray(grads)[0]]]
                kept.append((np.array(vals, copy=True), np.array(grads, copy=True), vals, grads))
                if len(kept) % 2 == 0:
                    # returned arrays are owned by the caller: overwrite every second result in place
                    vals += 7.0
                    grads *= 100.0
                    kept[-1] = (np.array(vals, copy=True), np.array(grads, copy=True), vals, grads)
            except Exception as ex:
                res = ['Err', exc_name(ex)]
            if pr.tobytes() != snap:
                ctx.violation(ob['Cls'].__name__ + '.__call__', 'argument-modified',
                              'params_recarray was modified by the call', case=case)
            hist[j].append((ident, xs, res))
            ctx.count('multi:calls')
        for (cv, cg, lv, lg) in kept:
            if not (np.array_equal(cv, lv) and np.array_equal(cg, lg)):
                ctx.violation('GridManifoldInterpolationMethod.__call__', 'earlier-result-changed',
                              'arrays returned by an earlier call were changed by a later call', case=case)
                break
        # every call of every object equals the same call on its own fresh twin (built only now)
        for j, ob in enumerate(objs):
            o = ob['spec']
            for (ident, xs, res) in hist[j]:
                twin = ob['Cls'](make_func(o['fam'], o['c'], []), ob['pg'])
                pr = np.array([(x,) for x in xs], dtype=[('p', np.float64)])
                (v2, g2) = twin(tdm=StubTDM(n_per, ident), eventdata=evdata(ident, n_per), params_recarray=pr)
                want = ['Ok', [float(v) for v in v2], [float(v) for v in np.asarray(g2)[0]]]
                sc = max([1.0] + [abs(v) for v in want[1]])
                d = float(ob['pg'].delta)
                ok = (res[0] == 'Ok' and len(res[1]) == len(want[1])
                      and all(abs(a - b) <= 1e-14 * sc for a, b in zip(res[1], want[1]))
                      and all(abs(a - b) <= 1e-14 * sc / d for a, b in zip(res[2], want[2])))
                if not ok:
                    ctx.violation(ob['Cls'].__name__ + '.__call__', 'object-differs-from-its-fresh-twin',
                                  f'object #{j} of {len(objs)} alive at once returns numbers that its own fresh twin '
                                  'does not (state shared between objects?)',
                                  case=dict(case, object=j, state_id=ident, xs=xs), impl=str(res)[:300], model=str(want)[:300])
            # model: this object's own call history
            t = [o['kind'], str(ob['dec']), hx(o['delta']), str(len(ob['arr']))] + [hx(a) for a in ob['arr']]
            t += [str(o['fam'])] + [hx(v) for v in o['c']]
            t += [str(len(idx_src))] + [str(v) for pq in zip(idx_src, idx_evt) for v in pq]
            t += [str(len(hist[j]))]
            for (ident, xs, _) in hist[j]:
                t += [str(ident), str(len(xs))] + [hx(x) for x in xs]
            lines.append(' '.join(t))
            metas.append((case, j, [r for (_, _, r) in hist[j]], float(ob['pg'].delta)))
    if exe is None or not lines:
        return
    outs = common.ocaml_run(exe, lines)
    for (case, j, impl, delta), out in zip(metas, outs):
        ctx.corr_cases += 1
        model = _parse_calls(out)
        if not _calls_agree(impl, model, delta):
            ctx.disagree('GridManifoldInterpolationMethod/several-objects', dict(case, object=j),
                         str(impl)[:600], str(model)[:600])


def _parse_calls(out):
    t = out.split()
    k, model = 0, []
    try:
        while k < len(t):
            if t[k] == 'Ok':
                nv = int(t[k + 1])
                model.append(['Ok', [unhex(x) for x in t[k + 2:k + 2 + nv]],
                              [unhex(x) for x in t[k + 2 + nv:k + 2 + 2 * nv]]])
                k += 2 + 2 * nv
            else:
                model.append(['Err', t[k + 1]])
                k += 2
    except Exception:
        model = [['unparsed', out[:200]]]
    return model


def _calls_agree(impl, model, delta):
    if len(model) != len(impl):
        return False
    for a, b in zip(impl, model):
        if a[0] != b[0]:
            return False
        if a[0] == 'Err':
            if a[1] != b[1]:
                return False
            continue
        sc = max([1.0] + [abs(v) for v in a[1]])
        if len(a[1]) != len(b[1]) or len(a[2]) != len(b[2]):
            return False
        if not all(abs(x - y) <= 1e-11 * sc for x, y in zip(a[1], b[1])):
            return False
        if not all(abs(x - y) <= 1e-11 * sc / min(1.0, delta) ** 2 for x, y in zip(a[2], b[2])):
            return False
    return True


def run_grid_interleave(ctx, cases):
    """two ParameterGrid objects alive at once: rounding on one is unaffected by rounding on / extending /
    copying the other, repeated calls give the same bits, array arguments are not modified"""
    def rounds(g, v):
        return [[bits(x) for x in f(v)] for f in (g.round_to_nearest_grid_point, g.round_to_lower_grid_point,
                                                  g.round_to_upper_grid_point)]
    for ca, cb in zip(cases[0::2], cases[1::2]):
        ca, cb = dict(ca, ext=False), dict(cb, ext=False)
        ga, arr_a, _, _ = build_regular(ca)
        gb, arr_b, _, _ = build_regular(cb)
        if isinstance(ga, str) or isinstance(gb, str) or len(ga.grid) < 2 or len(gb.grid) < 2:
            continue
        ctx.count('grid_interleave')
        rng = __import__('random').Random(ca['seed'] + 7)
        va = np.array([rng.uniform(float(ga.grid[0]), float(ga.grid[-1])) for _ in range(8)] + [float(x) for x in ga.grid[:4]])
        vb = np.array([rng.uniform(float(gb.grid[0]), float(gb.grid[-1])) for _ in range(8)] + [float(x) for x in gb.grid[:4]])
        snap_a = va.tobytes()
        desc_a = (bits(ga.lower_bound), bits(ga.delta), ga.decimals, [bits(x) for x in ga.grid])
        r1 = rounds(ga, va)
        rounds(gb, vb)
        gb.add_extra_lower_and_upper_bin()
        rounds(gb, vb)
        gc = ga.copy()
        gc.add_extra_lower_and_upper_bin()
        r2 = rounds(ga, va)
        r3 = rounds(ga, va)
        twin, _, _, _ = build_regular(ca)
        r4 = rounds(twin, va)
        desc_a2 = (bits(ga.lower_bound), bits(ga.delta), ga.decimals, [bits(x) for x in ga.grid])
        if not (r1 == r2 == r3 == r4) or desc_a != desc_a2:
            ctx.violation(SITE_PG, 'object-differs-from-its-fresh-twin',
                          'rounding on a grid changed after using / extending another grid or its copy',
                          case={'a': ca, 'b': cb})
        if va.tobytes() != snap_a:
            ctx.violation(SITE_PG, 'argument-modified', 'the value array was modified by a rounding call',
                          case={'a': ca, 'b': cb})
        if len(gc.grid) != len(ga.grid) + 2:
            ctx.violation('ParameterGrid.copy', 'copy-not-independent', 'extension of the copy has the wrong size',
                          case={'a': ca})


# ------------------------------------------------------------------ PDFSet lookup by rounded grid values
def _stub_pdfset(grid_obj):
    """a REAL PDFSet filled with one stub PDF per grid point (tag = index of the grid point)"""
    from skyllh.core.config import Config
    from skyllh.core.pdf import PDF, PDFSet, PDFAxis

    class StubPDF(PDF):
        def __init__(self, tag, **kw):
            super().__init__(pmm=None, **kw)
            self.tag = tag
            self.add_axis(PDFAxis(name='x', vmin=0., vmax=1.))

        def assert_is_valid_for_trial_data(self, *a, **k):
            pass

        def get_pd(self, *a, **k):
            return None

    cfg = Config()
    ps = PDFSet(cfg=cfg, param_grid_set=grid_obj)
    for i, gp in enumerate(ps.gridparams_list):
        ps.add_pdf(StubPDF(i, cfg=cfg), gp)
    return ps


def run_pdfset_lookup(ctx, exe, cases):
    """PDFSet.get_pdf({name: rounded value}) on a real PDFSet holding one PDF per grid point: the PDF found
    is the one registered for the grid member the rounded value is bit-identical to (model: index of the
    model's rounded value in the model's stored grid); no KeyError on fine grids"""
    from skyllh.core.py import make_dict_hash
    lines, metas = [], []
    for case in cases:
        g, arr, delta0, dec = build_regular(case)
        if isinstance(g, str) or len(g.grid) < 2:
            continue
        try:
            ps = _stub_pdfset(g)
        except KeyError:
            # the registry cannot be built: either two DISTINCT grid values have the same Python hash
            # (known finding: hash(-1.0) == hash(-2.0)), or two stored grid points are equal
            vals_ = [float(x) for x in g.grid]
            if len(set(vals_)) == len(vals_) and len({hash(x) for x in vals_}) < len(vals_):
                ctx.count('pdfset:hash-collision')
                ctx.violation('PDFSet.add_pdf', 'hash-collision-of-distinct-grid-values',
                              'distinct grid values with equal hash: PDFSet.add_pdf raises KeyError',
                              case=case, impl=sorted(x for x in vals_ if [hash(y) for y in vals_].count(hash(x)) > 1))
                continue
            ctx.count('pdfset:duplicate-grid-value')
            maxabs = max(abs(float(g.grid[0])), abs(float(g.grid[-1])))
            coarse = ulp(maxabs) / float(g.delta) >= COARSE
            ctx.violation(SITE_PG, KIND_COARSE if coarse else 'fine-grid:duplicate-grid-point',
                          'two stored grid points are equal: PDFSet.add_pdf raises KeyError', case=case)
            continue
        table = {make_dict_hash({'p': float(x)}): i for i, x in enumerate(g.grid)}
        rng = __import__('random').Random(case['seed'] + 1)
        lo, hi = float(g.grid[0]), float(g.grid[-1])
        maxabs = max(abs(lo), abs(hi))
        coarse = ulp(maxabs) / float(g.delta) >= COARSE
        vals = [('random', rng.uniform(lo, hi)) for _ in range(12)] + [('gridpoint', float(x)) for x in g.grid[:6]]
        members = {bits(x): i for i, x in enumerate(g.grid)}
        impl = []
        for tag, v in vals:
            row = []
            for f in (g.round_to_nearest_grid_point, g.round_to_lower_grid_point):
                r = f(v)
                ctx.count('pdfset_lookup')
                try:
                    t = ps.get_pdf({'p': r}).tag
                except KeyError:
                    t = 'KeyError'
                row.append(t)
                if t == 'KeyError' or make_dict_hash({'p': r}) not in table:
                    ctx.violation(SITE_PG, KIND_COARSE if coarse else 'fine-grid:lookup-key-missing',
                                  'PDFSet has no PDF for the rounded value', case=dict(case, value=hx(v)))
                elif members.get(bits(r)) != t:
                    ctx.violation('PDFSet.get_pdf', 'wrong-pdf-for-rounded-value',
                                  'the PDF found is not the one registered for the grid member the value was rounded to',
                                  case=dict(case, value=hx(v)), impl=t, model=members.get(bits(r)))
            impl.append(tuple(row))
        lines.append(grid_line(case, arr, delta0, dec, vals))
        metas.append((case, impl, len(vals)))
    if exe is None or not lines:
        return
    outs = common.ocaml_run(exe, lines)
    for (case, impl, nv), out in zip(metas, outs):
        ctx.corr_cases += 1
        t = out.split()
        if t[0] != 'Ok':
            model = ['Err']
        else:
            n = int(t[3])
            gridm = {bits(unhex(x)): i for i, x in enumerate(t[4:4 + n])}
            rest = t[5 + n:]
            # per value: floatD intD nearest lower upper ; ps_get = index of the rounded value among the stored points
            model = [tuple(gridm.get(bits(unhex(rest[5 * i + k])), 'KeyError') for k in (2, 3)) for i in range(nv)]
        if model != impl:
            ctx.disagree('PDFSet.get_pdf/rounded-value', case, str(impl)[:300], str(model)[:300])


# ------------------------------------------------------------------ deterministic probes (every run, every seed)
SITE_KEY = 'GridManifoldInterpolationMethod._is_cached'
KIND_KEY = 'stale-after-func-or-eventdata-change-within-one-state'


def run_contract_probes(ctx):
    """(1) arrays returned by a call are owned by the caller (fix 1e87dec); (2) the cache key omits the
    manifold function and the event data (open finding: hit on every run); (3) interpolation in the first /
    last cell of a grid through a REAL PDFSet (after add_extra_lower_and_upper_bin every requested grid value
    must be a registered member)."""
    from skyllh.core.parameters import ParameterGrid
    from skyllh.core.interpolate import (Linear1DGridManifoldInterpolationMethod as Lin,
                                         Parabola1DGridManifoldInterpolationMethod as Par)
    n_per = [2, 1]
    pg = ParameterGrid('p', np.arange(1.0, 3.05, 0.1), delta=0.1)
    c = [1.0, 2.0, 0.5, 0.25]
    pr = np.array([(2.13,), (1.46,)], dtype=[('p', np.float64)])
    for Cls in (Lin, Par):
        # (1) ownership
        ctx.count('probe:ownership')
        m = Cls(make_func(0, c, []), pg)
        (v1, g1) = m(tdm=StubTDM(n_per, 1), eventdata=evdata(1, n_per), params_recarray=pr)
        keep = (v1.copy(), g1.copy())
        g1 *= 100.0
        v1 += 7.0
        (v2, g2) = m(tdm=StubTDM(n_per, 1), eventdata=evdata(1, n_per), params_recarray=pr)
        if not (np.array_equal(v2, keep[0]) and np.array_equal(g2, keep[1])):
            ctx.violation(Cls.__name__ + '.__call__', 'result-changed-by-writing-into-earlier-result',
                          'after the caller modified the arrays returned by a call in place, the same call '
                          'returns different numbers: the object handed out its cache storage',
                          case={'probe': 'ownership', 'kind': Cls.__name__}, impl=[v2.tolist(), g2.tolist()],
                          model=[keep[0].tolist(), keep[1].tolist()])
        for (a, b) in ((v1, v2), (g1, g2), (v1, g2), (g1, v2)):
            if np.shares_memory(a, b):
                ctx.violation(Cls.__name__ + '.__call__', 'results-of-two-calls-share-memory',
                              'arrays returned by two different calls share memory',
                              case={'probe': 'ownership', 'kind': Cls.__name__})
        # (2) cache key: the same trial data state and cell, but other event data / another function
        ctx.count('probe:cache-key')
        m = Cls(make_func(0, c, []), pg)
        (va, _) = m(tdm=StubTDM(n_per, 1), eventdata=evdata(1, n_per), params_recarray=pr)
        (vb, _) = m(tdm=StubTDM(n_per, 1), eventdata=evdata(2, n_per), params_recarray=pr)   # contract broken on purpose
        fresh = Cls(make_func(0, c, []), pg)
        (vf, _) = fresh(tdm=StubTDM(n_per, 1), eventdata=evdata(2, n_per), params_recarray=pr)
        if not np.allclose(vb, vf, rtol=1e-12, atol=0):
            ctx.violation(SITE_KEY, KIND_KEY, 'same trial data state id and grid cell, other eventdata: the values of '
                          'the first eventdata are returned', case={'probe': 'eventdata', 'kind': Cls.__name__},
                          impl=vb.tolist(), model=vf.tolist())
        m = Cls(make_func(0, c, []), pg)
        m(tdm=StubTDM(n_per, 1), eventdata=evdata(1, n_per), params_recarray=pr)
        c2 = [-3.0, 1.0, 0.25, 0.25]
        m.func = make_func(0, c2, [])
        (vb, _) = m(tdm=StubTDM(n_per, 1), eventdata=evdata(1, n_per), params_recarray=pr)
        (vf, _) = Cls(make_func(0, c2, []), pg)(tdm=StubTDM(n_per, 1), eventdata=evdata(1, n_per), params_recarray=pr)
        if not np.allclose(vb, vf, rtol=1e-12, atol=0):
            ctx.violation(SITE_KEY, KIND_KEY, 'after re-assigning the `func` property the object still answers with the '
                          'parametrisation of the old function', case={'probe': 'func-setter', 'kind': Cls.__name__},
                          impl=vb.tolist(), model=vf.tolist())
    # (3) first / last cells through a real PDFSet on the extended grid
    pgx = ParameterGrid('p', np.arange(1.0, 2.05, 0.1), delta=0.1)
    orig = [float(x) for x in pgx.grid]
    pgx.add_extra_lower_and_upper_bin()
    ps = _stub_pdfset(pgx)
    ext = [float(x) for x in pgx.grid]

    def shape(v):                      # the manifold: a smooth function of the grid value
        return 1.0 + 2.0 * v + 0.5 * v * v

    def pdf_func(tdm, eventdata, gridparams_recarray, n_values):
        gp = gridparams_recarray
        if len(gp) == 1:
            gp = np.tile(gp, tdm.n_sources)
        (src, evt) = tdm.src_evt_idxs
        out = np.empty((len(src),), dtype=np.float64)
        for j, s_ in enumerate(src):
            tag = ps.get_pdf({'p': gp['p'][s_]}).tag        # KeyError when the value is not a registered member
            out[j] = shape(ext[tag]) * (1.0 + 0.25 * evt[j])
        return out
    xs_probe = [orig[0], orig[0] + 0.03, orig[0] + 0.05, orig[0] + 0.08, orig[1], orig[-2] + 0.02,
                orig[-2] + 0.05, orig[-2] + 0.09, orig[-1]]
    for Cls in (Lin, Par):
        m = Cls(pdf_func, pgx)
        for x in xs_probe:
            ctx.count('probe:edge-cell')
            try:
                (v, g) = m(tdm=StubTDM([2], 1), eventdata=None, params_recarray=np.array([(x,)], dtype=[('p', np.float64)]))
            except KeyError as ex:
                ctx.violation(Cls.__name__ + '.__call__', 'edge-cell-requests-unregistered-grid-value',
                              'interpolation inside the original range of an extended grid asked the PDFSet for a '
                              'value that is not a registered grid member', case={'probe': 'edge', 'x': hx(x)}, impl=str(ex)[:200])
                continue
            # quadratic manifold: Parabola exact everywhere, Linear exact at grid points
            if Cls is Par or bits(x) in {bits(t) for t in ext}:
                want = [shape(x), shape(x) * 1.25]
                if not np.allclose(v, want, rtol=1e-9, atol=0):
                    ctx.violation(Cls.__name__ + '.__call__', 'value-not-exact',
                                  'edge cell: interpolated value differs from the manifold', case={'probe': 'edge', 'x': hx(x)},
                                  impl=v.tolist(), model=want)
    # a PDFSet must not answer for a value that is not a registered member
    for v in (orig[0] + 0.05, orig[2] + 1e-9, 7.0):
        try:
            t = ps.get_pdf({'p': v}).tag
            ctx.violation('PDFSet.get_pdf', 'pdf-returned-for-unregistered-value',
                          'get_pdf returned a PDF for a value that is not a registered grid value',
                          case={'probe': 'non-member', 'x': hx(v)}, impl=t)
        except KeyError:
            ctx.count('probe:non-member-keyerror')


# ------------------------------------------------------------------ corpus
def corpus_regular():
    """the input of DESIGN §10 #18 (kept so that the check reports it while it exists) and the
    grids of tests/core/test_parameters.py"""
    out = [
        {'origin': 58000.0, 'okind': 'corpus', 'delta': 1e-3, 'n': 11, 'how': 'from_range', 'ext': False, 'dec': None, 'seed': 1},
        {'origin': 58000.0, 'okind': 'corpus', 'delta': 1e-3, 'n': 4, 'how': 'explicit', 'ext': True, 'dec': None, 'seed': 2},
        {'origin': 1.5, 'okind': 'corpus', 'delta': 0.5, 'n': 5, 'how': 'none', 'ext': False, 'dec': None, 'seed': 3},
        {'origin': 1.05, 'okind': 'corpus', 'delta': 0.1, 'n': 4, 'how': 'none', 'ext': False, 'dec': None, 'seed': 4},
        {'origin': 1.0, 'okind': 'corpus', 'delta': 0.1, 'n': 31, 'how': 'from_range', 'ext': True, 'dec': None, 'seed': 5},
        {'origin': -3.0, 'okind': 'corpus', 'delta': 0.1, 'n': 61, 'how': 'from_range', 'ext': False, 'dec': None, 'seed': 6},
        {'origin': 0.0, 'okind': 'corpus', 'delta': 1000.0, 'n': 200, 'how': 'explicit', 'ext': True, 'dec': None, 'seed': 7},
        {'origin': 0.3, 'okind': 'corpus', 'delta': 1e-3, 'n': 200, 'how': 'from_range', 'ext': False, 'dec': None, 'seed': 8},
    ]
    return out


def corpus_interp():
    """deterministic interpolation cases (every run, every seed): several sources with DIFFERENT parameter
    values in different cells, of which the first / a middle / the last / two have no selected event (seeded
    C15-8: a per-source broadcast that counts only the occurring source indices shifts the later sources to
    their predecessor's value); quadratic manifold (Parabola exact, Linear exact at grid points)."""
    out = []
    for kind in ('L', 'P'):
        for n_per in ([2, 0, 1], [0, 2, 1], [1, 2, 0], [1, 0, 0, 2], [0, 1, 0, 3], [2, 1, 3]):
            ns = len(n_per)
            base = [7.4162, 7.37, 7.9, 7.15][:ns]
            grd = [7.4, 7.2, 7.9, 7.6][:ns]
            calls = [(1, base), (1, [b + 0.003 for b in base]), (1, grd), (2, list(reversed(base))), (2, [7.55])]
            out.append({'kind': kind, 'fam': 0, 'deg': 1 if kind == 'L' else 2,
                        'c': [1.5, -2.0, 0.0 if kind == 'L' else 0.75, 0.25],
                        'origin': 7.0, 'delta': 0.1, 'n': 12, 'n_per': n_per, 'seed': 11, 'calls': calls})
    return out


# ------------------------------------------------------------------ entry points
def run(ctx):
    rng = ctx.rng
    exe = common.ocaml_build(ctx, 'c15') if ctx.model_ok else None
    if exe is None:
        ctx.notes.append('float model did not build: implementation-only predicates were evaluated')
    reg = corpus_regular()
    n_reg = ctx.budget(220, 2500)
    while len(reg) < n_reg:
        reg.append(gen_regular(ctx, rng))
    run_regular(ctx, exe, reg)
    ctx.sample({'regular': {k: reg[0][k] for k in ('origin', 'delta', 'n', 'how', 'ext')}})
    ctx.sample({'regular': {k: reg[-1][k] for k in ('origin', 'delta', 'n', 'how', 'ext')}})
    irr = [gen_irregular(rng) for _ in range(ctx.budget(60, 600))]
    run_irregular(ctx, exe, irr)
    ctx.sample({'irregular': irr[0]['grid'][:5]})
    itp = corpus_interp() + [gen_interp(rng, k) for k in ('L', 'P') for _ in range(ctx.budget(40, 400))]
    run_interp(ctx, exe, itp)
    ctx.sample({'interp': {k: itp[0][k] for k in ('kind', 'fam', 'c', 'origin', 'delta', 'n', 'n_per')}})
    run_contract_probes(ctx)
    multi = [gen_multi(rng) for _ in range(ctx.budget(30, 300))]
    run_multi(ctx, exe, multi)
    ctx.sample({'multi': {'objs': [(o['kind'], o['fam'], o['c']) for o in multi[0]['objs']], 'steps': multi[0]['steps'][:4]}})
    run_grid_interleave(ctx, reg[8:8 + ctx.budget(40, 300)])
    run_pdfset_lookup(ctx, exe, reg[:ctx.budget(40, 300)])
    if ctx.model_ok:
        small = [c for c in reg if c['n'] <= 11][:ctx.budget(12, 60)]
        try:
            run_specfloat(ctx, small)
        except RuntimeError as ex:
            ctx.broken.append({'kind': 'model-eval', 'error': str(ex)[:1500]})
    if ctx.thorough() and not ctx.broken:
        coqchk(ctx)


def coqchk(ctx):
    """thorough tier: re-check the compiled property file and everything it depends on with the
    independent checker"""
    cmd = ['timeout', '1500', 'coqchk', '-o', '-silent', '-Q', common.COQ, 'Sky', 'Sky.props.Prop_C15']
    for attempt in (1, 2):
        rc, out, err = common.sh(cmd, timeout=1600)
        if rc == 0:
            ctx.notes.append('coqchk -o Sky.props.Prop_C15: ok')
            ctx.count('coqchk_ok')
            return
    ctx.broken.append({'kind': 'coqchk', 'error': (out + err)[-1500:]})


def replay(ctx, rp):
    c = rp.get('case') or {}
    exe = common.ocaml_build(ctx, 'c15') if ctx.model_ok else None
    if 'irr' in c or ('grid' in c and 'kind' in c and 'origin' not in c):
        case = {'grid': c.get('irr') or c['grid'], 'kind': c.get('kind', 'replay'), 'ext': bool(c.get('ext')) and 'irr' not in c,
                'seed': c.get('seed', 1)}
        return run_irregular(ctx, exe, [case])
    if c.get('probe'):
        return run_contract_probes(ctx)
    if c.get('multi'):
        case = {'multi': True, 'objs': c['objs'], 'n_per': c['n_per'],
                'steps': [(j, i, [tuple(p) for p in pos]) for (j, i, pos) in c['steps']]}
        return run_multi(ctx, exe, [case])
    if c.get('kind') in ('L', 'P'):
        return run_interp(ctx, exe, [c])
    if 'origin' in c:
        case = {k: c.get(k) for k in ('origin', 'delta', 'n', 'how', 'ext', 'dec', 'seed')}
        case['okind'] = 'replay'
        case['seed'] = case['seed'] or 1
        run_regular(ctx, exe, [case])
        run_pdfset_lookup(ctx, exe, [case])
        return
    ctx.notes.append('replay file has no concrete input (broken obligation): re-running the full check')
    return run(ctx)
