"""C18 — signal injection conserves counts and produces only valid, relocated events.

Correspondence (model = coq/model/M_Inject.v evaluated by vm_compute):
  A. MultiDatasetSignalGenerator.generate_signal_events (rounding of mean*w_j and
     the random correction): the real class with a stub weight service, stub
     per-dataset generators recording the counts they are asked for, and a stub
     RandomState whose `choice` hands out prescribed draws (all combinations for
     small corrections) — compared with `ds_counts`.
  B. MCMultiDatasetSignalGenerator with the real SourceHypoGroup(Manager),
     PointLikeSource, SteadyPointlikeFFM, PointLikeSourceI3SignalGenerationMethod,
     Dataset(Data), DataFieldRecordArray and RandomChoice on synthetic MC; a stub
     RandomState whose `random` returns uniforms aimed at chosen candidates —
     the candidate table, the injected events and the redraw loop are compared
     with `construct` / `generate`.
Predicates (independent brute force, exact rationals): count conservation,
non-negativity, zero weight -> nothing, every event from a Monte-Carlo event in
the band / energy range of a positive-weight source of its dataset, validity
ranges, angular offset preserved by the relocation, mu2flux linear."""
import itertools
import math
from fractions import Fraction

import numpy as np

from harness import common
from harness.common import zlit, zlist

GEN_MODULES = ['inject']
MODEL_TARGETS = ['model/M_Inject.vo', 'model/M_InjectCfg.vo']
PROOF_TARGETS = ['proofs/P_Inject.vo', 'proofs/P_InjectR.vo', 'proofs/P_InjectMC.vo', 'proofs/P_InjectExt.vo', 'proofs/P_InjectCfg.vo']
LEVEL = 'proof'
RULE = ('A: totals 0..50, 2..6 dataset weights a_j/D (dyadic and decimal D, tiny and zero weights, exact halves), '
        'every combination of correction draws when there are <= 48, else random ones, plus real RandomState seeds; '
        'B: 1..3 datasets x 1..2 source groups x 1..3 sources at any declination incl. at/over the edges of the MC '
        'coverage, zero source weights / mcweights / live-times, energy ranges, validity ranges rejecting 0..95 % '
        'of the candidates, totals 0..50; a case is non-trivial when it is distinct by input hash')
TRUSTED = [
    'Coq 8.16.1 kernel incl. vm_compute (no native_compute)',
    'axioms: the integer theorems are closed under the global context; the real-number theorems (C18_round_kernel, '
    'C18_shift, C18_band_kernel, C18_linear, C18_additive) use the Reals axioms printed by Print Assumptions',
    'translator/py2coq.py: per-element reading of the 36 kernels of G_inject.v (pinned by K_ lemmas)',
    'oracle (premise choice_contract of the theorems): numpy RandomState.choice / skyllh RandomChoice return exactly '
    '`size` indices and never an index of probability 0 (C08); the drawn indices are inputs of the model',
    'oracle: signal_event_post_sampling_processing (astropy position_angle / directional_offset_by) is an '
    'uninterpreted function `post` of (dataset, group, source, event); offset preservation is checked by predicate only',
    'oracle: fluxmodel(E) is an uninterpreted non-negative function h_flux',
    'hand model M_Inject.v of control flow, np.unique / masks / np.tile+np.repeat ordering, source batches '
    '(concatenated in order), DataFieldRecordArray selection/append, validated by this correspondence',
    'numbers: weights a_j/D and dyadic-scaled floats as integers, real-number reading of * and /; float rounding '
    '(mean*w next to a half, MC events within 1e-9 of a band edge, the pairwise sums of the weights) is outside the theorems',
    'NaN/inf regimes (zero half-bandwidth, a single sin(dec) value in the MC, all weights zero) are Err in the model '
    'and excluded',
]

IMPORTS = ('From Coq Require Import ZArith List. Import ListNotations. Open Scope Z_scope.\n'
           'From Sky Require Import Result PyList M_Inject M_InjectCfg.\n')

SD_BITS = 75            # sin(dec) values are scaled by 2**75
ANG_BITS = 30           # relocated coordinates are compared on a 2**-30 grid
FLUX_BITS = 60


# =========================================================================== part A
def _mk_counts_classes():
    from skyllh.core.services import DatasetSignalWeightFactorsService
    from skyllh.core.signal_generator import SignalGenerator

    class StubSrcW:
        detsigyield_arr = np.empty((0, 0), dtype=object)

        def calculate(self, src_params_recarray):
            pass

    class StubW(DatasetSignalWeightFactorsService):
        def __init__(self, w):
            self._w = np.array(w, dtype=np.float64)
            self._s = StubSrcW()

        @property
        def src_detsigyield_weights_service(self):
            return self._s

        def calculate(self):
            pass

        def get_weights(self):
            # like the real service: the stored array itself (in-place damage is then visible to the probes)
            return (self._w, {})

    class StubGen(SignalGenerator):
        def __init__(self, log, key, **kw):
            super().__init__(**kw)
            self.log = log
            self.key = key

        def generate_signal_events(self, rss, mean, poisson=True, src_detsigyield_weights_service=None):
            from skyllh.core.storage import DataFieldRecordArray
            self.log.append(int(mean))
            if int(mean) <= 0:
                return (int(mean), {})
            # keys collide on purpose (datasets j and j+2 share a key): the merge must append
            ev = DataFieldRecordArray({'id': np.full((int(mean),), self.key, dtype=np.int64)})
            return (int(mean), {self.key % 2: ev})

    return StubW, StubGen


class ScriptRandom(np.random.RandomState):
    """RandomState whose choice() follows a script: the t-th drawn index is the
    (script[t] mod m)-th index of non-zero probability (m = number of those)."""

    def __init__(self, script):
        super().__init__(0)
        self.script = list(script)
        self.t = 0
        self.batches = []
        self.n_pos = []

    def poisson(self, lam=1.0, size=None):
        return self.pois_value

    def _one(self, p):
        pos = [i for i, x in enumerate(p) if x > 0]
        if not pos:
            raise ValueError('probabilities contain NaN')
        s = self.script[self.t] if self.t < len(self.script) else 0
        self.t += 1
        self.n_pos.append(len(pos))
        return pos[s % len(pos)]

    def choice(self, a, size=None, replace=True, p=None):
        p = np.asarray(p, dtype=np.float64)
        if not np.all(np.isfinite(p)) or abs(float(np.sum(p)) - 1.) > 1e-8 or np.any(p < 0):
            raise ValueError('probabilities do not sum to 1')
        a = np.asarray(a)
        assert list(a) == list(range(len(p)))
        if size is None:
            d = self._one(p)
            self.batches.append([d])
            return a[d]
        ds = [self._one(p) for _ in range(int(size))]
        self.batches.append(ds)
        return a[np.array(ds, dtype=np.int64)] if ds else a[:0]


class CountsEnv:
    def __init__(self):
        from skyllh.core.config import Config
        from skyllh.core.dataset import Dataset, DatasetData
        from skyllh.core.source_hypo_grouping import SourceHypoGroupManager
        from skyllh.core.storage import DataFieldRecordArray as DFRA
        from skyllh.core.signal_generator import MultiDatasetSignalGenerator
        from skyllh.core.random import RandomStateService
        self.cfg = Config()
        self.StubW, self.StubGen = _mk_counts_classes()
        self.MDSG = MultiDatasetSignalGenerator
        self.RSS = RandomStateService
        self.shg_mgr = SourceHypoGroupManager()
        arr = DFRA(np.zeros((1,), dtype=[('x', np.float64)]))
        self.dsl = [Dataset(name=f'd{i}', exp_pathfilenames=None, mc_pathfilenames=None, livetime=1.,
                            default_sub_path_fmt='', version=1, cfg=self.cfg) for i in range(8)]
        self.datal = [DatasetData(data_exp=arr, data_mc=arr, livetime=1.) for _ in range(8)]

    def make(self, ws, D):
        n = len(ws)
        log = []
        gens = [self.StubGen(log, i, shg_mgr=self.shg_mgr, cfg=self.cfg) for i in range(n)]
        sw = self.StubW([a / D for a in ws])
        g = self.MDSG(shg_mgr=self.shg_mgr, dataset_list=self.dsl[:n], data_list=self.datal[:n],
                      sig_generator_list=gens, ds_sig_weight_factors_service=sw, cfg=self.cfg)
        return g, log, sw

    def call(self, g, log, mean, random_state, poisson=False):
        del log[:]
        rss = self.RSS(1)
        rss.random = random_state
        try:
            if poisson:
                random_state.pois_value = mean
                (n_sig, d) = g.generate_signal_events(rss, mean + 0.25, poisson=True)
            else:
                (n_sig, d) = g.generate_signal_events(rss, mean, poisson=False)
            merged = [(int(k), [int(x) for x in v['id']]) for k, v in d.items()]
            return ['Ok', list(log), int(n_sig), merged]
        except Exception as ex:  # noqa: BLE001
            return ['Err', type(ex).__name__]

    def run(self, ws, D, mean, random_state, poisson=False):
        g, log, sw = self.make(ws, D)
        w0 = sw._w.copy()
        r = self.call(g, log, mean, random_state, poisson)
        if not np.array_equal(sw._w, w0):
            r = ['Err', 'dataset-weights-modified-in-place']
        return r


def fragile_half(ws, D, mean):
    """mean*a/D is an exact half that the float product need not reproduce"""
    if D & (D - 1) == 0:
        return False
    return any((2 * mean * a) % D == 0 and ((2 * mean * a) // D) % 2 == 1 for a in ws)


def gen_weights(rng):
    n = rng.choice([2, 2, 3, 3, 4, 4, 5, 6])
    kind = rng.choice(['dyadic', 'dyadic', 'decimal', 'decimal', 'equal', 'tiny', 'halves', 'witness'])
    if kind == 'witness':
        return rng.choice([([8, 31, 31, 30], 100), ([12, 12, 12, 12, 12, 40], 100), ([1, 1, 1, 1, 1, 1], 6)]) + (kind,)
    if kind == 'equal':
        return [1] * n, n, kind
    if kind == 'halves':
        # many counts end in .5 for even totals: exact in float for dyadic D
        D = 2 ** rng.choice([2, 3, 4])
        parts = [1] * n
        for _ in range(D - n if D >= n else 0):
            parts[rng.randrange(n)] += 1
        if sum(parts) != D:
            parts = [1] * n
            D = n
        return parts, D, kind
    D = {'dyadic': 2 ** rng.choice([4, 8, 10]), 'decimal': rng.choice([100, 1000, 7 * 9 * 11]),
         'tiny': 10 ** 6}[kind]
    cuts = sorted(rng.randrange(0, D + 1) for _ in range(n - 1))
    parts = [b - a for a, b in zip([0] + cuts, cuts + [D])]
    if kind == 'tiny':
        parts = [rng.choice([0, 1, 2, 5]) for _ in range(n - 1)]
        parts.append(D - sum(parts))
    elif rng.random() < 0.35:
        # force zero weights
        z = rng.randrange(n)
        parts[(z + 1) % n] += parts[z]
        parts[z] = 0
    rng.shuffle(parts)
    return parts, D, kind


def check_counts_predicates(ctx, case, impl):
    ws, D, mean = case['ws'], case['D'], case['mean']
    site = 'MultiDatasetSignalGenerator.generate_signal_events'
    if impl[0] != 'Ok':
        ctx.violation(site, 'raises-' + impl[1], 'raises for a legal total / weight vector', case=case, impl=impl,
                      predicate='returns counts')
        return
    log, n_sig = impl[1], impl[2]
    if len(log) != len(ws):
        ctx.violation(site, 'wrong-number-of-datasets', 'one count per dataset expected', case=case, impl=impl)
        return
    if sum(log) != mean:
        ctx.violation(site, 'counts-do-not-add-up', f'sum {sum(log)} != total {mean}', case=case, impl=impl,
                      predicate='sum of per-dataset counts == requested total')
    if n_sig != mean:
        ctx.violation(site, 'reported-n-differs', f'n_signal {n_sig} != total {mean}', case=case, impl=impl,
                      predicate='reported n == requested total')
    if min(log) < 0:
        ctx.violation(site, 'negative-count', f'per-dataset counts {log}', case=case, impl=impl,
                      predicate='per-dataset counts are non-negative')
    if len(impl) > 3:
        merged = impl[3]
        want = {}
        for j, c in enumerate(log):
            if c > 0:
                want.setdefault(j % 2, []).extend([j] * c)
        if sum(len(v) for _, v in merged) != n_sig or dict(merged) != want or len({k for k, _ in merged}) != len(merged):
            ctx.violation(site, 'merged-events-differ', f'merged {merged} for counts {log}', case=case, impl=impl,
                          predicate='reported n == number of events in the merged dictionary; nothing lost or duplicated')
    if any(a == 0 and c != 0 for a, c in zip(ws, log)):
        ctx.violation(site, 'zero-weight-dataset-gets-events', f'weights {ws} counts {log}', case=case, impl=impl,
                      predicate='zero-weight datasets receive none')


def counts_term(ws, D, mean, batches, poisson=False):
    st = '[' + '; '.join(zlist(b) for b in batches) + ']'
    sub = ('(fun j g c => Ok (c, (if 0 <? c then [(Z.of_nat j mod 2, repeat (Z.of_nat j) (Z.to_nat c))] else []), g))')
    lam = mean + 7 if poisson else mean        # with poisson the argument is only the Poisson parameter
    return (f'(match ds_counts _ stream_choice (map (map Z.to_nat) {st}) {zlit(mean)} {zlit(D)} {zlist(ws)} with '
            f'Ok (c, g) => Ok (c, map (map Z.of_nat) g) | Err e => Err e end, '
            f'match md_generate _ stream_choice (fun g m => ({zlit(mean)}, g)) Z {sub} {"true" if poisson else "false"} '
            f'(map (map Z.to_nat) {st}) {zlit(lam)} {zlit(D)} {zlist(ws)} with '
            f'Ok (n, d, g) => Ok (n, d, map (map Z.of_nat) g) | Err e => Err e end)')


def run_counts(ctx, env, exprs, checks):
    rng = ctx.rng
    n_inputs = ctx.budget(75, 1200)
    fixed = [([8, 31, 31, 30], 100, 5), ([12, 12, 12, 12, 12, 40], 100, 5), ([1, 1, 1, 1, 1, 1], 6, 9),
             ([1, 1, 1, 1, 1, 1], 6, 3), ([1, 1], 2, 3), ([1, 1, 1, 1], 4, 6), ([0, 4], 4, 7), ([1, 3, 0], 4, 4),
             ([1, 999999], 10 ** 6, 50), ([1, 1], 2, 0)]
    inputs = [(ws, D, m, 'corpus') for ws, D, m in fixed]
    for mean in range(0, 51):           # every total at least once
        ws, D, kind = gen_weights(rng)
        inputs.append((ws, D, mean, kind))
    while len(inputs) < n_inputs:
        ws, D, kind = gen_weights(rng)
        inputs.append((ws, D, rng.randint(0, 50), kind))
    for ws, D, mean, kind in inputs:
        if fragile_half(ws, D, mean):
            ctx.count('A:skipped-float-fragile-half')
            continue
        ctx.count('A:weights:' + kind)
        ctx.count(f'A:n_datasets:{len(ws)}')
        # a first run learns how many draws the correction makes
        rs = ScriptRandom([])
        impl = env.run(ws, D, mean, rs)
        k = rs.t
        npos = max(rs.n_pos) if rs.n_pos else 1
        s0 = sum(rhe_list(ws, D, mean))
        direction = 'none' if s0 == mean else ('add' if s0 < mean else 'sub')
        ctx.count('A:correction:' + direction)
        ctx.count(f'A:correction-size:{k}')
        scripts = [[]] if k == 0 else None
        if scripts is None:
            if npos ** k <= 48:
                scripts = [list(s) for s in itertools.product(range(npos), repeat=k)]
                ctx.count('A:all-draw-combinations')
            else:
                scripts = [[rng.randrange(npos) for _ in range(k)] for _ in range(ctx.budget(6, 24))]
                scripts.append([0] * k)
                scripts.append([npos - 1] * k)
        for si, sc in enumerate(scripts):
            rs = ScriptRandom(sc)
            pflag = (mean + si) % 3 == 0
            impl = env.run(ws, D, mean, rs, poisson=pflag)
            case = {'part': 'A', 'ws': ws, 'D': D, 'mean': mean, 'script': sc, 'batches': rs.batches, 'poisson': pflag}
            ctx.case(case)
            if pflag:
                ctx.count('A:poisson')
            check_counts_predicates(ctx, case, impl)
            exprs.append(counts_term(ws, D, mean, rs.batches, pflag))
            checks.append(('counts', case, impl))
        # any seed: the real generator (predicates only)
        for _ in range(ctx.budget(2, 6)):
            seed = rng.randrange(2 ** 31)
            impl = env.run(ws, D, mean, LimitedRandom(seed))
            case = {'part': 'A', 'ws': ws, 'D': D, 'mean': mean, 'seed': seed}
            ctx.case(case)
            ctx.count('A:real-rng-runs')
            check_counts_predicates(ctx, case, impl)
    ctx.sample({'part': 'A', 'weights': inputs[0][0], 'D': inputs[0][1], 'total': inputs[0][2]})


def rhe_list(ws, D, mean):
    """independent round-half-even (Python's round on exact rationals)"""
    return [round(Fraction(mean * a, D)) for a in ws]


def compare_counts(ctx, case, impl, v):
    v2 = None
    if isinstance(v, tuple) and len(v) == 2 and isinstance(v[0], tuple) and v[0][0] in ('Ok', 'Err'):
        v, v2 = v
    if v2 is not None:
        if isinstance(v2, tuple) and v2[0] == 'Ok':
            n, d, g = v2[1]
            m2 = ['Ok', n, [(k, list(ids)) for k, ids in d]]
        elif isinstance(v2, tuple) and v2[0] == 'Err':
            m2 = ['Err', v2[1]]
        else:
            m2 = ['unparsed', repr(v2)[:200]]
        i2 = ['Ok', impl[2], [(k, list(ids)) for k, ids in impl[3]]] if impl[0] == 'Ok' else impl
        if m2 != i2:
            ctx.disagree('signal_generator.md_generate', case, i2, m2)
    if isinstance(v, tuple) and v[0] == 'Ok':
        c, g = v[1]
        m = ['Ok', list(c)]
        left = list(g)
    elif isinstance(v, tuple) and v[0] == 'Err':
        m, left = ['Err', v[1]], []
    else:
        m, left = ['unparsed', repr(v)[:200]], []
    i = ['Ok', impl[1]] if impl[0] == 'Ok' else impl
    if m != i or left:
        ctx.disagree('signal_generator.ds_counts', case, i, m + [left])


# =========================================================================== part B
def sc(x, bits):
    f = Fraction(float(x)) * 2 ** bits
    if f.denominator != 1:
        raise ValueError('not representable')
    return f.numerator


def quant(x):
    return int(round(float(x) * 2 ** ANG_BITS))


def hav_sep(ra1, dec1, ra2, dec2):
    x = math.sin((dec1 - dec2) / 2) ** 2 + math.cos(dec1) * math.cos(dec2) * math.sin((ra1 - ra2) / 2) ** 2
    return 2 * math.asin(math.sqrt(min(1., max(0., x))))


def sampler_consistent(gen):
    """the RandomChoice instance was built from the current candidate table (None: not inspectable)"""
    try:
        cdf = np.asarray(gen._sig_candidates_random_choice._cdf, dtype=np.float64)
        w = np.asarray(gen._sig_candidates['weight'], dtype=np.float64)
    except Exception:  # noqa: BLE001
        return None
    if len(cdf) != len(w):
        return False
    c = np.cumsum(w)
    return bool(np.all(np.abs(cdf - c / c[-1]) <= 1e-9)) if len(w) and np.isfinite(c[-1]) and c[-1] > 0 else True


class AimRandom(np.random.RandomState):
    """RandomState whose random(size) returns uniforms in the middle of the CDF
    interval of chosen candidates."""

    def __init__(self, pyrng, budget):
        super().__init__(0)
        self.pyrng = pyrng
        self.batches = []
        self.drawn = 0
        self.budget = budget
        self.cdf = None
        self.pos = None
        self.good = None
        self.rr = 0

    def setup(self, cdf, good):
        self.cdf = np.asarray(cdf, dtype=np.float64)
        lo = np.concatenate([[0.], self.cdf[:-1]])
        self.lo = lo
        self.pos = [i for i in range(len(cdf)) if self.cdf[i] - lo[i] > 1e-13]
        self.good = [i for i in good if i in set(self.pos)] or self.pos

    def poisson(self, lam=1.0, size=None):
        return self.pois_value

    def random(self, size=None):
        n = 1 if size is None else int(size)
        if self.drawn > 12 * self.budget + 4000:
            # every block has a valid candidate and the round-robin has offered each of them many times
            raise RuntimeError('redraw loop did not terminate')
        idx = []
        for _ in range(n):
            if self.drawn > self.budget:
                # make progress for whichever group is being re-drawn
                i = self.good[self.rr % len(self.good)]
                self.rr += 1
            else:
                i = self.pyrng.choice(self.pos)
            self.drawn += 1
            idx.append(i)
        self.batches.append(idx)
        u = np.array([(self.lo[i] + self.cdf[i]) / 2 for i in idx], dtype=np.float64)
        return u if size is not None else float(u[0])


class McEnv:
    def __init__(self):
        from skyllh.core.config import Config
        from skyllh.core.dataset import Dataset, DatasetData
        from skyllh.core.services import DatasetSignalWeightFactorsService
        from skyllh.core.signal_generator import MCMultiDatasetSignalGenerator
        from skyllh.core.source_hypo_grouping import SourceHypoGroupManager, SourceHypoGroup
        from skyllh.core.source_model import PointLikeSource
        from skyllh.core.storage import DataFieldRecordArray
        from skyllh.core.random import RandomStateService
        from skyllh.core.flux_model import PowerLawEnergyFluxProfile, SteadyPointlikeFFM
        from skyllh.i3.signal_generation import PointLikeSourceI3SignalGenerationMethod
        from astropy import units
        self.__dict__.update(locals())
        self.cfg = Config()
        self.time_factor = self.cfg.to_internal_time_unit(time_unit=units.day)

        class StubW(DatasetSignalWeightFactorsService):
            def __init__(self):
                pass
        self.StubW = StubW

        class _NoYield:
            detsigyield_arr = np.empty((0, 0), dtype=object)

            def calculate(self, src_params_recarray):
                pass

        class StubW2(DatasetSignalWeightFactorsService):
            def __init__(self):
                self._s = _NoYield()

            @property
            def src_detsigyield_weights_service(self):
                return self._s
        self.StubW2 = StubW2
        self.dsl = [Dataset(name=f'd{i}', exp_pathfilenames=None, mc_pathfilenames=None, livetime=1.,
                            default_sub_path_fmt='', version=1, cfg=self.cfg) for i in range(4)]


FIELDS = ['evid', 'q', 'ra', 'dec', 'sin_dec']      # the observed field vector; positions 0..4


def gen_mc_case(rng, small=False):
    """a purely numeric description of one part-B case"""
    n_ds = rng.choice([1, 2, 2, 3])
    n_shg = rng.choice([1, 1, 2])
    dss = []
    for j in range(n_ds):
        n_ev = rng.randint(6, 14 if small else 40)
        lo = rng.choice([-2 ** 20, -2 ** 19, -2 ** 18, 0])
        hi = rng.choice([2 ** 20, 2 ** 19, 2 ** 18, 2 ** 17])
        evs = []
        for i in range(n_ev):
            k = rng.randint(lo, hi)
            evs.append({'sdk': k, 'en': rng.randint(0, 12), 'mw': rng.choice([0, 1, 1, 2, 3, 7]),
                        'true_ra': rng.random() * 2 * math.pi, 'ra': rng.random() * 2 * math.pi,
                        'ddec': rng.gauss(0, 0.03), 'q': rng.randint(0, 99)})
        evs[0]['sdk'] = lo
        evs[1]['sdk'] = hi
        dss.append({'events': evs, 'lt': rng.choice([0, 1, 2, 3, 5, 365]) if n_ds > 1 else rng.choice([1, 2, 365]),
                    'ranges': {}})
    if all(d['lt'] == 0 for d in dss):
        dss[0]['lt'] = 1
    shgs = []
    for h in range(n_shg):
        n_src = rng.choice([1, 2, 3])
        wkind = rng.choice(['none', 'given', 'given', 'with-zero'])
        srcs = []
        for k in range(n_src):
            pos = rng.choice(['inside', 'inside', 'at-lower-edge', 'at-upper-edge', 'outside', 'zero'])
            srcs.append({'pos': pos, 'u': rng.random(), 'ra': rng.random() * 2 * math.pi,
                         'w': None if wkind == 'none' else rng.choice([1, 2, 3, 5])})
        if wkind == 'with-zero':
            srcs[rng.randrange(n_src)]['w'] = 0
        shgs.append({'srcs': srcs, 'hw_k': rng.choice([2 ** 14, 2 ** 16, 2 ** 17, 3 * 2 ** 15, 2 ** 18]),
                     'er': rng.choice([None, None, (1, 9), (3, 12), (0, 5)]),
                     'gamma': rng.choice([1, 2, 2, 3]), 'phi0_e': rng.choice([-2, 0, 1, 3]),
                     'batch': rng.choice([1, 2, 128])})
    all_weighted = all(all(s_['w'] is not None for s_ in h_['srcs']) for h_ in shgs)
    return {'part': 'B', 'dss': dss, 'shgs': shgs, 'n_signal': rng.choice([0, 1, 2, 3, 5, 8, 13, 21, 34, 50]),
            'reject': rng.choice([0, 20, 50, 80, 90, 95, 95]), 'range_on_dec': rng.random() < 0.3,
            'aim_seed': rng.randrange(2 ** 31), 'poisson': rng.random() < 0.3, 'alt_shgs': None,
            'reloc_field': None, 'reloc_reject': 25,
            # non-dyadic physical units: the model works with the integer multiples, the common factors cancel
            'mw_unit': rng.choice([1.0, 0.1, 1e-7, 1 / 3]), 'lt_unit': rng.choice([1.0, 0.3, 365.25 / 7]),
            'sw_unit': rng.choice([1.0, 1 / 3, 0.7]) if all_weighted else 1.0}


def build_mc(env, case):
    """instantiate the real skyllh objects of a case; returns None when the
    case hits a float-fragile configuration (counted by the caller)"""
    np_ = np
    datal, num_dss = [], []
    for d in case['dss']:
        evs = d['events']
        n = len(evs)
        sd = np_.array([e['sdk'] / 2 ** 20 for e in evs], dtype=np_.float64)
        true_dec = np_.arcsin(sd)
        data = {
            'sin_true_dec': sd, 'true_dec': true_dec,
            'true_energy': np_.array([2.0 ** e['en'] for e in evs]),
            'mcweight': np_.array([float(e['mw']) for e in evs]) * case.get('mw_unit', 1.0),
            'true_ra': np_.array([e['true_ra'] for e in evs]),
            'ra': np_.array([e['ra'] for e in evs]),
            'dec': np_.clip(true_dec + np_.array([e['ddec'] for e in evs]), -1.55, 1.55),
            'evid': np_.arange(n, dtype=np_.int64),
            'q': np_.array([float(e['q']) for e in evs]),
        }
        data['sin_dec'] = np_.sin(data['dec'])
        datal.append(env.DatasetData(data_exp=None, data_mc=env.DataFieldRecordArray(data),
                                      livetime=float(d['lt']) * case.get('lt_unit', 1.0)))
        num_dss.append({'sd': [e['sdk'] * 2 ** (SD_BITS - 20) for e in evs], 'en': [2 ** e['en'] for e in evs],
                        'mw': [e['mw'] for e in evs], 'lt': d['lt']})
    shg_objs, num_shgs = [], []
    for h in case['shgs']:
        hw = h['hw_k'] / 2 ** 20
        srcs, xs = [], []
        for s in h['srcs']:
            # declination relative to the coverage of the first dataset
            sds = [e['sdk'] / 2 ** 20 for e in case['dss'][0]['events']]
            L, U = min(sds), max(sds)
            x = {'inside': L + (U - L) * (0.1 + 0.8 * s['u']), 'at-lower-edge': L + (U - L) * 0.002 * s['u'],
                 'at-upper-edge': U - (U - L) * 0.002 * s['u'], 'outside': min(0.999, U + 0.05 * s['u'] + 1e-3),
                 'zero': 0.0}[s['pos']]
            dec = math.asin(max(-0.999, min(0.999, x)))
            xf = float(np_.sin(np_.float64(dec)))
            try:
                xs.append(sc(xf, SD_BITS))
            except ValueError:
                return None
            srcs.append(env.PointLikeSource(ra=s['ra'], dec=dec,
                                            weight=None if s['w'] is None else s['w'] * case.get('sw_unit', 1.0)))
        fm = env.SteadyPointlikeFFM(
            Phi0=2.0 ** h['phi0_e'],
            energy_profile=env.PowerLawEnergyFluxProfile(E0=1, gamma=h['gamma'], cfg=env.cfg), cfg=env.cfg)
        kw_ = {} if h['batch'] == 128 else {'src_batch_size': h['batch']}      # 128 is the default: not passed
        if h['er'] is not None:
            kw_['energy_range'] = (2.0 ** h['er'][0], 2.0 ** h['er'][1])
        meth = env.PointLikeSourceI3SignalGenerationMethod(src_sin_dec_half_bandwidth=hw, **kw_)
        shg_objs.append(env.SourceHypoGroup(sources=srcs, fluxmodel=fm, detsigyield_builders=[], sig_gen_method=meth))
        flux = {}
        for k in range(0, 13):
            fv = float(np_.asarray(fm(E=np_.array([2.0 ** k]))).squeeze())
            try:
                flux[2 ** k] = sc(fv, FLUX_BITS)
            except ValueError:
                return None
        num_shgs.append({'x': xs, 'w': [s['w'] for s in h['srcs']], 'hw': h['hw_k'] * 2 ** (SD_BITS - 20),
                         'er': None if h['er'] is None else (2 ** h['er'][0], 2 ** h['er'][1]), 'flux': flux,
                         'unit': float(fm.to_internal_flux_unit()), 'phi0': float(fm.Phi0)})
    return {'datal': datal, 'shgs': shg_objs, 'num_dss': num_dss, 'num_shgs': num_shgs}


def brute_candidates(num_dss, num_shgs):
    """independent enumeration of the candidate table with exact rationals;
    returns (list of dicts, min distance of an event to a band edge)"""
    out = []
    mind = Fraction(2 ** 200)
    for hi, h in enumerate(num_shgs):
        allw = all(w is not None for w in h['w'])
        for di, d in enumerate(num_dss):
            L, U = min(d['sd']), max(d['sd'])
            if U == L:
                return None, None
            for k, x in enumerate(h['x']):
                S = Fraction(h['hw'] * (L + U - 2 * x), U - L)
                lo, up = x + S - h['hw'], x + S + h['hw']
                for i, sd in enumerate(d['sd']):
                    mind = min(mind, abs(sd - lo), abs(sd - up))
                    if lo <= sd <= up and (h['er'] is None or h['er'][0] <= d['en'][i] <= h['er'][1]):
                        wn = d['mw'][i] * h['flux'][d['en'][i]] * (h['w'][k] if allw else 1) * d['lt']
                        out.append({'ds': di, 'ev': i, 'shg': hi, 'src': k, 'wn': wn, 'wd': h['hw'],
                                    'w': Fraction(wn, h['hw'])})
    return out, mind / 2 ** SD_BITS


def mc_term(case, built, post_tab, stream, fuel, ranges_pos):
    def shg_t(h):
        srcs = '; '.join(f"({zlit(x)}, {'None' if w is None else 'Some ' + zlit(w)})" for x, w in zip(h['x'], h['w']))
        er = 'None' if h['er'] is None else f"Some ({zlit(h['er'][0])}, {zlit(h['er'][1])})"
        fl = '; '.join(f'({zlit(e)}, {zlit(f)})' for e, f in sorted(h['flux'].items()))
        return f"{{| h_src := [{srcs}]; h_hw := {zlit(h['hw'])}; h_er := {er}; h_flux := assocz [{fl}] |}}"

    def ds_t(d, rp):
        evs = '; '.join(f"{{| e_sd := {zlit(s)}; e_en := {zlit(e)}; e_mw := {zlit(m)} |}}"
                        for s, e, m in zip(d['sd'], d['en'], d['mw']))
        rg = '; '.join(f'(Z.to_nat {f}, ({zlit(a)}, {zlit(b)}))' for f, a, b in rp)
        return f"{{| d_mc := [{evs}]; d_lt := {zlit(d['lt'])}; d_rng := [{rg}] |}}"
    shgs = '[' + '; '.join(shg_t(h) for h in built['num_shgs']) + ']'
    dss = '[' + '; '.join(ds_t(d, rp) for d, rp in zip(built['num_dss'], ranges_pos)) + ']'
    pt = '[' + '; '.join(f'(({a}, {b}, {c}, {d}), {zlist(v)})' for (a, b, c, d), v in post_tab.items()) + ']'
    st = '[' + '; '.join(zlist(b) for b in stream) + ']'
    n = case['n_signal']
    pflag = 'true' if case.get('poisson') else 'false'
    if case.get('alt_num_shgs'):
        shgs0 = '[' + '; '.join(shg_t(h) for h in case['alt_num_shgs']) + ']'
        ops = f'[OpChange shgs; OpGenerate {pflag} {n}]'
    else:
        shgs0 = 'shgs'
        ops = f'[OpGenerate {pflag} {n}]'
    return (f'let shgs := {shgs} in let dss := {dss} in '
            f'match construct shgs dss with '
            f'| Err e => (Err e, Err e) '
            f'| Ok tbl => (Ok (combine (map (fun c => (c_ds c, c_ev c, c_shg c, c_src c, c_wn c, c_wd c)) tbl) (samp_w tbl)), '
            f'match mc_init {shgs0} dss with Err e => Err e | Ok st0 => '
            f'match mc_run _ stream_choice (assoc4 {pt}) (fun g m => ({n}, g)) {fuel} st0 (map (map Z.to_nat) {st}) {ops} with '
            f'| Ok (st, g, [(n, out)]) => if andb (forallb (fun ab => andb (c_wn (fst ab) =? c_wn (snd ab)) (andb (c_ev (fst ab) =? c_ev (snd ab)) (c_src (fst ab) =? c_src (snd ab)))) (combine (g_tbl st) tbl)) (Nat.eqb (length (g_tbl st)) (length tbl)) '
            f'then Ok (n, out, map (map Z.of_nat) g) else Err AssertionError '
            f'| Ok _ => Err AssertionError | Err e => Err e end end) end')


def run_mc_case(ctx, env, case, exprs, checks):
    site = 'MCMultiDatasetSignalGenerator'
    built = build_mc(env, case)
    if built is None:
        ctx.count('B:skipped-unrepresentable')
        return
    brute, mind = brute_candidates(built['num_dss'], built['num_shgs'])
    if brute is None or mind < 1e-9:
        ctx.count('B:skipped-event-on-band-edge')
        return
    if not brute or all(c['wn'] == 0 for c in brute):
        ctx.count('B:skipped-no-positive-candidate')
        return
    n_ds = len(case['dss'])
    mgr = env.SourceHypoGroupManager(built['shgs'])
    # validity ranges: reject about `reject` % of the candidates of each dataset via the exact field q
    ranges, ranges_pos = [], []
    q_of = [[e['q'] for e in d['events']] for d in case['dss']]
    for j in range(n_ds):
        rd, rp = {}, []
        pc = [c for c in brute if c['ds'] == j and c['wn'] > 0]
        qs = sorted(q_of[c['ds']][c['ev']] for c in pc)
        if case['reject'] > 0 and qs:
            cut = qs[min(len(qs) - 1, (len(qs) * (100 - case['reject'])) // 100)]
            # every (dataset, group) block keeps at least one valid candidate, else the redraw loop cannot end
            for g_ in {c['shg'] for c in pc}:
                cut = max(cut, min(q_of[c['ds']][c['ev']] for c in pc if c['shg'] == g_))
            # bounds are inclusive: put them exactly on occurring values (exact in float64) in half of the cases
            on_value = case['aim_seed'] % 2 == 0
            rd['q'] = (float(qs[0]) if on_value else float(qs[0]) - 1.0, float(cut) if on_value else float(cut) + 0.5)
            rp.append((1, int(round(rd['q'][0] * 2)), int(round(rd['q'][1] * 2))))
        ranges.append(rd)
        ranges_pos.append(rp)
    case.pop('alt_num_shgs', None)
    alt_mgr = None
    if case.get('alt_shgs'):
        # the generator is first built for other sources and then switched with change_shg_mgr
        balt = build_mc(env, dict(case, shgs=case['alt_shgs']))
        if balt is not None:
            br2, mind2 = brute_candidates(balt['num_dss'], balt['num_shgs'])
            if br2 and mind2 >= 1e-9 and any(c['wn'] > 0 for c in br2):
                alt_mgr = env.SourceHypoGroupManager(balt['shgs'])
                case['alt_num_shgs'] = balt['num_shgs']
    try:
        gen = env.MCMultiDatasetSignalGenerator(
            cfg=env.cfg, shg_mgr=alt_mgr if alt_mgr is not None else mgr, dataset_list=env.dsl[:n_ds],
            data_list=built['datal'], valid_event_field_ranges_dict_list=ranges,
            ds_sig_weight_factors_service=env.StubW2())
        if alt_mgr is not None:
            gen.change_shg_mgr(mgr)
            ctx.count('B:via-change_shg_mgr')
    except Exception as ex:  # noqa: BLE001
        ctx.violation(site + '.__init__', 'raises-' + type(ex).__name__, str(ex)[:200], case=case,
                      predicate='construction succeeds on MC with >= 2 declinations')
        return
    tbl = gen._sig_candidates
    impl_tbl = [(int(r['ds_idx']), int(r['ev_idx']), int(r['shg_idx']), int(r['shg_src_idx'])) for r in tbl]
    # ---- predicate: candidate table == brute force (keys, order-free), weights proportional
    bkeys = sorted((c['ds'], c['ev'], c['shg'], c['src']) for c in brute)
    if sorted(impl_tbl) != bkeys:
        ctx.violation(site + '._construct_signal_candidates', 'wrong-candidate-set',
                      'candidates differ from the events inside band and energy range', case=case,
                      impl=sorted(impl_tbl)[:40], model=bkeys[:40],
                      predicate='candidates = MC events inside the source band and the energy range')
        return
    tot = sum(c['w'] for c in brute)
    bw = {(c['ds'], c['ev'], c['shg'], c['src']): float(c['w'] / tot) for c in brute}
    for key, r in zip(impl_tbl, tbl):
        if abs(float(r['weight']) - bw[key]) > 1e-9 * (1 + bw[key]):
            ctx.violation(site + '._construct_signal_candidates', 'wrong-candidate-weight',
                          f'{key}: {float(r["weight"])} vs {bw[key]}', case=case,
                          predicate='weight ~ mcweight * flux * source weight * livetime / band solid angle')
            break
    # ---- the relocation oracle: post-sampling processing of every candidate
    post_tab = {}
    vec_of = {}
    for hi, shg in enumerate(built['shgs']):
        for di in range(n_ds):
            rows = [i for i, k in enumerate(impl_tbl) if k[0] == di and k[2] == hi]
            if not rows:
                continue
            meta = tbl[rows]
            ev = built['datal'][di].mc[meta['ev_idx']]
            ev = shg.sig_gen_method.signal_event_post_sampling_processing(shg, meta, ev)
            for n_, i in enumerate(rows):
                v = [int(ev['evid'][n_]), int(round(float(ev['q'][n_]) * 2)), quant(ev['ra'][n_]), quant(ev['dec'][n_]),
                     quant(ev['sin_dec'][n_])]
                post_tab[(di, hi, impl_tbl[i][3], impl_tbl[i][1])] = v
                vec_of[i] = (v, {'ra': float(ev['ra'][n_]), 'dec': float(ev['dec'][n_]), 'sin_dec': float(ev['sin_dec'][n_])})
    # the relocation oracle itself: every candidate is relocated to ITS OWN source (offset true->reco preserved
    # w.r.t. the source of the candidate, not just any source that has the event in its band)
    for i, (v_, fl_) in vec_of.items():
        (di_, evi_, hi_, ki_) = impl_tbl[i]
        e_ = case['dss'][di_]['events'][evi_]
        tdec_ = math.asin(e_['sdk'] / 2 ** 20)
        rdec_ = min(1.55, max(-1.55, tdec_ + e_['ddec']))
        src_ = built['shgs'][hi_].source_list[ki_]
        if abs(hav_sep(float(src_.ra), float(src_.dec), fl_['ra'], fl_['dec'])
               - hav_sep(e_['true_ra'], tdec_, e_['ra'], rdec_)) > 1e-7:
            ctx.violation('signal_event_post_sampling_processing', 'candidate-not-relocated-to-its-own-source',
                          f'candidate {impl_tbl[i]}', case=case,
                          predicate='sep(source of the candidate, relocated reco) == sep(true, reco)')
            break
    # validity range on a field that the relocation CHANGES (dec / ra / sin_dec): a window of the relocated values
    # of the positive candidates, bounds >= 1e-6 away from every relocated value (the raw MC values of the same
    # field are unrelated to the window, so masking before relocating lets invalid events through)
    rf = case.get('reloc_field') or ('dec' if case.get('range_on_dec') else None)
    if rf:
        pos_ = {'ra': 2, 'dec': 3, 'sin_dec': 4}[rf]
        rrng = __import__('random').Random(case['aim_seed'] + 1)
        for j in range(n_ds):
            pc = [i for i in vec_of if impl_tbl[i][0] == j and float(tbl[i]['weight']) > 0]
            vals = sorted({vec_of[i][1][rf] for i in pc})
            if len(vals) < 3:
                continue
            keep = max(1, int(math.ceil(len(vals) * (100 - case.get('reloc_reject', 25)) / 100.0)))
            for _try in range(30):
                a = rrng.randrange(0, len(vals) - keep + 1)
                lo_ = (vals[a - 1] + vals[a]) / 2 if a > 0 else vals[a] - 1e-3
                b = a + keep - 1
                hi_ = (vals[b] + vals[b + 1]) / 2 if b + 1 < len(vals) else vals[b] + 1e-3
                inside = [i for i in pc if lo_ <= vec_of[i][1][rf] <= hi_]
                if (all(abs(v_ - lo_) > 1e-6 and abs(v_ - hi_) > 1e-6 for v_ in vals)
                        and {impl_tbl[i][2] for i in inside} == {impl_tbl[i][2] for i in pc}):
                    ranges[j][rf] = (lo_, hi_)
                    ranges_pos[j].append((pos_, quant(lo_), quant(hi_)))
                    break
        gen.valid_event_field_ranges_dict_list = ranges
        if any(rf in r for r in ranges):
            ctx.count('B:range-on-relocated-field:' + rf)

    def is_valid(i):
        v, fl = vec_of[i]
        rd = ranges[impl_tbl[i][0]]
        ok = True
        for f_, (lo_, hi_) in rd.items():
            val = v[1] / 2 if f_ == 'q' else fl[f_]
            ok &= lo_ <= val <= hi_
        return ok
    if sampler_consistent(gen) is False:
        ctx.violation(site, 'stale-sampler', 'the RandomChoice sampler does not belong to the current candidate table',
                      case=case, predicate='table and sampler are rebuilt together (change_shg_mgr)')
        return
    cdf = gen._sig_candidates_random_choice._cdf
    rs = AimRandom(__import__('random').Random(case['aim_seed']), budget=40 * max(1, case['n_signal']))
    rs.setup(cdf, [i for i in range(len(tbl)) if is_valid(i)])
    groups_pos = {(impl_tbl[i][0], impl_tbl[i][2]) for i in rs.pos}
    if any(not any(is_valid(i) for i in rs.pos if (impl_tbl[i][0], impl_tbl[i][2]) == g) for g in groups_pos):
        # a group without any valid candidate: the redraw loop cannot terminate
        ctx.count('B:skipped-group-without-valid-candidate')
        return
    frac_bad = 1 - sum(1 for i in rs.pos if is_valid(i)) / len(rs.pos)
    ctx.count(f'B:rejected-fraction:{int(frac_bad * 10) * 10}-{int(frac_bad * 10) * 10 + 9}%')
    rss = env.RandomStateService(1)
    rss.random = rs
    try:
        if case.get('poisson'):
            rs.pois_value = case['n_signal']
            ctx.count('B:poisson')
            (n_sig, d) = gen.generate_signal_events(rss, case['n_signal'] + 0.3, poisson=True)
        else:
            (n_sig, d) = gen.generate_signal_events(rss, case['n_signal'], poisson=False)
        out = []
        for k in sorted(int(x) for x in d.keys()):
            a = d[k]
            out.append((k, [[int(a['evid'][i]), int(round(float(a['q'][i]) * 2)), quant(a['ra'][i]), quant(a['dec'][i]),
                             quant(a['sin_dec'][i])] for i in range(len(a))],
                        [(float(a['ra'][i]), float(a['dec'][i]), float(a['sin_dec'][i])) for i in range(len(a))]))
        impl = ['Ok', int(n_sig), [(k, v) for k, v, _ in out]]
    except Exception as ex:  # noqa: BLE001
        impl = ['Err', type(ex).__name__]
        out = []
    ctx.case({k: case[k] for k in ('dss', 'shgs', 'n_signal', 'reject', 'aim_seed')})
    ctx.count(f'B:n_ds:{n_ds}')
    ctx.count(f'B:n_shg:{len(case["shgs"])}')
    ctx.count(f'B:redraw-batches:{min(len(rs.batches) - 1, 50) // 10 * 10}+')
    if rf and any(rf in r for r in ranges) and rs.batches and any(not is_valid(i) for i in rs.batches[0]):
        ctx.count('B:relocated-field-range-with-first-pass-rejection')
    for h in case['shgs']:
        for s in h['srcs']:
            ctx.count('B:source:' + s['pos'])
    # ---- predicates on the implementation's result
    if impl[0] != 'Ok':
        ctx.violation(site + '.generate_signal_events', 'raises-' + impl[1], 'raises', case=case, impl=impl)
    else:
        total = sum(len(v) for _, v, _ in out)
        if impl[1] != case['n_signal'] or total != impl[1]:
            ctx.violation(site + '.generate_signal_events', 'reported-n-differs',
                          f'reported {impl[1]}, requested {case["n_signal"]}, returned {total}', case=case, impl=impl[:2],
                          predicate='reported n == requested n == number of events returned')
        for k, vecs, angs in out:
            d_ = case['dss'][k]
            rd = ranges[k]
            for v, (ra, dec, sdec) in zip(vecs, angs):
                evid = v[0]
                e = d_['events'][evid] if 0 <= evid < len(d_['events']) else None
                cands = [c for c in brute if c['ds'] == k and c['ev'] == evid and c['wn'] > 0]
                got_ = {'q': v[1] / 2, 'ra': ra, 'dec': dec, 'sin_dec': sdec}
                okq = all(lo_ <= got_[f_] <= hi_ for f_, (lo_, hi_) in rd.items())
                if not okq:
                    ctx.violation(site + '.generate_signal_events', 'invalid-event-returned',
                                  f'event {v} of dataset {k} violates {rd}', case=case,
                                  predicate='every injected event satisfies the validity ranges')
                own = [i for i, (v_, _) in vec_of.items() if impl_tbl[i][0] == k and impl_tbl[i][1] == evid
                       and float(tbl[i]['weight']) > 0 and v_[:2] == v[:2]
                       and all(abs(a_ - b_) <= 4 for a_, b_ in zip(v_[2:], v[2:]))]
                if cands and not own:
                    ctx.violation(site + '.generate_signal_events', 'event-is-not-the-relocation-of-a-candidate',
                                  f'event {v} of dataset {k} equals the relocated image of none of its candidates',
                                  case=case, predicate='every event is its candidate relocated to that candidate\'s source')
                if e is None or not cands:
                    ctx.violation(site + '.generate_signal_events', 'event-not-from-a-positive-candidate',
                                  f'event {v} of dataset {k}: no positive-weight source has it in band and energy range',
                                  case=case, predicate='stems from an MC event inside band and energy range of a '
                                                       'positive-weight source; zero-weight sources/datasets get none')
                    continue
                if abs(sdec - math.sin(dec)) > 1e-12:
                    ctx.violation(site + '.generate_signal_events', 'sin_dec-stale', f'{sdec} vs sin({dec})', case=case)
                # angular offset true->reco preserved by the relocation to one of the matching sources
                true_dec = math.asin(e['sdk'] / 2 ** 20)
                reco_dec = min(1.55, max(-1.55, true_dec + e['ddec']))
                psi0 = hav_sep(e['true_ra'], true_dec, e['ra'], reco_dec)
                best = 9.
                for c in cands:
                    s = built['shgs'][c['shg']].source_list[c['src']]
                    best = min(best, abs(hav_sep(float(s.ra), float(s.dec), ra, dec) - psi0))
                if best > 1e-7:
                    ctx.violation('rotate_signal_events_on_sphere', 'angular-offset-not-preserved',
                                  f'|sep(src, reco) - sep(true, reco)| = {best}', case=case,
                                  predicate='true-to-reconstructed angular offset kept after relocation')
    # ---- mu2flux: linear, additive, per-source sums, closed form
    try:
        mu = 1.0 + case['n_signal'] / 7.0
        f1 = np.asarray(gen.mu2flux(mu, per_source=True), dtype=np.float64)
        f3 = np.asarray(gen.mu2flux(3 * mu, per_source=True), dtype=np.float64)
        t1, t3, t4 = float(gen.mu2flux(mu)), float(gen.mu2flux(3 * mu)), float(gen.mu2flux(4 * mu))
        scale = abs(t1) + 1e-300
        bad = (np.max(np.abs(f3 - 3 * f1)) > 1e-9 * scale or abs(t3 - 3 * t1) > 1e-9 * scale or
               abs(t4 - (t1 + t3)) > 1e-9 * scale or abs(float(np.sum(f1)) - t1) > 1e-9 * scale)
        # closed form: mu * (sum of the normalised weights of the source) * Phi0 * unit / ref_N
        refN = (float(tot) * env.time_factor / (4 * math.pi) * 2 ** SD_BITS / 2 ** FLUX_BITS
                * case.get('mw_unit', 1.0) * case.get('lt_unit', 1.0) * case.get('sw_unit', 1.0))
        if abs(refN - float(gen._sig_candidates_weight_sum)) > 1e-9 * refN:
            ctx.violation(site + '._construct_signal_candidates', 'wrong-weight-sum',
                          f'{float(gen._sig_candidates_weight_sum)} vs {refN}', case=case,
                          predicate='ref_N = sum of mcweight*flux*srcweight*livetime/omega')
        idx = 0
        for hi, h in enumerate(built['num_shgs']):
            for k in range(len(h['x'])):
                s_k = float(sum(c['w'] for c in brute if c['shg'] == hi and c['src'] == k) / tot)
                want = mu * s_k * h['phi0'] * h['unit'] / refN
                if abs(f1[idx] - want) > 1e-8 * (abs(want) + scale):
                    bad = True
                idx += 1
        if bad:
            ctx.violation(site + '.mu2flux', 'not-linear', f'{t1} {t3} {t4} {f1.tolist()}', case=case,
                          predicate='mu2flux(c*mu) = c*mu2flux(mu), additive, = mu*s_k*Phi0/ref_N')
    except Exception as ex:  # noqa: BLE001
        ctx.violation(site + '.mu2flux', 'raises-' + type(ex).__name__, str(ex)[:200], case=case)
    # ---- the model
    if impl == ['Err', 'RuntimeError']:
        ctx.count('B:redraw-did-not-terminate')     # reported above as a violation; no model run on 10^5 draws
        return
    exprs.append(mc_term(case, built, post_tab, rs.batches, len(rs.batches) + 3, ranges_pos))
    checks.append(('mc', case, (impl_tbl, [float(r['weight']) for r in tbl], impl)))


def compare_mc(ctx, case, impl_all, v):
    impl_tbl, impl_w, impl = impl_all
    site = 'signal_generator.mc'
    if not (isinstance(v, tuple) and len(v) == 2):
        ctx.disagree(site, case, 'see impl', ['unparsed', repr(v)[:300]])
        return
    t, r = v
    if not (isinstance(t, tuple) and t[0] == 'Ok'):
        ctx.disagree(site + '.construct', case, impl_tbl[:20], repr(t)[:200])
        return
    mt = [tuple(c[:6]) for c in t[1]]       # Coq prints ((a, .., f), p) as one 7-tuple
    mp = [c[6] for c in t[1]]
    if [c[:4] for c in mt] != impl_tbl:
        ctx.disagree(site + '.construct', case, impl_tbl[:60], [c[:4] for c in mt][:60],
                     detail='candidate tables differ (keys or order)')
        return
    tot = sum(Fraction(c[4], c[5]) for c in mt)
    ptot = sum(mp)
    for c, w, pi in zip(mt, impl_w, mp):
        mw = float(Fraction(c[4], c[5]) / tot)
        if ptot <= 0 or abs(float(Fraction(pi, ptot)) - w) > 1e-9 * (1 + w):
            ctx.disagree(site + '.sampler', case, w, float(Fraction(pi, ptot)) if ptot > 0 else None,
                         detail=f'sampler probability of candidate {c[:4]}')
            return
        if abs(mw - w) > 1e-9 * (1 + w) or ((c[4] == 0) != (w == 0.0)):
            ctx.disagree(site + '.construct', case, w, mw, detail=f'weight of candidate {c[:4]}')
            return
    if isinstance(r, tuple) and r[0] == 'Err':
        m = ['Err', r[1]]
    elif isinstance(r, tuple) and r[0] == 'Ok':
        n, out, g = r[1]
        m = ['Ok', n, [(k, [list(e) for e in evs]) for k, evs in out]]
        if list(g):
            m.append(('unused-draws', len(g)))
    else:
        m = ['unparsed', repr(r)[:200]]
    ok = m[0] == impl[0]
    if ok and m[0] == 'Ok':
        ok = len(m) == 3 and m[1] == impl[1] and [k for k, _ in m[2]] == [k for k, _ in impl[2]]
        if ok:
            for (_, a), (_, b) in zip(m[2], impl[2]):
                if len(a) != len(b) or any(x[:2] != y[:2] or any(abs(p - q_) > 4 for p, q_ in zip(x[2:], y[2:]))
                                            for x, y in zip(a, b)):
                    ok = False
    elif ok:
        ok = m[1] == impl[1]
    if not ok:
        ctx.disagree(site + '.generate', case, impl, m)


# =========================================================================== part C: history probes
# "the result is a function of the current inputs only": the REAL objects are re-used, interleaved, mutated
# and compared bit for bit with freshly built twins and with the independent brute-force oracles.
class LimitedRandom(np.random.RandomState):
    """a real RandomState that gives up when a (mutated) correction loop runs away"""

    def __init__(self, seed, limit=400):
        super().__init__(seed)
        self.n_choice = 0
        self.limit = limit

    def choice(self, *a, **kw):
        self.n_choice += 1
        if self.n_choice > self.limit:
            raise RuntimeError('correction loop did not terminate')
        return super().choice(*a, **kw)


class CountingRandom(np.random.RandomState):
    """a real RandomState that gives up when a (mutated) redraw loop does not end"""

    def __init__(self, seed, limit=2500):
        super().__init__(seed)
        self.n_calls = 0
        self.limit = limit

    def random(self, size=None):
        self.n_calls += 1
        if self.n_calls > self.limit:
            raise RuntimeError('redraw loop did not terminate')
        return super().random(size)


def q_ranges(case, brute, reject):
    """validity ranges on the exact field q that leave every (dataset, group) block a valid candidate"""
    q_of = [[e['q'] for e in d['events']] for d in case['dss']]
    ranges = []
    for j in range(len(case['dss'])):
        rd = {}
        pc = [c for c in brute if c['ds'] == j and c['wn'] > 0]
        qs = sorted(q_of[c['ds']][c['ev']] for c in pc)
        if reject > 0 and qs:
            # the real generator is used here: every (dataset, group) block keeps at least `thr` of its
            # probability mass valid, so that the redraw loop ends quickly
            thr = max(0.25, (100 - reject) / 100.0)
            cut = qs[-1]
            for cand_cut in sorted(set(qs)):
                if all(sum(c['w'] for c in pc if c['shg'] == g_ and q_of[c['ds']][c['ev']] <= cand_cut)
                       >= thr * sum(c['w'] for c in pc if c['shg'] == g_) for g_ in {c['shg'] for c in pc}):
                    cut = cand_cut
                    break
            rd['q'] = (float(qs[0]), float(cut))
        ranges.append(rd)
    return ranges


def snap_arrays(built):
    """bytes of every MC column of every dataset and the scalars of every source"""
    out = []
    for dd in built['datal']:
        mc = dd.mc
        out.append(tuple((f, str(mc[f].dtype), mc[f].tobytes()) for f in sorted(mc.field_name_list)))
    src = tuple((float(s.ra), float(s.dec), None if s.weight is None else float(s.weight))
                for shg in built['shgs'] for s in shg.source_list)
    return (tuple(out), src)


def canon_events(d):
    return tuple((int(k), tuple((f, str(d[k][f].dtype), d[k][f].tobytes()) for f in sorted(d[k].field_name_list)))
                 for k in sorted(d.keys(), key=int))


class McSetup:
    """one buildable generator configuration: numeric case -> fresh real objects on demand"""

    def __init__(self, env, case, reject):
        self.env, self.case, self.reject = env, case, reject
        b = build_mc(env, case)
        self.ok = False
        if b is None:
            return
        self.brute, mind = brute_candidates(b['num_dss'], b['num_shgs'])
        if self.brute is None or mind < 1e-9 or not any(c['wn'] > 0 for c in self.brute):
            return
        self.ranges = q_ranges(case, self.brute, reject)
        self.ok = True

    def fresh(self, shgs_from=None):
        """a generator on brand-new objects (data, sources, flux models, methods); returns (gen, built)"""
        env = self.env
        b = build_mc(env, self.case)
        n_ds = len(self.case['dss'])
        rl = [dict(r) for r in self.ranges]
        gen = env.MCMultiDatasetSignalGenerator(
            cfg=env.cfg, shg_mgr=env.SourceHypoGroupManager(b['shgs']), dataset_list=env.dsl[:n_ds],
            data_list=b['datal'], valid_event_field_ranges_dict_list=rl if any(rl) else None,   # None = the default
            ds_sig_weight_factors_service=env.StubW2())
        return gen, b


def observe(env, gen, seed, means):
    """consecutive calls on one RandomStateService; canonical, detached results + the live dicts"""
    rss = env.RandomStateService(1)
    rss.random = CountingRandom(seed)
    res, live = [], []
    for m in means:
        try:
            (n, d) = gen.generate_signal_events(rss, m, poisson=False)
            res.append(('Ok', int(n), canon_events(d)))
            live.append(d)
        except Exception as ex:  # noqa: BLE001
            res.append(('Err', type(ex).__name__))
            live.append(None)
    return res, live


def check_table(ctx, st, gen, tag):
    """candidate table of a (re-used / mutated) generator against the brute-force enumeration"""
    tbl = gen._sig_candidates
    keys = sorted((int(r['ds_idx']), int(r['ev_idx']), int(r['shg_idx']), int(r['shg_src_idx'])) for r in tbl)
    bkeys = sorted((c['ds'], c['ev'], c['shg'], c['src']) for c in st.brute)
    ok = keys == bkeys
    if ok:
        tot = sum(c['w'] for c in st.brute)
        bw = {(c['ds'], c['ev'], c['shg'], c['src']): float(c['w'] / tot) for c in st.brute}
        ok = all(abs(float(r['weight']) - bw[(int(r['ds_idx']), int(r['ev_idx']), int(r['shg_idx']), int(r['shg_src_idx']))])
                 <= 1e-9 * (1 + float(r['weight'])) for r in tbl)
    if not ok:
        ctx.violation('MCMultiDatasetSignalGenerator._construct_signal_candidates', 'history:' + tag + ':wrong-candidates',
                      'candidate table differs from the brute-force enumeration', case=dict(st.case, probe=tag),
                      predicate='candidates = MC events in band and energy range, weight ~ mcweight*flux*srcw*livetime')
    return ok


def check_events(ctx, st, built, d, n_req, n_rep, tag):
    """the property on one result of a re-used generator (independent of any twin)"""
    site = 'MCMultiDatasetSignalGenerator.generate_signal_events'
    case = dict(st.case, probe=tag)
    total = sum(len(d[k]) for k in d)
    if n_rep != n_req or total != n_req:
        ctx.violation(site, 'history:' + tag + ':reported-n-differs', f'{n_rep} {n_req} {total}', case=case,
                      predicate='reported n == requested n == number of events returned')
    for k in d:
        a = d[k]
        k = int(k)
        rd = st.ranges[k]
        evs = st.case['dss'][k]['events']
        for i in range(len(a)):
            evid, q = int(a['evid'][i]), float(a['q'][i])
            ra, dec = float(a['ra'][i]), float(a['dec'][i])
            cands = [c for c in st.brute if c['ds'] == k and c['ev'] == evid and c['wn'] > 0] \
                if 0 <= evid < len(evs) else []
            got_ = {'q': q, 'ra': ra, 'dec': dec, 'sin_dec': float(a['sin_dec'][i])}
            if any(not lo_ <= got_[f_] <= hi_ for f_, (lo_, hi_) in rd.items()) or not cands or q != evs[evid]['q']:
                ctx.violation(site, 'history:' + tag + ':bad-event', f'dataset {k} evid {evid} q {q} ranges {rd}',
                              case=case, predicate='valid event of a positive-weight candidate of its dataset')
                continue
            e = evs[evid]
            true_dec = math.asin(e['sdk'] / 2 ** 20)
            reco_dec = min(1.55, max(-1.55, true_dec + e['ddec']))
            psi0 = hav_sep(e['true_ra'], true_dec, e['ra'], reco_dec)
            best = min(abs(hav_sep(float(built['shgs'][c['shg']].source_list[c['src']].ra),
                                   float(built['shgs'][c['shg']].source_list[c['src']].dec), ra, dec) - psi0)
                       for c in cands)
            if best > 1e-7 or abs(float(a['sin_dec'][i]) - math.sin(dec)) > 1e-12:
                ctx.violation('rotate_signal_events_on_sphere', 'history:' + tag + ':angular-offset-not-preserved',
                              f'{best}', case=case, predicate='true-to-reconstructed angular offset kept')


def probe_mc(ctx, env, rng, case_a, case_b, alt_shgs):
    """history probes on MCMultiDatasetSignalGenerator for two configurations a, b (b has other datasets and
    sources) and a second source set for the datasets of a"""
    site = 'MCMultiDatasetSignalGenerator'
    A = McSetup(env, case_a, rng.choice([0, 30, 60]))
    B = McSetup(env, case_b, rng.choice([0, 30, 60]))
    if not (A.ok and B.ok):
        ctx.count('C:skipped-setup')
        return
    ctx.count('C:mc-probe-sets')
    ctx.case({'part': 'C', 'a': case_a['aim_seed'], 'b': case_b['aim_seed']})
    seeds = [rng.randrange(2 ** 31) for _ in range(3)]
    m1, m2, m3 = rng.choice([3, 8, 21]), rng.choice([0, 1, 13, 50]), rng.choice([5, 34])

    def twin(st, seed, means):
        g, b = st.fresh()
        return observe(env, g, seed, means)[0]

    def differs(st, tag, got, want, extra=''):
        if got != want:
            ctx.violation(site + '.generate_signal_events', 'history:' + tag + ':differs-from-fresh-generator',
                          'a re-used generator returns other events than a fresh one with the same inputs ' + extra,
                          case=dict(st.case, probe=tag, seeds=seeds, means=[m1, m2, m3]),
                          predicate='result depends on the current inputs only')
            return True
        return False

    # -- construction is an operation: stored data / sources unchanged by it
    bA = build_mc(env, case_a)
    s0 = snap_arrays(bA)
    nA = len(case_a['dss'])
    gA = env.MCMultiDatasetSignalGenerator(
        cfg=env.cfg, shg_mgr=env.SourceHypoGroupManager(bA['shgs']), dataset_list=env.dsl[:nA], data_list=bA['datal'],
        valid_event_field_ranges_dict_list=[dict(r) for r in A.ranges], ds_sig_weight_factors_service=env.StubW2())
    gB, bB = B.fresh()                  # second instance built BEFORE the first use of either
    sB0 = snap_arrays(bB)

    def data_intact(tag):
        if snap_arrays(bA) != s0 or snap_arrays(bB) != sB0:
            ctx.violation(site, 'history:' + tag + ':stored-data-modified',
                          'MC arrays / sources of a dataset changed', case=dict(case_a, probe=tag),
                          predicate='the MC data and the sources are inputs: bytewise unchanged')
    data_intact('construction')
    tblA0 = gA._sig_candidates.copy()
    check_table(ctx, A, gA, 'construction')

    # -- repeat / interleave / two instances / returned values owned by the caller
    f1 = np.array(gA.mu2flux(1.5, per_source=True), copy=True)
    f1_live = gA.mu2flux(1.5, per_source=True)
    r1, live1 = observe(env, gA, seeds[0], [m1, m2])          # two calls on one rss
    keep = [canon_events(d) if d is not None else None for d in live1]
    rb1, _ = observe(env, gB, seeds[1], [m3])                  # the other instance in between
    f2_live = gA.mu2flux(4.0, per_source=True)
    t2 = float(gA.mu2flux(4.0))
    r2, live2 = observe(env, gA, seeds[2], [m3])               # other arguments
    observe(env, gA, seeds[1], [m1, m2])                       # same sizes, other draws (re-used buffers would be overwritten)
    for d, k0 in zip(live1, keep):
        if d is not None and canon_events(d) != k0:
            ctx.violation(site + '.generate_signal_events', 'history:returned-events-overwritten',
                          'events returned by an earlier call changed during a later call', case=dict(case_a, probe='owned'),
                          predicate='returned values are owned by the caller')
    r3, _ = observe(env, gA, seeds[0], [m1, m2])               # repeat of the first call pair
    rb2, _ = observe(env, gB, seeds[1], [m3])
    data_intact('calls')
    differs(A, 'repeat', r3, r1, '(same generator, same inputs, repeated)')
    differs(A, 'reuse', r1, twin(A, seeds[0], [m1, m2]))
    differs(A, 'interleave', r2, twin(A, seeds[2], [m3]))
    differs(B, 'two-instances', rb1, twin(B, seeds[1], [m3]))
    differs(B, 'two-instances-repeat', rb2, rb1)
    for res, live in ((r1, live1), (r2, live2)):
        for r, d in zip(res, live):
            if r[0] == 'Ok':
                check_events(ctx, A, bA, d, {id(live1[0]): m1, id(live1[1]): m2, id(live2[0]): m3}[id(d)], r[1], 'reuse')
            else:
                ctx.violation(site + '.generate_signal_events', 'history:reuse:raises-' + r[1], 'raises', case=case_a)
    # results handed out earlier are the caller's: untouched by later calls, no memory shared
    for d, k0 in zip(live1, keep):
        if d is not None and canon_events(d) != k0:
            ctx.violation(site + '.generate_signal_events', 'history:returned-events-overwritten',
                          'events returned by an earlier call changed during a later call', case=dict(case_a, probe='owned'),
                          predicate='returned values are owned by the caller')
    cols = [d[k][f] for d in live1 + live2 if d is not None for k in d for f in d[k].field_name_list]
    mccols = [dd.mc[f] for dd in bA['datal'] for f in dd.mc.field_name_list]
    if any(np.shares_memory(x, y) for i, x in enumerate(cols) for y in cols[i + 1:] if x.size and y.size) or \
            any(np.shares_memory(x, y) for x in cols for y in mccols if x.size):
        ctx.violation(site + '.generate_signal_events', 'history:returned-events-share-memory',
                      'returned columns alias each other or the MC arrays', case=dict(case_a, probe='owned'),
                      predicate='returned values are owned by the caller')
    # mu2flux: kept results untouched, linear across calls, equal to a fresh generator
    gF, _ = A.fresh()
    fF1 = np.asarray(gF.mu2flux(1.5, per_source=True))
    gF2, _ = A.fresh()
    fF2 = np.asarray(gF2.mu2flux(4.0, per_source=True))
    sc_ = float(np.sum(np.abs(fF2))) + 1e-300
    if (not np.array_equal(f1_live, f1) or np.shares_memory(f1_live, f2_live) or not np.array_equal(f1, fF1)
            or not np.array_equal(np.asarray(f2_live), fF2) or abs(t2 - float(np.sum(fF2))) > 1e-9 * sc_
            or np.max(np.abs(np.asarray(f2_live) * 1.5 - f1 * 4.0)) > 1e-9 * sc_):
        ctx.violation(site + '.mu2flux', 'history:mu2flux-result-not-retained',
                      f'{f1.tolist()} {np.asarray(f1_live).tolist()} {np.asarray(f2_live).tolist()} {fF1.tolist()} {fF2.tolist()}',
                      case=dict(case_a, probe='mu2flux'),
                      predicate='mu2flux results are owned by the caller, depend on mu only, and are linear in mu')
    if not np.array_equal(gA._sig_candidates, tblA0):
        ctx.violation(site, 'history:candidate-table-modified-by-calls', 'the candidate table changed during calls',
                      case=dict(case_a, probe='table'))
    # -- mutate then observe: the validity ranges (observables were read before)
    new_ranges = q_ranges(case_a, A.brute, 45 if A.reject != 30 else 0)
    gA.valid_event_field_ranges_dict_list = [dict(r) for r in new_ranges]
    A2 = McSetup(env, case_a, 0)
    A2.ranges = new_ranges
    r4, live4 = observe(env, gA, seeds[0], [m1])
    differs(A2, 'set-ranges', r4, twin(A2, seeds[0], [m1]))
    if r4[0][0] == 'Ok':
        check_events(ctx, A2, bA, live4[0], m1, r4[0][1], 'set-ranges')
    # -- mutate then observe: change_shg_mgr (other sources on the same datasets)
    case_c = dict(case_a, shgs=alt_shgs, sw_unit=1.0)
    C = McSetup(env, case_c, 0)
    if not C.ok:
        ctx.count('C:skipped-alt-sources')
        return
    C.ranges = q_ranges(case_c, C.brute, 30)       # ranges that suit the new sources (bounded redraw time)
    bC = build_mc(env, case_c)
    try:
        gA.change_shg_mgr(env.SourceHypoGroupManager(bC['shgs']))
    except Exception as ex:  # noqa: BLE001
        ctx.violation(site + '.change_shg_mgr', 'history:change_shg_mgr:raises-' + type(ex).__name__, str(ex)[:200],
                      case=dict(case_c, probe='change_shg_mgr'))
        return
    gA.valid_event_field_ranges_dict_list = [dict(r) for r in C.ranges]
    ctx.count('C:change_shg_mgr')
    if sampler_consistent(gA) is False:
        ctx.violation(site, 'history:change_shg_mgr:stale-sampler',
                      'the RandomChoice sampler does not belong to the current candidate table',
                      case=dict(case_c, probe='change_shg_mgr'), predicate='table and sampler are rebuilt together')
    check_table(ctx, C, gA, 'change_shg_mgr')
    r5, live5 = observe(env, gA, seeds[1], [m1, m3])
    differs(C, 'change_shg_mgr', r5, twin(C, seeds[1], [m1, m3]))
    bAC = dict(bA, shgs=bC['shgs'])
    for r, d, m in zip(r5, live5, [m1, m3]):
        if r[0] == 'Ok':
            check_events(ctx, C, bAC, d, m, r[1], 'change_shg_mgr')
    gFc, _ = C.fresh()
    fc, ff = np.asarray(gA.mu2flux(2.0, per_source=True)), np.asarray(gFc.mu2flux(2.0, per_source=True))
    if fc.shape != ff.shape or not np.array_equal(fc, ff):
        ctx.violation(site + '.mu2flux', 'history:change_shg_mgr:mu2flux-stale', f'{fc.tolist()} vs {ff.tolist()}',
                      case=dict(case_c, probe='change_shg_mgr'), predicate='mu2flux follows the current sources')
    data_intact('change_shg_mgr')


def probe_many_sources(ctx, env, rng):
    """> 128 sources with the default batch size (a partially filled second batch) and batch sizes that do not
    divide the number of sources: candidate table against the brute force"""
    for n_src, batch in ((131, 128), (7, 3), (5, 4)):
        case = gen_mc_case(rng, small=True)
        case['dss'] = case['dss'][:1]
        case['dss'][0]['lt'] = 2
        h = case['shgs'][0]
        h['batch'] = batch
        h['srcs'] = [{'pos': rng.choice(['inside', 'inside', 'at-lower-edge', 'at-upper-edge']), 'u': rng.random(),
                      'ra': rng.random() * 6.28, 'w': rng.choice([1, 2, 3])} for _ in range(n_src)]
        case['shgs'] = [h]
        st = McSetup(env, case, 0)
        if not st.ok:
            ctx.count('C:skipped-many-sources')
            continue
        ctx.count(f'C:sources:{n_src}/batch:{batch}')
        ctx.case({'part': 'C', 'many': n_src, 'seed': case['aim_seed']})
        g, b = st.fresh()
        if check_table(ctx, st, g, f'batch-{batch}'):
            r, live = observe(env, g, case['aim_seed'], [20])
            if r[0][0] == 'Ok':
                check_events(ctx, st, b, live[0], 20, r[0][1], f'batch-{batch}')


def probe_counts(ctx, env, rng):
    """one MultiDatasetSignalGenerator re-used for many totals / seeds against fresh ones; the weight array of
    the service is an input"""
    site = 'MultiDatasetSignalGenerator.generate_signal_events'
    for _ in range(ctx.budget(6, 40)):
        ws, D, kind = gen_weights(rng)
        g, log, sw = env.make(ws, D)
        g2, log2, sw2 = env.make(list(reversed(ws)), D)       # a second instance, built before first use
        w0, w20 = sw._w.copy(), sw2._w.copy()
        calls = [(rng.randint(0, 50), rng.randrange(2 ** 31)) for _ in range(5)]
        calls.append(calls[0])
        ctx.case({'part': 'C', 'ws': ws, 'D': D, 'calls': calls})
        ctx.count('C:counts-probe-sets')
        for mean, seed in calls:
            got = env.call(g, log, mean, LimitedRandom(seed))
            other = env.call(g2, log2, mean, LimitedRandom(seed))
            gf, logf, _ = env.make(ws, D)
            want = env.call(gf, logf, mean, LimitedRandom(seed))
            gf2, logf2, _ = env.make(list(reversed(ws)), D)
            want2 = env.call(gf2, logf2, mean, LimitedRandom(seed))
            case = {'part': 'A', 'ws': ws, 'D': D, 'mean': mean, 'seed': seed, 'probe': 'reuse', 'calls': calls}
            if got != want or other != want2:
                ctx.violation(site, 'history:reuse:differs-from-fresh-generator', f'{got} vs {want}; {other} vs {want2}',
                              case=case, predicate='result depends on the current inputs only')
            if not np.array_equal(sw._w, w0) or not np.array_equal(sw2._w, w20):
                ctx.violation(site, 'history:dataset-weights-modified', 'the weight array of the service was changed in place',
                              case=case, predicate='arguments / service data are inputs')
                sw._w[:] = w0
                sw2._w[:] = w20
            check_counts_predicates(ctx, case, got)


def run_probes(ctx):
    import random as _random
    rng = _random.Random(ctx.seed * 7919 + 18)
    probe_counts(ctx, CountsEnv(), rng)
    env = McEnv()
    done = tries = 0
    want = ctx.budget(12, 60)
    while done < want and tries < 8 * want:
        tries += 1
        a, b, c = gen_mc_case(rng, small=True), gen_mc_case(rng, small=True), gen_mc_case(rng, small=True)
        before = ctx.stats.get('C:mc-probe-sets', 0)
        try:
            probe_mc(ctx, env, rng, a, b, c['shgs'])
        except Exception as ex:  # noqa: BLE001
            ctx.violation('MCMultiDatasetSignalGenerator', 'history:raises-' + type(ex).__name__, str(ex)[:200],
                          case=dict(a, probe='history'), predicate='construction / calls succeed on legal inputs')
            done += 1
        done += ctx.stats.get('C:mc-probe-sets', 0) - before
    try:
        probe_many_sources(ctx, env, rng)
    except Exception as ex:  # noqa: BLE001
        ctx.violation('MCMultiDatasetSignalGenerator', 'history:many-sources:raises-' + type(ex).__name__, str(ex)[:200],
                      case={'part': 'C', 'probe': 'many-sources'}, predicate='construction succeeds with > 128 sources')


# =========================================================================== part D: the relocation loop
def run_relocation(ctx, exprs, checks):
    """the real signal_event_post_sampling_processing with the rotation replaced by a tag function (the result
    is the position of the source it was called with): which source is each event relocated to?"""
    import skyllh.i3.signal_generation as i3sg
    from skyllh.core.config import Config
    from skyllh.core.flux_model import PowerLawEnergyFluxProfile, SteadyPointlikeFFM
    from skyllh.core.source_hypo_grouping import SourceHypoGroup
    from skyllh.core.source_model import PointLikeSource
    from skyllh.core.storage import DataFieldRecordArray
    rng = ctx.rng
    cfg = Config()
    fm = SteadyPointlikeFFM(Phi0=1., energy_profile=PowerLawEnergyFluxProfile(E0=1, gamma=2, cfg=cfg), cfg=cfg)
    real = i3sg.rotate_signal_events_on_sphere

    def fake(src_ra, src_dec, evt_true_ra, evt_true_dec, evt_reco_ra, evt_reco_dec):
        # "rotation": the source position itself plus the event's own reco tag carried in the declination
        return (np.array(src_ra, dtype=np.float64), np.array(evt_reco_dec, dtype=np.float64))
    i3sg.rotate_signal_events_on_sphere = fake
    try:
        for _ in range(ctx.budget(25, 200)):
            n_src = rng.choice([1, 2, 3, 5, 8])
            n_ev = rng.choice([0, 1, 2, 5, 12])
            kind = rng.choice(['any', 'any', 'sparse', 'single'])
            if kind == 'single':
                meta = [rng.randrange(n_src)] * n_ev
            elif kind == 'sparse':
                pool = rng.sample(range(n_src), max(1, n_src // 2))
                meta = [rng.choice(pool) for _ in range(n_ev)]
            else:
                meta = [rng.randrange(n_src) for _ in range(n_ev)]
            srcs = [PointLikeSource(ra=0.125 * (k + 1), dec=0.0) for k in range(n_src)]
            shg = SourceHypoGroup(sources=srcs, fluxmodel=fm, detsigyield_builders=[],
                                  sig_gen_method=i3sg.PointLikeSourceI3SignalGenerationMethod())
            ids = list(range(100, 100 + n_ev))
            ev = DataFieldRecordArray({'ra': np.zeros(n_ev), 'dec': np.array(ids, dtype=np.float64) / 1024.,
                                       'sin_dec': np.zeros(n_ev), 'true_ra': np.zeros(n_ev), 'true_dec': np.zeros(n_ev)})
            m = np.zeros((n_ev,), dtype=[('shg_src_idx', np.uint8), ('ev_idx', np.int32)])
            m['shg_src_idx'] = meta
            case = {'part': 'D', 'n_src': n_src, 'meta': meta}
            ctx.case(case)
            ctx.count('D:relocation:' + kind)
            try:
                out = shg.sig_gen_method.signal_event_post_sampling_processing(shg, m, ev)
                got = ['Ok', [(int(round(float(out['ra'][i]) / 0.125)) - 1, int(round(float(out['dec'][i]) * 1024)))
                              for i in range(len(out))]]
            except Exception as ex:  # noqa: BLE001
                got = ['Err', type(ex).__name__]
            want = ['Ok', [(k, i) for k, i in zip(meta, ids)]]
            if got != want:
                ctx.violation('signal_event_post_sampling_processing', 'relocated-to-wrong-source',
                              f'{got} instead of {want}', case=case, impl=got,
                              predicate='every event is relocated to the source of its own candidate')
            exprs.append(f'post_process Z (Z * Z) (fun s e => (s, snd e)) {zlist(range(n_src))} {zlist(meta)} '
                         + '[' + '; '.join(f'(-1, {i})' for i in ids) + ']')
            checks.append(('reloc', case, got))
    finally:
        i3sg.rotate_signal_events_on_sphere = real


def compare_reloc(ctx, case, impl, v):
    if isinstance(v, tuple) and v[0] == 'Ok':
        m = ['Ok', [tuple(x) for x in v[1]]]
    elif isinstance(v, tuple) and v[0] == 'Err':
        m = ['Err', v[1]]
    else:
        m = ['unparsed', repr(v)[:200]]
    if m != impl:
        ctx.disagree('signal_generation.post_process', case, impl, m)


# =========================================================================== part E: the calling sites
def probe_analysis(ctx, env, rng, exprs, checks):
    """Analysis.generate_signal_events (observe_at site) on a real MC generator: the unbound method with a
    minimal stand-in for `self` (n_datasets, _sig_generator and the real argument check)"""
    import types
    from skyllh.core.analysis import Analysis
    site = 'Analysis.generate_signal_events'
    done = tries = 0
    while done < ctx.budget(6, 40) and tries < 60:
        tries += 1
        case = gen_mc_case(rng, small=True)
        st = McSetup(env, case, rng.choice([0, 30]))
        if not st.ok:
            continue
        done += 1
        n_ds = len(case['dss'])
        gen, b = st.fresh()
        me = types.SimpleNamespace(n_datasets=n_ds, _sig_generator=gen)
        me._assert_input_arguments_of_generate_signal_events = types.MethodType(
            Analysis._assert_input_arguments_of_generate_signal_events, me)
        mean = rng.choice([0, 1, 5, 13, 30])
        seed = rng.randrange(2 ** 31)
        pre_n = [rng.choice([0, 3, 17]) for _ in range(n_ds)]
        pre_e = []
        for j in range(n_ds):
            if rng.random() < 0.5:
                pre_e.append(None)
            else:
                pre_e.append(b['datal'][j].mc[np.arange(rng.choice([1, 2]))].copy())
        pre_ids = [None if e is None else [int(x) + 1000 for x in e['evid']] for e in pre_e]
        for e in pre_e:
            if e is not None:
                e['evid'] = e['evid'] + 1000
        ctx.case({'part': 'E', 'seed': seed, 'mean': mean, 'case': case['aim_seed']})
        ctx.count('E:analysis-calls')
        rss = env.RandomStateService(1)
        rss.random = CountingRandom(seed)
        try:
            (n_sig, nl, el) = Analysis.generate_signal_events(me, rss, mean, {'poisson': False},
                                                              n_events_list=list(pre_n), events_list=list(pre_e))
            got = ['Ok', int(n_sig), [int(x) for x in nl], [None if e is None else [int(x) for x in e['evid']] for e in el]]
        except Exception as ex:  # noqa: BLE001
            got = ['Err', type(ex).__name__]
        # the twin: the generator alone, same seed
        g2, _ = st.fresh()
        rss2 = env.RandomStateService(1)
        rss2.random = CountingRandom(seed)
        d2 = {} if mean == 0 else g2.generate_signal_events(rss2, mean, poisson=False)[1]
        dlist = [(int(k), [int(x) for x in d2[k]['evid']]) for k in d2]
        want_n = list(pre_n)
        want_e = [None if x is None else list(x) for x in pre_ids]
        for k, ids in dlist:
            want_n[k] += len(ids)
            want_e[k] = (want_e[k] or []) + ids
        want = ['Ok', mean, want_n, want_e]
        c_ = {'part': 'E', 'case': case, 'mean': mean, 'seed': seed, 'pre_n': pre_n, 'pre_ids': pre_ids}
        if got != want:
            ctx.violation(site, 'injected-events-differ', f'{str(got)[:300]} instead of {str(want)[:300]}', case=c_,
                          impl=got, predicate='n_sig == events added to the event lists == increase of the counters')
        evs_t = '[' + '; '.join('None' if x is None else 'Some ' + zlist(x) for x in pre_ids) + ']'
        dt = '[' + '; '.join(f'({k}, {zlist(ids)})' for k, ids in dlist) + ']'
        exprs.append(f'an_generate nat Z (fun g m => Ok (m, {dt}, g)) {n_ds} 0%nat {mean} {zlist(pre_n)} {evs_t}')
        checks.append(('analysis', c_, got))


def compare_analysis(ctx, case, impl, v):
    if isinstance(v, tuple) and v[0] == 'Ok':
        n, ns, evs, _g = v[1]
        m = ['Ok', n, list(ns), [None if e == 'None' else list(e[1]) for e in evs]]
    elif isinstance(v, tuple) and v[0] == 'Err':
        m = ['Err', v[1]]
    else:
        m = ['unparsed', repr(v)[:200]]
    if m != impl:
        ctx.disagree('analysis.an_generate', {k: case[k] for k in ('mean', 'seed', 'pre_n', 'pre_ids')}, impl, m)


def probe_multi_change(ctx, env, rng):
    """MultiDatasetSignalGenerator.change_shg_mgr with real MC generators (and a None) as per-dataset generators:
    every one of them must be rebuilt for the new sources"""
    from skyllh.core.signal_generator import MultiDatasetSignalGenerator
    site = 'MultiDatasetSignalGenerator.change_shg_mgr'
    done = tries = 0
    while done < ctx.budget(3, 15) and tries < 60:
        tries += 1
        case = gen_mc_case(rng, small=True)
        alt = dict(case, shgs=gen_mc_case(rng, small=True)['shgs'], sw_unit=1.0)
        b0, b1 = build_mc(env, case), build_mc(env, alt)
        if b0 is None or b1 is None:
            continue
        n_ds = len(case['dss'])
        subs, ok = [], True
        for j in range(n_ds):
            br0, m0 = brute_candidates(b0['num_dss'][j:j + 1], b0['num_shgs'])
            br1, m1 = brute_candidates(b1['num_dss'][j:j + 1], b1['num_shgs'])
            if (not br0 or not br1 or m0 < 1e-9 or m1 < 1e-9 or not any(c['wn'] > 0 for c in br0)
                    or not any(c['wn'] > 0 for c in br1)):
                ok = False
                break
            subs.append(br1)
        if not ok:
            continue
        done += 1
        ctx.count('E:multi-change_shg_mgr')
        ctx.case({'part': 'E', 'multi-change': case['aim_seed']})
        mgr0 = env.SourceHypoGroupManager(b0['shgs'])
        mgr1 = env.SourceHypoGroupManager(b1['shgs'])
        try:
            gens = [env.MCMultiDatasetSignalGenerator(cfg=env.cfg, shg_mgr=mgr0, dataset_list=env.dsl[j:j + 1],
                                                      data_list=b0['datal'][j:j + 1],
                                                      ds_sig_weight_factors_service=env.StubW2()) for j in range(n_ds)]
            gens.insert(rng.randrange(len(gens) + 1), None)          # None entries are skipped
            top = MultiDatasetSignalGenerator(shg_mgr=mgr0, dataset_list=env.dsl[:len(gens)],
                                              data_list=(b0['datal'] * 2)[:len(gens)], sig_generator_list=gens,
                                              ds_sig_weight_factors_service=env.StubW2(), cfg=env.cfg)
            top.change_shg_mgr(mgr1)
        except Exception as ex:  # noqa: BLE001
            ctx.violation(site, 'raises-' + type(ex).__name__, str(ex)[:200], case={'part': 'E', 'case': case})
            continue
        real = [g for g in gens if g is not None]
        for j, (g, br1) in enumerate(zip(real, subs)):
            keys = sorted((int(r['ev_idx']), int(r['shg_idx']), int(r['shg_src_idx'])) for r in g._sig_candidates)
            want = sorted((c['ev'], c['shg'], c['src']) for c in br1)
            if g.shg_mgr is not mgr1 or keys != want or sampler_consistent(g) is False:
                ctx.violation(site, 'per-dataset-generator-not-updated',
                              f'generator of dataset {j} still serves the old sources', case={'part': 'E', 'case': case, 'alt': alt['shgs']},
                              predicate='change_shg_mgr reaches every per-dataset generator')
                break


def probe_large_mc(ctx, env, rng):
    """one MC set larger than the range of a narrow index dtype (uint8 / int16): candidate rows must still point
    at the right MC events"""
    for n_ev in ([300] if not ctx.thorough() else [300, 33000]):
        for _try in range(6):
            case = gen_mc_case(rng, small=True)
            case['dss'] = case['dss'][:1]
            d = case['dss'][0]
            d['lt'] = 2
            base = d['events']
            lo, hi = min(e['sdk'] for e in base), max(e['sdk'] for e in base)
            d['events'] = base + [{'sdk': rng.randint(lo, hi), 'en': rng.randint(0, 12), 'mw': rng.choice([1, 2, 3]),
                                   'true_ra': rng.random() * 6.28, 'ra': rng.random() * 6.28,
                                   'ddec': rng.gauss(0, 0.03), 'q': rng.randint(0, 99)} for _ in range(n_ev - len(base))]
            case['shgs'] = case['shgs'][:1]
            case['shgs'][0]['srcs'] = [dict(s, pos='inside') for s in case['shgs'][0]['srcs'][:2]]
            case['shgs'][0]['hw_k'] = 2 ** 14 if n_ev > 1000 else case['shgs'][0]['hw_k']
            st = McSetup(env, case, 0)
            if st.ok and any(c['ev'] > 255 and c['wn'] > 0 for c in st.brute):
                break
        else:
            ctx.count('E:skipped-large-mc')
            continue
        ctx.count(f'E:large-mc:{n_ev}')
        ctx.case({'part': 'E', 'large': n_ev, 'seed': case['aim_seed']})
        try:
            g, b = st.fresh()
        except Exception as ex:  # noqa: BLE001
            ctx.violation('MCMultiDatasetSignalGenerator.__init__', 'large-mc:raises-' + type(ex).__name__, str(ex)[:200],
                          case={'part': 'E', 'large': n_ev})
            continue
        if check_table(ctx, st, g, f'large-mc-{n_ev}'):
            r, live = observe(env, g, case['aim_seed'], [40])
            if r[0][0] == 'Ok':
                check_events(ctx, st, b, live[0], 40, r[0][1], f'large-mc-{n_ev}')
            else:
                ctx.violation('MCMultiDatasetSignalGenerator.generate_signal_events', 'large-mc:raises-' + r[0][1], 'raises',
                              case={'part': 'E', 'large': n_ev})


def run_sites(ctx, exprs, checks):
    import random as _random
    rng = _random.Random(ctx.seed * 104729 + 18)
    env = McEnv()
    for f in (lambda: probe_analysis(ctx, env, rng, exprs, checks), lambda: probe_multi_change(ctx, env, rng),
              lambda: probe_large_mc(ctx, env, rng)):
        try:
            f()
        except Exception as ex:  # noqa: BLE001
            ctx.violation('signal-injection calling sites', 'probe-raises-' + type(ex).__name__, str(ex)[:200],
                          case={'part': 'E'}, predicate='construction / calls succeed on legal inputs')


# =========================================================================== part F: the validity-range configuration
def cfg_make_arg(spec):
    """spec: ('list'|'tuple'|'dict'|'int', [[(key_kind, val_kind), ...], ...]) -> the python argument"""
    kind, dicts = spec
    out = []
    for d in dicts:
        dd = {}
        for n_, (kk, vk) in enumerate(d):
            key = f'f{n_}' if kk == 'str' else (n_ + 5)
            val = {'t2': (0.0, 1.0), 't0': (), 't1': (0.5,), 't3': (0.0, 1.0, 2.0), 'list2': [0.0, 1.0], 'float': 0.5}[vk]
            dd[key] = val
        out.append(dd)
    return {'list': out, 'tuple': tuple(out), 'dict': {i: d for i, d in enumerate(out)}, 'int': 7}[kind]


def cfg_term_dicts(dicts):
    def ent(kk, vk):
        ln = {'t2': 2, 't0': 0, 't1': 1, 't3': 3, 'list2': 2, 'float': 0}[vk]
        return (f"{{| r_key_str := {'true' if kk == 'str' else 'false'}; "
                f"r_val_tuple := {'true' if vk.startswith('t') else 'false'}; r_len := {ln} |}}")
    return '[' + '; '.join('[' + '; '.join(ent(*e) for e in d) + ']' for d in dicts) + ']'


def cfg_wf(spec):
    """independent reading of the documented contract"""
    kind, dicts = spec
    return kind == 'list' and all(kk == 'str' and vk == 't2' for d in dicts for (kk, vk) in d)


def cfg_gen_spec(rng, n_ds):
    kind = rng.choice(['list'] * 8 + ['tuple', 'dict', 'int'])
    n = n_ds if rng.random() < 0.8 else rng.choice([0, n_ds + 1, max(0, n_ds - 1)])
    bad = rng.random() < 0.45
    dicts = []
    for _ in range(n):
        d = [('str', 't2') for _ in range(rng.choice([0, 1, 1, 2, 3]))]
        if bad and d and rng.random() < 0.6:
            d[rng.randrange(len(d))] = (rng.choice(['str', 'str', 'int']), rng.choice(['t2', 't0', 't1', 't3', 'list2', 'float']))
        dicts.append(d)
    return (kind, dicts)


def cfg_one(ctx, env, st, gen, spec, mode, exprs, checks):
    """mode 'set': the setter on an existing generator; mode 'init': the constructor"""
    site = 'MCMultiDatasetSignalGenerator.valid_event_field_ranges_dict_list'
    n_ds = len(st.case['dss'])
    case = {'part': 'F', 'mode': mode,
            'spec': None if spec is None else [spec[0], [[list(e) for e in d] for d in spec[1]]], 'mc_case': st.case}
    ctx.case({'part': 'F', 'mode': mode, 'spec': case['spec']})
    ctx.count('F:' + mode + ':' + ('default-None' if spec is None else
                                   ('wf' if cfg_wf(spec) and (mode == 'set' or len(spec[1]) == n_ds) else 'malformed:' + spec[0])))
    canon = lambda dl: [[[isinstance(k, str), isinstance(v, tuple), len(v) if hasattr(v, '__len__') else 0]   # noqa: E731
                         for k, v in d.items()] for d in dl]
    if mode == 'set':
        old = [{'q': (0.0, 50.0)}] + [dict() for _ in range(n_ds - 1)]
        gen.valid_event_field_ranges_dict_list = old
        arg = cfg_make_arg(spec)
        try:
            gen.valid_event_field_ranges_dict_list = arg
            got = ['Ok']
        except Exception as ex:  # noqa: BLE001
            got = ['Err', type(ex).__name__]
        stored = gen.valid_event_field_ranges_dict_list
        got.append('new' if stored is arg else ('old' if stored is old else 'other'))
        wf = cfg_wf(spec)
        if (got[0] == 'Ok') != wf or got[-1] != ('new' if wf else 'old') or (not wf and got[1] not in ('TypeError', 'ValueError')):
            ctx.violation(site, 'setter-accepts-or-corrupts', f'{got} for a {"well-formed" if wf else "malformed"} value',
                          case=case, impl=got, predicate='accepted iff list of {str: 2-tuple} dicts; a rejected value changes nothing')
        gen.valid_event_field_ranges_dict_list = old
        oldt = '[[{| r_key_str := true; r_val_tuple := true; r_len := 2 |}]' + ''.join('; []' for _ in range(n_ds - 1)) + ']'
        exprs.append(f"let r := set_ranges {'true' if spec[0] == 'list' else 'false'} {oldt} {cfg_term_dicts(spec[1])} in "
                     f"(snd r, map (map (fun e => (r_key_str e, r_val_tuple e, r_len e))) (fst r))")
        want_stored = canon(arg) if got[-1] == 'new' else (canon(old) if got[-1] == 'old' else 'other')
        checks.append(('cfg', case, [got[:-1], want_stored]))
    else:
        b = build_mc(env, st.case)
        arg = None if spec is None else cfg_make_arg(spec)
        try:
            g2 = env.MCMultiDatasetSignalGenerator(
                cfg=env.cfg, shg_mgr=env.SourceHypoGroupManager(b['shgs']), dataset_list=env.dsl[:n_ds],
                data_list=b['datal'], valid_event_field_ranges_dict_list=arg, ds_sig_weight_factors_service=env.StubW2())
            got = ['Ok', canon(g2.valid_event_field_ranges_dict_list)]
        except Exception as ex:  # noqa: BLE001
            got = ['Err', type(ex).__name__]
        wf = spec is None or (cfg_wf(spec) and len(spec[1]) == n_ds)
        if (got[0] == 'Ok') != wf or (wf and got[1] != ([[] for _ in range(n_ds)] if spec is None else canon(arg))):
            ctx.violation('MCMultiDatasetSignalGenerator.__init__', 'ranges-config-accepted-or-lost',
                          f'{str(got)[:200]} for a {"well-formed" if wf else "malformed"} configuration', case=case, impl=got,
                          predicate='constructed iff None or a list of n_datasets well-formed dicts, stored as given')
        a_t = 'None' if spec is None else f"(Some ({'true' if spec[0] == 'list' else 'false'}, {cfg_term_dicts(spec[1])}))"
        exprs.append(f'match init_ranges {a_t} {n_ds} with Ok r => Ok (map (map (fun e => (r_key_str e, r_val_tuple e, r_len e))) r) '
                     f'| Err e => Err e end')
        checks.append(('cfg-init', case, got))


def run_config(ctx, exprs, checks, only=None):
    import random as _random
    rng = _random.Random(ctx.seed * 31337 + 18)
    env = McEnv()
    st = None
    for cs in range(4000, 4100):
        c_ = gen_mc_case(_random.Random(cs), small=True)
        if len(c_['dss']) >= 2:
            st = McSetup(env, c_, 0)
            if st.ok:
                break
    if st is None or not st.ok:
        ctx.broken.append({'kind': 'harness', 'error': 'no base generator for the configuration stream'})
        return
    gen, _b = st.fresh()
    n_ds = len(st.case['dss'])
    if only is not None:
        sp = only['spec']
        spec = None if sp is None else (sp[0], [[tuple(e) for e in d] for d in sp[1]])
        cfg_one(ctx, env, st, gen, spec, only['mode'], exprs, checks)
        return
    fixed = [('list', [[('str', 't2')]] + [[] for _ in range(n_ds - 1)]), ('list', [[('int', 't2')]] + [[] for _ in range(n_ds - 1)]),
             ('list', [[('str', 'list2')]] + [[] for _ in range(n_ds - 1)]), ('list', [[] for _ in range(n_ds - 1)] + [[('str', 't3')]]),
             ('list', [[('str', 't2'), ('int', 't3')]] + [[] for _ in range(n_ds - 1)]), ('tuple', [[] for _ in range(n_ds)]),
             ('list', [[] for _ in range(n_ds + 1)]), ('list', [])]
    for spec in fixed + [cfg_gen_spec(rng, n_ds) for _ in range(ctx.budget(40, 300))]:
        cfg_one(ctx, env, st, gen, spec, 'set', exprs, checks)
    for spec in [None] + fixed + [cfg_gen_spec(rng, n_ds) for _ in range(ctx.budget(12, 80))]:
        cfg_one(ctx, env, st, gen, spec, 'init', exprs, checks)


def compare_cfg(ctx, kind, case, impl, v):
    cc = {'part': 'F', 'mode': case['mode'], 'spec': case['spec']}
    tolist = lambda x: [[[bool(a), bool(b), int(c)] for (a, b, c) in d] for d in x]   # noqa: E731
    try:
        if kind == 'cfg':
            r, stored = v
            m = [['Ok'] if (r == ('Ok', 'tt') or r == 'Ok' or (isinstance(r, tuple) and r[0] == 'Ok')) else ['Err', r[1]], tolist(stored)]
        else:
            m = ['Ok', tolist(v[1])] if v[0] == 'Ok' else ['Err', v[1]]
    except Exception as ex:  # noqa: BLE001
        m = ['unparsed', repr(v)[:200], str(ex)]
    if m != impl:
        ctx.disagree('signal_generator.ranges_config', cc, impl, m)


# =========================================================================== driver
def evaluate(ctx, name, exprs, checks):
    if not exprs:
        return
    if not ctx.model_ok:
        ctx.notes.append('model did not build: implementation-only predicates were evaluated')
        return
    try:
        vals = common.coq_eval(name, IMPORTS, exprs, timeout=900)
    except RuntimeError as ex:
        ctx.broken.append({'kind': 'model-eval', 'error': str(ex)[:1500]})
        return
    for (kind, case, impl), v in zip(checks, vals):
        ctx.corr_cases += 1
        if kind == 'counts':
            compare_counts(ctx, case, impl, v)
        elif kind == 'reloc':
            compare_reloc(ctx, case, impl, v)
        elif kind == 'analysis':
            compare_analysis(ctx, case, impl, v)
        elif kind in ('cfg', 'cfg-init'):
            compare_cfg(ctx, kind, case, impl, v)
        else:
            compare_mc(ctx, case, impl, v)


def run(ctx):
    try:
        run_probes(ctx)
    except Exception as ex:  # noqa: BLE001   (a crashing probe must not look like a pass)
        import traceback
        traceback.print_exc()
        ctx.broken.append({'kind': 'harness', 'error': f'history probes: {type(ex).__name__}: {ex}'})
    exprs, checks = [], []
    run_counts(ctx, CountsEnv(), exprs, checks)
    run_relocation(ctx, exprs, checks)
    run_sites(ctx, exprs, checks)
    run_config(ctx, exprs, checks)
    evaluate(ctx, 'c18a', exprs, checks)
    exprs, checks = [], []
    env = McEnv()
    n_b = ctx.budget(36, 500)
    # corpus (fixed seeds): validity window on a relocated field with first-pass rejections and redraws
    import random as _random
    hits0 = ctx.stats.get('B:relocated-field-range-with-first-pass-rejection', 0)
    for cs in range(1800, 1900):
        if ctx.stats.get('B:relocated-field-range-with-first-pass-rejection', 0) - hits0 >= 6:
            break
        crng = _random.Random(cs)
        case = gen_mc_case(crng, small=True)
        case.update(reloc_field=['dec', 'ra', 'sin_dec'][cs % 3], reloc_reject=[40, 60, 80][(cs // 3) % 3], reject=0,
                    n_signal=13, poisson=False)
        run_mc_case(ctx, env, case, exprs, checks)
    ctx.count('B:corpus-relocated-range-cases', ctx.stats.get('B:relocated-field-range-with-first-pass-rejection', 0) - hits0)
    tried = 0
    while len(exprs) < n_b and tried < 6 * n_b:
        tried += 1
        case = gen_mc_case(ctx.rng, small=not ctx.thorough() or tried % 3 != 0)
        if tried % 3 == 1:
            case['alt_shgs'] = gen_mc_case(ctx.rng, small=True)['shgs']
        quota = ctx.budget(10, 120)
        if tried % 3 == 2 or (len(exprs) >= n_b - quota
                              and ctx.stats.get('B:relocated-field-range-with-first-pass-rejection', 0) < quota):
            # quota: validity range on a field changed by the relocation, rejecting 20..95 % in the first pass
            case['reloc_field'] = ctx.rng.choice(['dec', 'dec', 'ra', 'sin_dec'])
            case['reloc_reject'] = ctx.rng.choice([20, 40, 60, 80, 95])
            case['reject'] = ctx.rng.choice([0, 0, 20])
            case['n_signal'] = max(case['n_signal'], ctx.rng.choice([5, 8, 13, 21]))
        run_mc_case(ctx, env, case, exprs, checks)
    if checks:
        c = checks[-1][1]
        ctx.sample({'part': 'B', 'n_signal': c['n_signal'], 'reject_percent': c['reject'],
                    'datasets': [len(d['events']) for d in c['dss']],
                    'groups': [[s['pos'] for s in h['srcs']] for h in c['shgs']]})
    evaluate(ctx, 'c18b', exprs, checks)


def replay(ctx, rp):
    c = rp.get('case') or {}
    exprs, checks = [], []
    if c.get('part') == 'A' and 'ws' in c:
        env = CountsEnv()
        if 'seed' in c:
            impl = env.run(c['ws'], c['D'], c['mean'], np.random.RandomState(c['seed']))
            ctx.case(c)
            check_counts_predicates(ctx, c, impl)
        else:
            rs = ScriptRandom(c.get('script') or [])
            impl = env.run(c['ws'], c['D'], c['mean'], rs, poisson=bool(c.get('poisson')))
            case = dict(c, batches=rs.batches)
            ctx.case(case)
            check_counts_predicates(ctx, case, impl)
            exprs.append(counts_term(c['ws'], c['D'], c['mean'], rs.batches, bool(c.get('poisson'))))
            checks.append(('counts', case, impl))
        evaluate(ctx, 'c18r', exprs, checks)
    elif c.get('part') == 'F' and 'mode' in c:
        run_config(ctx, exprs, checks, only=c)
        evaluate(ctx, 'c18r', exprs, checks)
    elif c.get('part') == 'B' and 'dss' in c:
        run_mc_case(ctx, McEnv(), c, exprs, checks)
        evaluate(ctx, 'c18r', exprs, checks)
    else:
        ctx.notes.append('replay file has no concrete input (broken obligation): re-running the full check')
        run(ctx)
