"""C14 — live-time queries vs. half-open up-time intervals.

Correspondence: real skyllh.core.livetime.Livetime / dataset.get_data_subset
against coq/model/M_Livetime.v evaluated by vm_compute, on interval lists whose
edges are dyadic rationals (exact in float64, integers in the model).
Predicates (failing-input search): the property evaluated directly on the
implementation's results against an independent brute-force reading of the
half-open interval set."""
import math
import os

import numpy as np

from harness import common
from harness.common import zlit, zlist, zpairs

GEN_MODULES = ['livetime']
MODEL_TARGETS = ['model/M_Livetime.vo']
PROOF_TARGETS = ['proofs/P_Livetime.vo', 'proofs/P_LivetimeGrl.vo']
LEVEL = 'proof'
RULE = ('interval lists with 1..40 intervals (touching, zero-length, tiny/huge gaps), windows of every kind '
        '(inside one interval, spanning gaps, in a gap, before first, after last, infinite, on edges), '
        'query times on and next to every edge; a case is non-trivial when it has >=1 interval and is '
        'distinct by (intervals, query) hash')
TRUSTED = [
    'Coq 8.16.1 kernel incl. vm_compute (no native_compute)',
    'theorems closed under the global context (no axioms)',
    'translator/py2coq.py: per-element reading of the numpy index arithmetic of livetime.py (kernels of G_livetime.v)',
    'hand model M_Livetime.v of control flow / array plumbing, validated by this correspondence',
    'times modelled as integers (dyadic scaling); float rounding of lower + y in draw_ontimes is outside the theorem',
    'np.digitize on a non-decreasing edge array = number of edges <= x',
]

SCALE = 2 ** 23          # model integer = float * SCALE
UNIT = 2 ** 20           # interval edges are multiples of 1/8 day = UNIT model units
IMPORTS = ('From Coq Require Import ZArith List. Import ListNotations. Open Scope Z_scope.\n'
           'From Sky Require Import Result PyList M_Livetime.\n')


def f2z(x):
    v = x * SCALE
    assert v == int(v), x
    return int(v)


def z2f(n):
    return n / SCALE


def gen_intervals(rng, n, origin):
    edges = []
    t = origin
    for i in range(n):
        if i > 0:
            r = rng.random()
            if r < 0.25:
                gap = 0
            elif r < 0.5:
                gap = 1
            elif r < 0.9:
                gap = rng.randint(2, 40)
            else:
                gap = rng.randint(1000, 100000)
            t += gap
        r = rng.random()
        if r < 0.15:
            w = 0
        elif r < 0.4:
            w = 1
        else:
            w = rng.randint(2, 60)
        edges.append((t, t + w))
        t += w
    return [(a * UNIT, b * UNIT) for a, b in edges]


def gen_windows(rng, ivs, k):
    """windows in model units, tagged with their kind"""
    out = []
    lo = ivs[0][0]
    hi = ivs[-1][1]
    BIG = 10 ** 15
    pos = [iv for iv in ivs if iv[1] - iv[0] >= 2 * UNIT]
    gaps = [(ivs[i][1], ivs[i + 1][0]) for i in range(len(ivs) - 1) if ivs[i + 1][0] - ivs[i][1] >= 2 * UNIT]
    edges = sorted({e for iv in ivs for e in iv})
    for _ in range(k):
        kind = rng.choice(['inside', 'span', 'gap', 'before', 'after', 'inf', 'edges', 'random', 'zero', 'left-inf', 'right-inf'])
        if kind == 'inside' and pos:
            a, b = rng.choice(pos)
            t1 = rng.randrange(a, b, UNIT // 4)
            t2 = rng.randrange(t1, b + 1, UNIT // 4)
        elif kind == 'gap' and gaps:
            a, b = rng.choice(gaps)
            t1 = rng.randrange(a, b, UNIT // 4)
            t2 = rng.randrange(t1, b + 1, UNIT // 4)
        elif kind == 'before':
            t1 = lo - rng.randint(2, 50) * UNIT
            t2 = t1 + rng.randint(0, 1) * UNIT
        elif kind == 'after':
            t1 = hi + rng.randint(0, 50) * UNIT
            t2 = t1 + rng.randint(0, 5) * UNIT
        elif kind == 'inf':
            t1, t2 = -BIG, BIG
        elif kind == 'left-inf':
            t1, t2 = -BIG, rng.choice(edges) + rng.randint(-2, 2) * (UNIT // 2)
        elif kind == 'right-inf':
            t1, t2 = rng.choice(edges) + rng.randint(-2, 2) * (UNIT // 2), BIG
        elif kind == 'edges':
            t1 = rng.choice(edges)
            t2 = rng.choice([e for e in edges if e >= t1])
        elif kind == 'zero':
            t1 = t2 = rng.choice(edges) + rng.randint(-1, 1) * (UNIT // 2)
        else:
            kind = 'random'
            t1 = rng.randrange(lo - 3 * UNIT, hi + 3 * UNIT, UNIT // 4)
            t2 = rng.randrange(t1, hi + 4 * UNIT, UNIT // 4)
        out.append((kind, t1, t2))
    return out


def as_float_window(t):
    if t <= -10 ** 15:
        return -np.inf
    if t >= 10 ** 15:
        return np.inf
    return z2f(t)


class StubRSS:
    """RandomStateService stand-in whose uniform() returns prescribed numbers"""
    class _R:
        def __init__(self, xs):
            self.xs = xs

        def uniform(self, lo, hi, size):
            assert lo == 0 and hi == 1 and size == len(self.xs)
            return np.array(self.xs, dtype=np.float64)

    def __init__(self, xs):
        self.random = StubRSS._R(xs)


def exc_name(ex):
    return type(ex).__name__


def brute_on(ivs, t):
    return any(l <= t < u for l, u in ivs)


def denote_equal(res, ivs, t1, t2):
    """result intervals denote exactly on-time ∩ [t1,t2): compare on all
    relevant breakpoints and mid-points (piecewise-constant membership)"""
    pts = sorted({e for iv in ivs for e in iv} | {e for iv in res for e in iv} | {t1, t2})
    pts = [p for p in pts if abs(p) < 10 ** 15]
    probe = set(pts)
    for a, b in zip(pts, pts[1:]):
        probe.add((a + b) // 2)
    if pts:
        probe.add(pts[0] - 1)
        probe.add(pts[-1] + 1)
    for p in probe:
        want = brute_on(ivs, p) and t1 <= p < t2
        got = brute_on(res, p)
        if want != got:
            return p
    return None


def history_probes(ctx, lt, ivs, arr_in, arr_snapshot, case, hist):
    """metamorphic probes on the real object (tools/HARDENING.md): repeat, arguments are inputs,
    returned values are owned by the caller"""
    site = 'Livetime (history probes)'
    q = np.array([z2f(t) for t in case['queries']], dtype=np.float64)
    q0 = q.copy()
    a1, a2 = lt.is_on(q), lt.is_on(q)
    u1, u2 = lt.get_livetime_upto(q), lt.get_livetime_upto(q)
    if not (np.array_equal(a1, a2) and np.array_equal(u1, u2)):
        ctx.violation(site, 'repeated-call-differs', 'is_on / get_livetime_upto called twice with the same argument differ',
                      case={'ivs': ivs, 'scale': SCALE, 'history': hist}, predicate='result is a function of the current inputs only')
    if not np.array_equal(q, q0):
        ctx.violation(site, 'argument-modified', 'query array modified by is_on / get_livetime_upto',
                      case={'ivs': ivs, 'scale': SCALE, 'history': hist})
    for kind, t1, t2 in case['windows'][:3]:
        r1 = lt.get_uptime_intervals_between(as_float_window(t1), as_float_window(t2))
        keep = r1.copy()
        if r1.size:
            r1[...] = -12345.0                     # the caller owns the returned array
        r2 = lt.get_uptime_intervals_between(as_float_window(t1), as_float_window(t2))
        if not np.array_equal(keep, r2):
            ctx.violation(site, 'returned-array-aliases-state', 'writing into the array returned by '
                          'get_uptime_intervals_between changed a later result',
                          case={'ivs': ivs, 'window': (kind, t1, t2), 'scale': SCALE, 'history': hist})
    # a REJECTED assignment must leave the object as it was (the setter checks before it stores)
    for bad in (np.array([[5., 1.], [7., 9.]]), np.array([[0, 100]]), np.array([[1., 3.], [2., 4.]]), np.zeros((2, 3))):
        try:
            lt.uptime_mjd_intervals_arr = bad
            rejected = False
        except (TypeError, ValueError):
            rejected = True
        now = lt.uptime_mjd_intervals_arr
        same = (now.shape == arr_in.shape) and np.array_equal(now, arr_snapshot)
        if rejected and not same:
            ctx.violation(site, 'rejected-assignment-changed-state',
                          'an interval array rejected by the integrity check replaced the stored intervals',
                          case={'ivs': ivs, 'scale': SCALE, 'history': hist, 'rejected': bad.tolist()},
                          predicate='a rejected assignment leaves every query unchanged')
            lt.uptime_mjd_intervals_arr = arr_in
        elif not rejected:
            ctx.violation(site, 'malformed-assignment-accepted', 'a malformed interval array was accepted by the setter',
                          case={'ivs': ivs, 'scale': SCALE, 'rejected': bad.tolist()})
            lt.uptime_mjd_intervals_arr = arr_in
    if not np.array_equal(arr_in, arr_snapshot):
        ctx.violation(site, 'argument-modified', 'the interval array handed to Livetime was modified',
                      case={'ivs': ivs, 'scale': SCALE, 'history': hist})
    now = np.asarray(lt.uptime_mjd_intervals_arr, dtype=np.float64)
    if now.shape != arr_snapshot.shape or not np.array_equal(now, arr_snapshot):
        ctx.violation(site, 'stored-intervals-changed', 'queries changed the stored up-time intervals',
                      case={'ivs': ivs, 'scale': SCALE, 'history': hist},
                      impl=[[float.hex(float(a)), float.hex(float(b))] for a, b in now.tolist()[:6]])
        lt.uptime_mjd_intervals_arr = arr_snapshot.copy()


def edge_rounding_probe(ctx, Livetime):
    """float probe (no model): uniforms within an ulp below every cumulative interval boundary, at MJD-like
    magnitudes where `lower + y` rounds up to the excluded upper edge (fixed by de40f4d); the drawn time must be
    in on-time and inside the window."""
    sets = [
        [[58000., 58001.], [58002., 58003.]],
        [[58000., 58000.5], [58000.5, 58001.], [58003.25, 58010.]],
        [[0.125, 1.], [2., 3.5]],
        [[-1., -0.5], [0., 0.25], [7., 8.]],
    ]
    for arr in sets:
        a = np.array(arr, dtype=np.float64)
        lt = Livetime(a)
        for (t1, t2) in [(None, None), (a[0, 0] + 0.25 * (a[0, 1] - a[0, 0]), a[-1, 1] - 0.25 * (a[-1, 1] - a[-1, 0])),
                         (None, a[0, 0] + 0.75 * (a[0, 1] - a[0, 0])), (a[-1, 0], None)]:
            lo = a[0, 0] if t1 is None else t1
            hi = a[-1, 1] if t2 is None else t2
            clipped = [(max(l, lo), min(u, hi)) for l, u in arr if lo < u and l <= hi]
            widths = [u - l for l, u in clipped]
            L = sum(widths)
            if L <= 0:
                continue
            cum = np.cumsum(widths) / L
            xs = []
            for f in cum:
                xs += [float(np.nextafter(f, 0)), float(np.nextafter(np.nextafter(f, 0), 0)), float(min(f, np.nextafter(1., 0)))]
            xs += [1 - 2 ** -53, 0.0]
            xs = [x for x in xs if 0 <= x < 1]
            kw = {}
            if t1 is not None:
                kw['t_min'] = t1
            if t2 is not None:
                kw['t_max'] = t2
            ctx.count('edge_rounding_draws', len(xs))
            try:
                o = lt.draw_ontimes(StubRSS(xs), len(xs), **kw)
            except Exception as ex:
                ctx.violation('Livetime.draw_ontimes', 'raises-' + exc_name(ex), 'raises in the edge-rounding probe',
                              case={'float_ivs': arr, 'window': (t1, t2), 'xs': [float.hex(x) for x in xs]})
                continue
            for x, v in zip(xs, o):
                v = float(v)
                on = any(l <= v < u for l, u in arr)
                if not on or not (lo <= v < hi):
                    ctx.violation('Livetime.draw_ontimes', 'upper-edge-drawn',
                                  f'uniform {float.hex(x)} gives {v!r}: not in on-time inside the window',
                                  case={'float_ivs': arr, 'window': (t1, t2), 'x': float.hex(x)}, impl=v,
                                  predicate='drawn time in on-time inside the requested window (half-open intervals)')
                    break


def integrity_stream(ctx, Livetime, rng, model_exprs, checks, n):
    """malformed stream for the constructor's own integrity check (theorem C14_integrity: the check accepts exactly
    the sorted, non-overlapping interval lists): overlapping, unsorted, negative-length, touching, zero-length;
    wrong dtype / ndim / shape must be rejected too (TypeError / ValueError)."""
    for k in range(n):
        m = rng.choice([1, 2, 3, 4, 6])
        edges = sorted(rng.sample(range(-40, 200), 2 * m))
        ivs = [(edges[2 * i] * UNIT, edges[2 * i + 1] * UNIT) for i in range(m)]
        kind = rng.choice(['ok', 'ok', 'swap-edges', 'overlap', 'unsorted', 'touch', 'zero'])
        i = rng.randrange(m)
        if kind == 'swap-edges':
            ivs[i] = (ivs[i][1], ivs[i][0])
        elif kind == 'overlap' and m > 1:
            i = rng.randrange(m - 1)
            ivs[i] = (ivs[i][0], ivs[i + 1][0] + UNIT // 2)
        elif kind == 'unsorted' and m > 1:
            i = rng.randrange(m - 1)
            ivs[i], ivs[i + 1] = ivs[i + 1], ivs[i]
        elif kind == 'touch' and m > 1:
            i = rng.randrange(m - 1)
            ivs[i] = (ivs[i][0], ivs[i + 1][0])
        elif kind == 'zero':
            ivs[i] = (ivs[i][0], ivs[i][0])
        ctx.count('integrity:' + kind)
        arr = np.array([[z2f(a), z2f(b)] for a, b in ivs], dtype=np.float64)
        try:
            Livetime(arr)
            impl = True
        except ValueError:
            impl = False
        except Exception as ex:
            impl = 'raises-' + exc_name(ex)
        want = all(a <= b for a, b in ivs) and all(ivs[j][1] <= ivs[j + 1][0] for j in range(m - 1))
        if impl != want:
            ctx.violation('Livetime.assert_mjd_intervals_integrity', 'accepts-or-rejects-wrongly',
                          f'{kind}: accepted={impl}, sorted-and-non-overlapping={want}',
                          case={'ivs': ivs, 'scale': SCALE}, impl=impl, predicate='accepted <-> sorted, non-overlapping')
        model_exprs.append(f'integrity {zpairs(ivs)}')
        checks.append(('integrity', {'ivs': ivs, 'scale': SCALE}, impl))
        ctx.case({'integrity': ivs})
    good = np.array([[1., 2.], [3., 4.]])
    for bad, exc in [(good.astype(np.float32), TypeError), (good.tolist(), TypeError), (good.reshape(4), ValueError),
                     (good.reshape(1, 4), ValueError), (np.zeros((2, 2, 2)), ValueError)]:
        try:
            Livetime(bad)
            got = None
        except Exception as ex:
            got = type(ex)
        if got is not exc:
            ctx.violation('Livetime.assert_mjd_intervals_integrity', 'malformed-array-not-rejected',
                          f'expected {exc.__name__}, got {got}', case={'array': repr(bad)[:80]})


def gen_runs(rng, kind, m):
    """a good-run list of m runs as (start, stop) pairs in model units"""
    U = UNIT
    edges = sorted(rng.sample(range(-40, 400), 2 * m))
    runs = [(edges[2 * i] * U, edges[2 * i + 1] * U) for i in range(m)]
    if m < 2:
        return runs
    i = rng.randrange(1, m)
    if kind == 'slight-overlap':        # run i starts shortly before run i-1 stops
        for j in range(1, m):
            if rng.random() < 0.6:
                lo = max(runs[j - 1][0], runs[j - 1][1] - 3 * U)
                runs[j] = (rng.choice([lo, runs[j - 1][1] - U // 2, runs[j - 1][1] - U // 4]), runs[j][1])
        runs = [(max(s, runs[j - 1][0]) if j else s, e) for j, (s, e) in enumerate(runs)]
    elif kind == 'touching':
        runs[i] = (runs[i - 1][1], runs[i][1])
    elif kind == 'contained':           # run i lies inside run i-1: its stop is before the predecessor's stop
        s0, e0 = runs[i - 1]
        if e0 - s0 >= 2 * U:
            runs[i] = (s0 + U // 2, e0 - U // 2)
        else:
            runs[i - 1] = (s0, runs[i][1] + U)
    elif kind == 'unsorted-starts':     # starts not sorted, stops still sorted
        runs[i] = (runs[0][0] - U, runs[i][1])
    elif kind == 'swapped-rows':
        runs[i - 1], runs[i] = runs[i], runs[i - 1]
    elif kind == 'stop-before-start':
        runs[i] = (runs[i][1], runs[i][0])
    elif kind == 'zero-length':
        runs[i] = (runs[i][0], runs[i][0])
    elif kind == 'equal-starts':
        runs[i] = (runs[i - 1][0], runs[i][1])
    return runs


def grl_array(runs):
    a = np.zeros(len(runs), dtype=[('run', np.int64), ('start', np.float64), ('stop', np.float64),
                                   ('livetime', np.float64), ('events', np.int64)])
    a['run'] = np.arange(120000, 120000 + len(runs))
    a['start'] = [z2f(s) for s, _ in runs]
    a['stop'] = [z2f(e) for _, e in runs]
    a['livetime'] = a['stop'] - a['start']
    a['events'] = 7
    return a


def grl_stream(ctx, rng, model_exprs, checks, n, only=None):
    """good-run list -> Livetime, the way time_dependent_ps.create_analysis does it: clip_grl_start_times,
    I3Livetime.from_grl_data, is_on / get_integrated_livetime on the result, LivetimeTimeGenerationMethod /
    TimeGenerator on top of it (theorems C14_grl_*).  Compared with the model (clip_grl, from_grl, grl_livetime)
    and with an independent predicate: a time is on exactly when it lies in one of the runs."""
    from skyllh.analyses.i3.publicdata_ps.utils import clip_grl_start_times
    from skyllh.i3.livetime import I3Livetime
    from skyllh.core.livetime import Livetime
    from skyllh.core.times import LivetimeTimeGenerationMethod, TimeGenerator
    kinds = ['disjoint', 'slight-overlap', 'slight-overlap', 'touching', 'contained', 'unsorted-starts',
             'swapped-rows', 'stop-before-start', 'zero-length', 'equal-starts']
    fixed = [('slight-overlap', [(10 * UNIT, 20 * UNIT), (18 * UNIT, 30 * UNIT), (30 * UNIT, 30 * UNIT),
                                 (29 * UNIT, 41 * UNIT), (50 * UNIT, 60 * UNIT)]),
             ('contained', [(0, 10 * UNIT), (2 * UNIT, 5 * UNIT)]),
             ('empty', []), ('single', [(3 * UNIT, 4 * UNIT)]),
             ('slight-overlap', [(10 * UNIT, 20 * UNIT), (18 * UNIT, 30 * UNIT), (29 * UNIT, 41 * UNIT)])]
    if only is not None:
        fixed, n = only, 0
    for k in range(n + len(fixed)):
        if k < len(fixed):
            kind, runs = fixed[k]
        else:
            kind = kinds[k % len(kinds)]
            runs = gen_runs(rng, kind, rng.choice([1, 2, 2, 3, 4, 6, 9, 15, 40]))
        ctx.count('grl:' + kind)
        case = {'grl_runs': runs, 'kind': kind, 'scale': SCALE}
        ctx.case(case)
        cruns = zpairs(runs) if runs else '(@nil (Z * Z))'
        # (a) without clipping
        try:
            lt0 = I3Livetime.from_grl_data(grl_array(runs))
            impl0 = ['Ok', [(f2z(float(a)), f2z(float(b))) for a, b in lt0.uptime_mjd_intervals_arr]]
        except Exception as ex:
            impl0 = ['Err', exc_name(ex)]
        model_exprs.append(f'from_grl {cruns}')
        checks.append(('grl_livetime', dict(case, op='from_grl_data without clipping'), impl0))
        # (b) clip, in place
        grl = grl_array(runs)
        snap = grl.copy()
        try:
            ret = clip_grl_start_times(grl_data=grl)
        except Exception as ex:
            ctx.violation('clip_grl_start_times', 'raises', f'{exc_name(ex)}: {ex}', case=case)
            continue
        impl_c = [(f2z(float(a)), f2z(float(b))) for a, b in zip(grl['start'], grl['stop'])]
        model_exprs.append(f'clip_grl {cruns}')
        checks.append(('grl_clip', dict(case, op='clip_grl_start_times'), impl_c))
        for f in ('run', 'stop', 'livetime', 'events'):
            if grl[f].tobytes() != snap[f].tobytes():
                ctx.violation('clip_grl_start_times', 'writes-other-column', f'column {f} changed', case=case,
                              predicate='only the start column is written')
        if ret is not None or len(grl) != len(snap):
            ctx.violation('clip_grl_start_times', 'changes-run-count', f'returned {ret!r}, {len(grl)} rows', case=case)
        want_c = [(s if j == 0 else max(s, runs[j - 1][1]), e) for j, (s, e) in enumerate(runs)]
        if impl_c != want_c:
            ctx.violation('clip_grl_start_times', 'wrong-start', f'clipped rows {impl_c[:6]} expected {want_c[:6]}', case=case,
                          impl=impl_c, predicate='start_i = max(start_i, stop_(i-1)), stops unchanged')
        # (c) the live time of the clipped list
        try:
            lt = I3Livetime.from_grl_data(grl_data=grl)
            impl_l = ['Ok', [(f2z(float(a)), f2z(float(b))) for a, b in lt.uptime_mjd_intervals_arr]]
        except Exception as ex:
            lt = None
            impl_l = ['Err', exc_name(ex)]
        model_exprs.append(f'grl_livetime {cruns}')
        checks.append(('grl_livetime', dict(case, op='clip + from_grl_data'), impl_l))
        ordered = all(s <= e for s, e in runs) and all(runs[j][1] <= runs[j + 1][1] for j in range(len(runs) - 1))
        if (impl_l[0] == 'Ok') != ordered:
            ctx.violation('I3Livetime.from_grl_data', 'accepts-or-rejects-wrongly',
                          f'{kind}: result {impl_l[0]}, runs ordered with non-decreasing stops = {ordered}', case=case,
                          impl=impl_l, predicate='accepted <-> start<=stop for every run and stops non-decreasing')
        if lt is None:
            continue
        if not isinstance(lt, I3Livetime) or lt.uptime_mjd_intervals_arr.dtype != np.float64:
            ctx.violation('I3Livetime.from_grl_data', 'wrong-type', repr(type(lt)), case=case)
        starts_sorted = all(runs[j][0] <= runs[j + 1][0] for j in range(len(runs) - 1))
        if runs and starts_sorted:
            edges = sorted({e for r in runs for e in r})
            q = sorted({e + d for e in edges for d in (-UNIT // 4, 0, UNIT // 4)})[:90]
            got = [bool(b) for b in lt.is_on(np.array([z2f(x) for x in q]))]
            want = [brute_on(runs, x) for x in q]
            model_exprs.append(f'match grl_livetime {cruns} with Ok ivs => map (is_on ivs) {zlist(q)} | Err _ => [] end')
            checks.append(('is_on', dict(case, queries=q, op='is_on after clip + from_grl_data'), got))
            if got != want:
                j = [a != b for a, b in zip(got, want)].index(True)
                ctx.violation('I3Livetime.from_grl_data', 'on-time-differs-from-runs',
                              f't={z2f(q[j])}: is_on={got[j]}, lies in a run={want[j]}', case=dict(case, t=q[j]),
                              impl=got, predicate='on <-> in one of the half-open runs')
            ctx.count('grl:is_on-compared')
        # (c') the same list through a file: from_grl_files = load + the same two statements
        if k % 4 == 0 and runs:
            import tempfile
            with tempfile.TemporaryDirectory(dir=os.path.join(common.VERIF, 'build')) as td:
                fn = os.path.join(td, 'grl.npy')
                np.save(fn, grl)
                for arg in (fn, [fn]):
                    try:
                        ltf = I3Livetime.from_grl_files(arg)
                        impl_f = ['Ok', [(f2z(float(a)), f2z(float(b))) for a, b in ltf.uptime_mjd_intervals_arr]]
                    except Exception as ex:
                        impl_f = ['Err', exc_name(ex)]
                    if impl_f != impl_l:
                        ctx.violation('I3Livetime.from_grl_files', 'differs-from-from_grl_data', f'{impl_f[:2]} vs {impl_l[:2]}',
                                      case=case, impl=impl_f, predicate='from_grl_files(file of grl) = from_grl_data(grl)')
                    ctx.count('grl:from_files')
        # (d) get_integrated_livetime
        il = Livetime.get_integrated_livetime(lt)
        model_exprs.append(f'match grl_livetime {cruns} with Ok ivs => integrated_livetime (inr ivs) | Err _ => -1 end')
        checks.append(('livetime', dict(case, op='get_integrated_livetime(Livetime)'), f2z(float(il))))
        if Livetime.get_integrated_livetime(3.5) != 3.5 or Livetime.get_integrated_livetime(0) != 0:
            ctx.violation('Livetime.get_integrated_livetime', 'number-not-returned', 'a scalar argument must be returned', case=case)
        # (e) the time generation method / generator hand the draw through unchanged
        if il > 0:
            xs = [0.0, 0.25, 0.5, 1 - 2 ** -20]
            a, b = float(lt.time_start), float(lt.time_stop)
            for kw in ({}, {'t_min': a, 't_max': b}, {'t_min': (a + b) / 2}):
                try:
                    ref = ['Ok'] + [float(v) for v in lt.draw_ontimes(StubRSS(xs), len(xs), **kw)]
                except Exception as ex:
                    ref = ['Err', exc_name(ex)]
                for name, obj in (('LivetimeTimeGenerationMethod', LivetimeTimeGenerationMethod(livetime=lt)),
                                  ('TimeGenerator', TimeGenerator(LivetimeTimeGenerationMethod(livetime=lt)))):
                    try:
                        got = ['Ok'] + [float(v) for v in obj.generate_times(rss=StubRSS(xs), size=len(xs), **kw)]
                    except Exception as ex:
                        got = ['Err', exc_name(ex)]
                    if got != ref:
                        ctx.violation(name + '.generate_times', 'differs-from-draw_ontimes', f'{got[:3]} vs {ref[:3]} kwargs={kw}',
                                      case=case, impl=got, predicate='generate_times = Livetime.draw_ontimes with the same arguments')
                    elif got[0] == 'Ok' and any(not brute_on(impl_l[1], f2z(v)) if v * SCALE == int(v * SCALE) else False
                                                 for v in got[1:]):
                        ctx.violation(name + '.generate_times', 'off-time-draw', f'{got}', case=case, impl=got,
                                      predicate='generated time in on-time')
                    ctx.count('grl:generate_times')


def views(ctx, lt, ivs, when, hist):
    """the cheap accessors derived from the interval array; they must describe
    the interval set the object holds NOW (also on a re-used object)"""
    want = {'livetime': sum(u - l for l, u in ivs), 'n': len(ivs),
            'start': ivs[0][0], 'stop': ivs[-1][1]}
    got = {'livetime': f2z(float(lt.livetime)), 'n': int(lt.n_uptime_mjd_intervals),
           'start': f2z(float(lt.time_start)), 'stop': f2z(float(lt.time_stop))}
    tw = lt.time_window
    got_tw = (f2z(float(tw[0])), f2z(float(tw[1])))
    got_arr = [(f2z(a), f2z(b)) for a, b in lt.uptime_mjd_intervals_arr.tolist()]
    if got != want or got_tw != (want['start'], want['stop']) or got_arr != list(ivs):
        ctx.violation('Livetime.livetime/time_window/n_uptime_mjd_intervals', 'stale-or-wrong-view',
                      f'accessors {when} do not describe the current interval set (re-used object: {hist})',
                      case={'ivs': ivs, 'scale': SCALE, 'history': hist}, impl={'got': got, 'tw': got_tw}, model=want,
                      predicate='livetime = sum of interval lengths of the current set; start/stop/n likewise')
    return got['livetime']


def run_case(ctx, Livetime, get_data_subset, DatasetData, DFRA, case, model_exprs, checks, reuse=None):
    """run the implementation on one case, queue the model expressions.
    `reuse`: a Livetime object that already served other interval sets; the
    new set is assigned through the public setter (history: query, assign,
    query) -- no query may remember anything of the earlier set."""
    ivs = case['ivs']
    arr = np.array([[z2f(a), z2f(b)] for a, b in ivs], dtype=np.float64).reshape((len(ivs), 2))
    # memory layout of the (N,2) array is not part of the contract: C-contiguous, Fortran-ordered
    # (np.array([starts, stops]).T) and strided views must all behave alike
    layout = case.get('layout', 'C')
    if layout == 'F':
        arr = np.array([arr[:, 0].copy(), arr[:, 1].copy()], dtype=np.float64).T
    elif layout == 'S':
        big = np.full((len(ivs), 5), -7.0, dtype=np.float64)
        big[:, 1] = arr[:, 0]
        big[:, 3] = arr[:, 1]
        arr = big[:, 1::2]
    ctx.count('layout:' + layout)
    arr_snap = arr.copy()
    if reuse is None:
        lt = Livetime(arr)
        ctx.count('object:fresh')
    else:
        lt = reuse
        lt.uptime_mjd_intervals_arr = arr
        ctx.count('object:reused')
    civs = zpairs(ivs)
    lv = views(ctx, lt, ivs, 'before the queries', reuse is not None)
    model_exprs.append(f'livetime {civs}')
    checks.append(('livetime', {'ivs': ivs, 'scale': SCALE, 'reused': reuse is not None}, lv))
    # is_on / upto on query times
    q = case['queries']
    impl_on = [bool(b) for b in lt.is_on(np.array([z2f(t) for t in q]))]
    model_exprs.append(f'map (is_on {civs}) {zlist(q)}')
    checks.append(('is_on', case, impl_on))
    for t, b in zip(q, impl_on):
        if b != brute_on(ivs, t):
            ctx.violation('Livetime.is_on', 'wrong-membership', f'is_on({z2f(t)}) = {b}',
                          case={'ivs': ivs, 't': t, 'scale': SCALE}, impl=b, predicate='is_on t <-> exists i, l_i <= t < u_i')
    try:
        up = lt.get_livetime_upto(np.array([z2f(t) for t in q]))
        impl_up = ['Ok'] + [f2z(float(x)) for x in up]
        # scalar path
        s = lt.get_livetime_upto(z2f(q[0]))
        if not isinstance(s, float) or f2z(s) != impl_up[1]:
            ctx.violation('Livetime.get_livetime_upto', 'scalar-differs', 'scalar call differs from array call',
                          case={'ivs': ivs, 't': q[0], 'scale': SCALE}, impl=repr(s))
    except Exception as ex:
        impl_up = ['Err', exc_name(ex)]
    model_exprs.append(f'mapM (upto {civs}) {zlist(q)}')
    checks.append(('upto', case, impl_up))
    if impl_up[0] == 'Ok':
        for t, v in zip(q, impl_up[1:]):
            want = sum(max(0, min(u, t) - l) for l, u in ivs)
            if v != want:
                ctx.violation('Livetime.get_livetime_upto', 'wrong-cumulative', f'upto({z2f(t)})',
                              case={'ivs': ivs, 't': t, 'scale': SCALE}, impl=v, model=want,
                              predicate='cumulative on-time before t')
    else:
        ctx.violation('Livetime.get_livetime_upto', 'raises-' + impl_up[1], 'raises for a legal query',
                      case={'ivs': ivs, 'queries': q, 'scale': SCALE}, impl=impl_up)
    # windows
    for kind, t1, t2 in case['windows']:
        ctx.count('window:' + kind)
        try:
            r = lt.get_uptime_intervals_between(as_float_window(t1), as_float_window(t2))
            assert r.ndim == 2 and r.shape[1] == 2 and r.dtype == np.float64, (r.shape, r.dtype)
            impl_b = ['Ok', [(f2z(a), f2z(b)) for a, b in r.tolist()]]
        except Exception as ex:
            impl_b = ['Err', exc_name(ex)]
        model_exprs.append(f'between {civs} {zlit(t1)} {zlit(t2)}')
        checks.append(('between', {'ivs': ivs, 'window': (kind, t1, t2), 'scale': SCALE}, impl_b))
        if impl_b[0] == 'Ok':
            bad = denote_equal(impl_b[1], ivs, t1, t2)
            if bad is not None:
                ctx.violation('Livetime.get_uptime_intervals_between', 'wrong-intersection',
                              f'membership of t={z2f(bad)} differs from on-time ∩ window',
                              case={'ivs': ivs, 'window': (kind, t1, t2), 'scale': SCALE}, impl=impl_b,
                              predicate='result = on-time ∩ [t1,t2)')
            flat = [e for iv in impl_b[1] for e in iv]
            if any(a > b for a, b in zip(flat, flat[1:])):
                ctx.violation('Livetime.get_uptime_intervals_between', 'unsorted-result', 'result not sorted',
                              case={'ivs': ivs, 'window': (kind, t1, t2), 'scale': SCALE}, impl=impl_b)
        else:
            ctx.violation('Livetime.get_uptime_intervals_between', 'raises-' + impl_b[1],
                          f'raises for window kind {kind}',
                          case={'ivs': ivs, 'window': (kind, t1, t2), 'scale': SCALE}, impl=impl_b,
                          predicate='returns the (possibly empty) intersection')
    # draw_ontimes: full range and each window with positive on-time
    draws = case['draws']
    # the un-windowed draw is made first AND again after the windowed ones (history probe: a
    # windowed draw must leave nothing behind that a later un-windowed draw sees)
    # one-sided windows (only t_min / only t_max given; the other bound is None) go through the
    # model's draw_opt; a given bound may be exactly 0
    one_sided = []
    for (k0, a0, b0) in case['windows'][:2]:
        if abs(a0) < 10 ** 15:
            one_sided.append(('tmin-only', a0, None))
        if abs(b0) < 10 ** 15:
            one_sided.append(('tmax-only', None, b0))
    one_sided += [('tmin-only', 0, None), ('tmax-only', None, 0)]
    for (kind, t1, t2) in [(None, None, None)] + case['windows'][:3] + one_sided + [(None, None, None)]:
        opt = kind in ('tmin-only', 'tmax-only')
        o1, o2 = t1, t2
        if opt:
            t1 = ivs[0][0] if o1 is None else o1
            t2 = ivs[-1][1] if o2 is None else o2
            if t1 > t2:
                continue
        if kind is None:
            arrz = ivs
        else:
            arrz = [(max(l, t1), min(u, t2)) for l, u in ivs if t1 < u and l <= t2]
        L = sum(u - l for l, u in arrz)
        if L <= 0:
            continue
        xs = [k / 2 ** 20 for k in draws]
        # exact: w = x * Lfloat, Lfloat = L/SCALE ; w_model = k * L / 2^20
        ws = []
        okx = True
        for k in draws:
            num = k * L
            if num % (2 ** 20) != 0:
                okx = False
                break
            ws.append(num // 2 ** 20)
        if not okx:
            ctx.count('draw_skipped_inexact')
            continue
        try:
            if kind is None:
                o = lt.draw_ontimes(StubRSS(xs), len(xs))
            elif opt:
                o = lt.draw_ontimes(StubRSS(xs), len(xs), t_min=None if o1 is None else z2f(o1),
                                    t_max=None if o2 is None else z2f(o2))
            else:
                o = lt.draw_ontimes(StubRSS(xs), len(xs), t_min=as_float_window(t1), t_max=as_float_window(t2))
            impl_d = ['Ok'] + [f2z(float(v)) for v in o]
        except Exception as ex:
            impl_d = ['Err', exc_name(ex)]
        if opt:
            m1 = 'None' if o1 is None else f'(Some {zlit(o1)})'
            m2 = 'None' if o2 is None else f'(Some {zlit(o2)})'
            model_exprs.append(f'mapM (draw_opt {civs} {m1} {m2}) {zlist(ws)}')
            ctx.count('draw_one_sided')
        else:
            win = 'None' if kind is None else f'(Some ({zlit(t1)}, {zlit(t2)}))'
            model_exprs.append(f'mapM (draw {civs} {win}) {zlist(ws)}')
        checks.append(('draw', {'ivs': ivs, 'window': (kind, t1, t2), 'draws': draws, 'scale': SCALE}, impl_d))
        ctx.count('draw_cases')
        if impl_d[0] == 'Ok':
            for v in impl_d[1:]:
                if not brute_on(ivs, v) or (kind is not None and not (t1 <= v < t2)):
                    ctx.violation('Livetime.draw_ontimes', 'off-time-draw', f'drawn time {z2f(v)} not in on-time ∩ window',
                                  case={'ivs': ivs, 'window': (kind, t1, t2), 'draws': draws, 'scale': SCALE}, impl=impl_d,
                                  predicate='drawn time in on-time inside the window')
        else:
            ctx.violation('Livetime.draw_ontimes', 'raises-' + impl_d[1], 'raises',
                          case={'ivs': ivs, 'window': (kind, t1, t2), 'draws': draws, 'scale': SCALE}, impl=impl_d)
    # get_data_subset
    ev = case['events']
    for kind, t1, t2 in case['windows'][:2]:
        exp = DFRA(np.array([(z2f(t), i) for i, t in enumerate(ev)], dtype=[('time', np.float64), ('id', np.int64)]))
        mc = DFRA(np.array([(z2f(t), i) for i, t in enumerate(reversed(ev))], dtype=[('time', np.float64), ('id', np.int64)]))
        data = DatasetData(data_exp=exp, data_mc=mc, livetime=lt.livetime)
        snap = (exp['time'].copy(), exp['id'].copy(), mc['time'].copy(), mc['id'].copy())
        try:
            (sub, ltsub) = get_data_subset(data, lt, as_float_window(t1), as_float_window(t2))
            kept = [f2z(float(x)) for x in sub.exp['time']]
            kept_ids = [int(x) for x in sub.exp['id']]
            kept_mc = [f2z(float(x)) for x in sub.mc['time']]
            arr2 = [(f2z(a), f2z(b)) for a, b in ltsub.uptime_mjd_intervals_arr.tolist()]
            impl_s = ['Ok', kept, arr2, f2z(float(sub.livetime))]
            want_ids = [i for i, t in enumerate(ev) if t1 <= t < t2]
            if kept_ids != want_ids or kept_mc != [t for t in reversed(ev) if t1 <= t < t2]:
                ctx.violation('get_data_subset', 'wrong-events', 'kept events differ from t_start <= time < t_stop',
                              case={'ivs': ivs, 'events': ev, 'window': (kind, t1, t2), 'scale': SCALE}, impl=impl_s)
            if impl_s[3] != sum(u - l for l, u in arr2) or denote_equal(arr2, ivs, t1, t2) is not None:
                ctx.violation('get_data_subset', 'wrong-livetime', 'live time of the subset differs from on-time in window',
                              case={'ivs': ivs, 'events': ev, 'window': (kind, t1, t2), 'scale': SCALE}, impl=impl_s)
        except Exception as ex:
            impl_s = ['Err', exc_name(ex)]
            ctx.violation('get_data_subset', 'raises-' + impl_s[1], f'raises for window kind {kind}',
                          case={'ivs': ivs, 'events': ev, 'window': (kind, t1, t2), 'scale': SCALE}, impl=impl_s)
        now = (data.exp['time'], data.exp['id'], data.mc['time'], data.mc['id'])
        if not all(np.array_equal(a, b) for a, b in zip(snap, now)):
            ctx.violation('get_data_subset', 'input-data-modified', 'the dataset handed to get_data_subset was modified',
                          case={'ivs': ivs, 'events': ev, 'window': (kind, t1, t2), 'scale': SCALE})
        model_exprs.append(f'subset {civs} {zlist(ev)} {zlit(t1)} {zlit(t2)}')
        checks.append(('subset', {'ivs': ivs, 'events': ev, 'window': (kind, t1, t2), 'scale': SCALE}, impl_s))
    history_probes(ctx, lt, ivs, arr, arr_snap, case, reuse is not None)
    views(ctx, lt, ivs, 'after the queries', reuse is not None)
    return lt


def canon_model(kind, v):
    """bring the parsed Coq value to the implementation's canonical form"""
    if kind == 'is_on':
        return list(v)
    if kind in ('livetime', 'integrity'):
        return v
    if kind == 'grl_clip':
        return [tuple(p) for p in v]
    if kind == 'grl_livetime':
        return ['Ok', [tuple(p) for p in v[1]]] if v[0] == 'Ok' else ['Err', v[1]]
    if isinstance(v, tuple) and v[0] == 'Err':
        return ['Err', v[1]]
    assert isinstance(v, tuple) and v[0] == 'Ok', v
    x = v[1]
    if kind in ('upto', 'draw'):
        return ['Ok'] + list(x)
    if kind == 'between':
        return ['Ok', [tuple(p) for p in x]]
    if kind == 'subset':
        (kept, arr, lt) = x if len(x) == 3 else (x[0][0], x[0][1], x[1])
        return ['Ok', list(kept), [tuple(p) for p in arr], lt]
    raise ValueError(kind)


def gen_case(ctx, rng, n=None):
    n = n or rng.choice([1, 1, 2, 2, 3, 4, 5, 8, 13, 20, 30, 40])
    origin = rng.choice([0, 8, 58000 * 8, -40])
    ivs = gen_intervals(rng, n, origin)
    ctx.count(f'n_intervals:{n}')
    if any(a == b for a, b in ivs):
        ctx.count('has_zero_length')
    if any(ivs[i][1] == ivs[i + 1][0] for i in range(len(ivs) - 1)):
        ctx.count('has_touching')
    edges = sorted({e for iv in ivs for e in iv})
    q = set()
    for e in edges:
        q.update([e, e - UNIT // 2, e + UNIT // 2])
    q = sorted(q)
    if len(q) > 60:
        q = sorted(rng.sample(q, 60))
    windows = gen_windows(rng, ivs, 6)
    # x = k / 2^20 with k a multiple of 2^10, so that x*L is exact in float64 and an integer in the model
    draws = sorted({0, 2 ** 20 - 2 ** 10, 2 ** 19} | {rng.randrange(0, 2 ** 10) * 2 ** 10 for _ in range(6)})
    lo, hi = ivs[0][0], ivs[-1][1]
    events = [rng.choice(edges) + rng.randint(-2, 2) * (UNIT // 2) for _ in range(rng.randint(0, 25))]
    return {'ivs': ivs, 'queries': q, 'windows': windows, 'draws': draws, 'events': events}


def compare(ctx, checks, vals):
    for (kind, case, impl), v in zip(checks, vals):
        ctx.corr_cases += 1
        try:
            m = canon_model(kind, v)
        except Exception as ex:
            m = ['unparsed', repr(v)[:200], str(ex)]
        imp = impl
        if kind == 'between' and imp[0] == 'Ok':
            imp = ['Ok', [tuple(p) for p in imp[1]]]
        if kind == 'subset' and imp[0] == 'Ok':
            imp = ['Ok', list(imp[1]), [tuple(p) for p in imp[2]], imp[3]]
        if m != imp:
            ctx.disagree('livetime.' + kind, case if isinstance(case, dict) else {'case': case}, imp, m)


def corpus_cases():
    """regression corpus: the inputs of the defects fixed in /repo (see known_findings.json `fixed`)"""
    U = UNIT
    ivs = [(10 * U, 20 * U), (30 * U, 50 * U), (50 * U, 60 * U), (80 * U, 80 * U), (90 * U, 100 * U)]
    edges = sorted({e for iv in ivs for e in iv})
    q = sorted({e + d for e in edges for d in (-U // 2, 0, U // 2)})
    return [{
        'ivs': ivs, 'queries': q,
        'windows': [('gap', 22 * U, 28 * U), ('before', 0, 5 * U), ('after', 110 * U, 120 * U),
                    ('inf', -10 ** 15, 10 ** 15), ('span', 15 * U, 95 * U), ('gap', 20 * U, 30 * U),
                    ('zero', 50 * U, 50 * U), ('edges', 80 * U, 85 * U)],
        'draws': [0, 2 ** 19, 2 ** 20 - 2 ** 10], 'events': [e + d for e in edges for d in (-U // 2, 0)]}]


def run(ctx):
    from skyllh.core.livetime import Livetime
    from skyllh.core.dataset import get_data_subset, DatasetData
    from skyllh.core.storage import DataFieldRecordArray as DFRA
    rng = ctx.rng
    n_cases = ctx.budget(60, 1500)
    cases = corpus_cases()
    for n in range(1, 41):               # every interval count 1..40 at least once
        if ctx.thorough() or n in (1, 2, 3, 7, 40):
            cases.append(gen_case(ctx, rng, n))
    while len(cases) < n_cases:
        cases.append(gen_case(ctx, rng))
    model_exprs, checks = [], []
    shared = None            # one object serves every second case (history: query, assign, query, ...)
    for i, c in enumerate(cases):
        c.setdefault('layout', 'CFS'[i % 3] if i else 'F')
        ctx.case(c)
        if i % 2 == 1:
            shared = run_case(ctx, Livetime, get_data_subset, DatasetData, DFRA, c, model_exprs, checks, reuse=shared)
        else:
            run_case(ctx, Livetime, get_data_subset, DatasetData, DFRA, c, model_exprs, checks)
    edge_rounding_probe(ctx, Livetime)
    integrity_stream(ctx, Livetime, rng, model_exprs, checks, ctx.budget(30, 400))
    grl_stream(ctx, rng, model_exprs, checks, ctx.budget(40, 600))
    ctx.sample({'ivs_days': [[z2f(a), z2f(b)] for a, b in cases[-1]['ivs']][:6],
                'windows': [(k, as_float_window(a), as_float_window(b)) for k, a, b in cases[-1]['windows']][:4]})
    if ctx.model_ok:
        try:
            vals = common.coq_eval('c14', IMPORTS, model_exprs)
            compare(ctx, checks, vals)
        except RuntimeError as ex:
            ctx.broken.append({'kind': 'model-eval', 'error': str(ex)[:1500]})
    else:
        ctx.notes.append('model did not build: implementation-only predicates were evaluated')


def replay(ctx, rp):
    from skyllh.core.livetime import Livetime
    from skyllh.core.dataset import get_data_subset, DatasetData
    from skyllh.core.storage import DataFieldRecordArray as DFRA
    c = rp.get('case') or {}
    if c.get('float_ivs'):
        edge_rounding_probe(ctx, Livetime)
        ctx.case(c)
        return
    if c.get('grl_runs') is not None:
        model_exprs, checks = [], []
        grl_stream(ctx, ctx.rng, model_exprs, checks, 0, only=[(c.get('kind', 'replay'), [tuple(p) for p in c['grl_runs']])])
        if ctx.model_ok:
            compare(ctx, checks, common.coq_eval('c14r', IMPORTS, model_exprs))
        return
    ivs = [tuple(p) for p in c.get('ivs', [])]
    if not ivs:
        ctx.notes.append('replay file has no concrete input (broken obligation): re-running the full check')
        return run(ctx)
    edges = sorted({e for iv in ivs for e in iv})
    q = c.get('queries') or ([c['t']] if 't' in c else sorted({e + d for e in edges for d in (-UNIT // 2, 0, UNIT // 2)}))
    w = c.get('window')
    case = {'ivs': ivs, 'layout': c.get('layout', 'F'), 'queries': q, 'windows': [tuple(w)] if w else [('inf', -10 ** 15, 10 ** 15)],
            'draws': c.get('draws') or [0, 2 ** 19], 'events': c.get('events') or []}
    model_exprs, checks = [], []
    ctx.case(case)
    reuse = None
    if c.get('history') or c.get('reused'):
        reuse = run_case(ctx, Livetime, get_data_subset, DatasetData, DFRA, corpus_cases()[0], model_exprs, checks)
    run_case(ctx, Livetime, get_data_subset, DatasetData, DFRA, case, model_exprs, checks, reuse=reuse)
    if ctx.model_ok:
        compare(ctx, checks, common.coq_eval('c14r', IMPORTS, model_exprs))
