"""C01 — the log-likelihood-ratio value equals the documented two-component formula.

Correspondence: the REAL ZeroSigH0SingleDatasetTCLLHRatio / MultiDatasetTCLLHRatio
over real SigOverBkgPDFRatio, PDFRatioProduct, SourceWeightedPDFRatio and
TrialDataManager objects (stub PDFs returning prescribed densities, a stub event
selection returning prescribed (source, event) pairs, a stub source-weight
service returning prescribed a_jk) against the Coq model M_Llh.v / M_LlhPipe.v
extracted to OCaml and run on IEEE doubles (same operations in the same order;
only np.sum's pairwise order and libm's log1p differ, hence a tolerance).

Predicates (failing-input search, on the implementation's results only): an
independent evaluation of the manual's formula with exact rational arithmetic
up to the logarithm; value exactly 0.0 at ns = 0; invariance under a shuffled
event order; removal of zero-ratio events by a selection with N kept; value and
slope continuity across the Taylor threshold."""
import math
import os
import types
import warnings
from fractions import Fraction

import numpy as np

from harness import common
from harness.common import fhex

GEN_MODULES = ['llh', 'llhtdm']
MODEL_TARGETS = ['model/M_Llh.vo', 'model/M_LlhPipe.vo', 'model/M_LlhTdm.vo', 'model/M_LlhX.vo']
PROOF_TARGETS = ['proofs/P_LlhK.vo', 'proofs/P_LlhValue.vo', 'proofs/P_LlhC1.vo', 'proofs/P_LlhCompose.vo',
                 'proofs/P_LlhTdm.vo', 'proofs/P_LlhX.vo']
LEVEL = 'proof'
RULE = ('event sets with N\' in 0..3000 selected of N >= N\' events, 1-3 sources, 1-3 ratio factors; ratios '
        'log-uniform in [1e-6,1e13] plus exact 0 and zero-background events; compositions single / product / '
        'source-weighted, with and without event selection, 1-3 datasets; ns in {0, tiny, interior, '
        '0.9989N..0.9999N (zero-ratio events across the threshold), slightly negative with huge ratios (Taylor '
        'through large R), exactly around each event\'s threshold crossing}; a case is non-trivial when it has '
        '>= 1 selected event and is distinct by (tables, selection, ns) hash')
TRUSTED = [
    'Coq 8.16.1 kernel (no vm_compute/native_compute used by the C01 theorems)',
    'axioms printed by Print Assumptions: ClassicalDedekindReals.sig_not_dec, sig_forall_dec, '
    'functional_extensionality_dep (Coq reals), Classical_Prop.classic (Coquelicot)',
    'translator/py2coq.py: per-element reading of the vectorised numpy formulas (mask subscripts erased, masks '
    'become branch guards); the value kernels of G_llh.v are pinned by the KV_* lemmas of P_LlhK.v',
    'hand model M_Llh.v / M_LlhPipe.v of masks, reductions, index plumbing and call order, validated by this '
    'correspondence on every run',
    'extraction (ExtrOcamlBasic only) and the hand-written OCaml driver/float record ocaml/common/numf.ml, '
    'ocaml/c01/driver.ml',
    'theorems are about the real-number reading; float rounding, np.sum pairwise order and libm log1p are '
    'outside them (measured by the correspondence, tolerance 1e-11*(sum|terms|+1))',
    'the class constant _one_plus_alpha is read at run time and checked to lie in (0,1); stub PDFs / selection / '
    'weight service stand for the parts of skyllh outside this property',
    'stacked ratio: the hypothesis "every (source,event) pair listed once" is discharged for the tables stored by '
    'TrialDataManager.initialize_trial by importing C05\'s development (props/Prop_C01_sel.v); that theorem is '
    're-established only in runs in which C05\'s files build (otherwise a note, counted as not discharged)',
    'the -inf / NaN region (C01_ieee_*) is stated in the special-value number system M_LlhX.v (no rounding, no '
    'signed zeros); its agreement with numpy on ns = N and ns > N is observed by the malformed stream',
    'event counts: the order of the statements of initialize_trial (default N before the selection) is in the '
    'hand model M_LlhTdm.v, validated by the correspondence (n_events=None with a removing selection)',
    'python oracle of the predicates (fractions + math.log1p + math.fsum)',
]

CORR_RTOL = 1e-11
PRED_RTOL = 1e-9


# --------------------------------------------------------------------------- case helpers
#
# case = {
#   'kind': str, 'K': int, 'n_all': int, 'N': int, 'order': [ids in raw array order],
#   'selected': None | [ids], 'pairs': None | [[k, id], ...]      (values-array order)
#   'stacked': bool, 'a_k': [K floats],
#   'factors': [{'z': float, 'S': [[n_all floats] * K], 'B': [n_all floats]}, ...],
#   'ns': [floats], 'malformed': None | str }

def sel_ids(case):
    """ids of the selected events in selected-array order (= raw order)"""
    if case['selected'] is None:
        ids = list(case['order'])
    else:
        s = set(case['selected'])
        ids = [i for i in case['order'] if i in s]
    if case.get('index_field'):
        ids = sorted(ids)                 # initialize_trial sorts the selected events by the index field
    return ids


def sel_ids_unsorted(case):
    if case['selected'] is None:
        return list(case['order'])
    s = set(case['selected'])
    return [i for i in case['order'] if i in s]


def pair_rows(case):
    """(src_idxs, evt_idxs) of the values array, exactly as TrialDataManager holds them"""
    ids = sel_ids(case)
    if case['pairs'] is None:
        n = len(ids)
        K = case['K']
        return ([k for k in range(K) for _ in range(n)], [e for _ in range(K) for e in range(n)])
    pos = {}
    for p, i in enumerate(ids):
        pos.setdefault(i, p)
    return ([k for k, _ in case['pairs']], [pos[i] for _, i in case['pairs']])


def model_line(case, ns, opa):
    ids = sel_ids(case)
    src, evt = pair_rows(case)
    toks = ['pipe', fhex(opa), fhex(float(case['N'])), fhex(ns), '1' if case['stacked'] else '0',
            str(case['K'])] + [fhex(a) for a in case['a_k']]
    toks += [str(len(ids)), str(len(src))] + [str(k) for k in src] + [str(e) for e in evt]
    toks.append(str(len(case['factors'])))
    for f in case['factors']:
        toks.append(fhex(f['z']))
        toks += [fhex(f['S'][k][ids[e]]) for k, e in zip(src, evt)]
        toks += [fhex(f['B'][i]) for i in ids]
    return ' '.join(toks)


def unhex(s):
    if s == 'nan':
        return float('nan')
    if s == 'inf':
        return float('inf')
    if s == '-inf':
        return float('-inf')
    return float.fromhex(s)


# --------------------------------------------------------------------------- oracle (predicates)

def oracle_ratios(case):
    """R_i of every selected event by the documented composition rules, exact rationals"""
    ids = sel_ids(case)
    src, evt = pair_rows(case)

    def row(k, i):
        r = Fraction(1)
        for f in case['factors']:
            b = f['B'][i]
            r *= (Fraction(f['S'][k][i]) / Fraction(b)) if b > 0 else Fraction(f['z'])
        return r
    if not case['stacked']:
        return [row(k, ids[e]) for k, e in zip(src, evt)]
    A = sum(Fraction(a) for a in case['a_k'])
    out = [Fraction(0)] * len(ids)
    for k, e in zip(src, evt):
        if k < len(case['a_k']):
            out[e] += Fraction(case['a_k'][k]) * row(k, ids[e])
    return [x / A for x in out]


def lam(a, alpha):
    """manual eqs. logLambdaiOfalphai / logLambdaiTaylor; a, alpha exact rationals"""
    if a > alpha:
        return math.log1p(float(a))
    t = (a - alpha) / (1 + alpha)
    return math.log1p(float(alpha)) + float(t - t * t / 2)


def dlam(a, alpha):
    if a > alpha:
        return 1.0 / float(1 + a)
    return float((1 - (a - alpha) / (1 + alpha)) / (1 + alpha))


def oracle_value(R, N, ns, opa):
    """(value, sum of |terms|, slope scale) of eq. logLambdaOfXOptimized"""
    alpha = Fraction(opa) - 1
    nsq = Fraction(ns)
    terms = []
    slope = 0.0
    for r in R:
        x = (r - 1) / N
        a = nsq * x
        terms.append(lam(a, alpha))
        slope += abs(dlam(a, alpha) * float(x))
    npure = N - len(R)
    if npure != 0:
        terms.append(npure * math.log1p(float(-nsq / N)))
        slope += abs(npure / float(N - nsq))
    return math.fsum(terms), math.fsum(abs(t) for t in terms), slope


# --------------------------------------------------------------------------- the implementation

class World:
    """the real skyllh objects for one case"""
    _static = None

    @classmethod
    def static(cls):
        if cls._static is None:
            from skyllh.core.config import Config
            from skyllh.core.minimizer import Minimizer, LBFGSMinimizerImpl
            from skyllh.core.pdf import PDF, IsSignalPDF, IsBackgroundPDF
            from skyllh.core.services import SrcDetSigYieldWeightsService
            cfg = Config()

            class SigPDF(PDF, IsSignalPDF):
                def __init__(self, table, **kw):
                    super().__init__(**kw)
                    self.table = np.asarray(table, dtype=np.float64)

                def assert_is_valid_for_trial_data(self, tdm, tl=None, **kw):
                    pass

                def get_pd(self, tdm, params_recarray=None, tl=None):
                    ids = tdm['id']
                    (s, e) = tdm.src_evt_idxs
                    return (self.table[s, ids[e]], dict())

            class BkgPDF(PDF, IsBackgroundPDF):
                def __init__(self, arr, **kw):
                    super().__init__(**kw)
                    self.arr = np.asarray(arr, dtype=np.float64)

                def assert_is_valid_for_trial_data(self, tdm, tl=None, **kw):
                    pass

                def get_pd(self, tdm, params_recarray=None, tl=None):
                    return (self.arr[tdm['id']], dict())

            class StubWeights(SrcDetSigYieldWeightsService):
                """prescribed a_jk; everything else of the service is outside C01"""
                def __init__(self, a_jk, shg_mgr):
                    self._detsigyield_service = types.SimpleNamespace(
                        n_datasets=len(a_jk), shg_mgr=shg_mgr, n_shgs=1)
                    self._a = np.asarray(a_jk, dtype=np.float64)
                    self._a_jk = None
                    self._a_jk_grads = None

                def calculate(self, src_params_recarray):
                    self._a_jk = self._a.copy()
                    self._a_jk_grads = dict()

                def change_shg_mgr(self, shg_mgr):
                    self._detsigyield_service.shg_mgr = shg_mgr

            from skyllh.core.pdfratio import PDFRatio

            class CachingRatio(PDFRatio):
                """a PDFRatio that pre-computes its values once per trial and hands out the cached array
                itself on every call — allowed by the interface (initialize_for_new_trial: 'can be utilized
                to pre-calculate PDFRatio values') and done by SplinedI3EnergySigSetOverBkgPDFRatio"""
                def __init__(self, inner, **kw):
                    super().__init__(sig_param_names=list(inner.sig_param_names),
                                     bkg_param_names=list(inner.bkg_param_names), **kw)
                    self.inner = inner
                    self._cache = None
                    self._state = None
                    self.snapshot = None

                def initialize_for_new_trial(self, tdm, tl=None, **kw):
                    self.inner.initialize_for_new_trial(tdm=tdm, tl=tl, **kw)
                    self._cache = None

                def get_ratio(self, tdm, src_params_recarray, tl=None):
                    key = (id(tdm), tdm.trial_data_state_id)
                    if self._cache is None or self._state != key:
                        self._cache = np.array(self.inner.get_ratio(
                            tdm=tdm, src_params_recarray=src_params_recarray, tl=tl), dtype=np.float64)
                        self._state = key
                        self.snapshot = self._cache.tobytes()
                    return self._cache

                def get_gradient(self, tdm, src_params_recarray, fitparam_id, tl=None):
                    return self.inner.get_gradient(tdm=tdm, src_params_recarray=src_params_recarray,
                                                   fitparam_id=fitparam_id, tl=tl)

                def intact(self):
                    return self._cache is None or self._cache.tobytes() == self.snapshot

            cls._static = types.SimpleNamespace(
                cfg=cfg, minimizer=Minimizer(LBFGSMinimizerImpl(cfg=cfg)),
                SigPDF=SigPDF, BkgPDF=BkgPDF, StubWeights=StubWeights, CachingRatio=CachingRatio, sources={})
        return cls._static

    @classmethod
    def source_world(cls, K):
        st = cls.static()
        if K not in st.sources:
            from skyllh.core.parameters import Parameter, ParameterModelMapper
            from skyllh.core.source_model import PointLikeSource
            from skyllh.core.source_hypo_grouping import SourceHypoGroup, SourceHypoGroupManager
            from skyllh.core.flux_model import NullFluxModel
            from skyllh.core.detsigyield import NullDetSigYieldBuilder
            srcs = [PointLikeSource(ra=0.1 * k, dec=0.1 * k, name=f's{k}', weight=1.0) for k in range(K)]
            shg_mgr = SourceHypoGroupManager(SourceHypoGroup(srcs, NullFluxModel(), NullDetSigYieldBuilder()))
            pmm = ParameterModelMapper(models=srcs)
            pmm.map_param(Parameter('ns', 1.0, -1e9, 1e9))
            st.sources[K] = (shg_mgr, pmm)
        return st.sources[K]

    class Sel:
        def __init__(self, keep, src, evt):
            self.keep = np.asarray(keep, dtype=np.int64)
            self.src = np.asarray(src, dtype=np.int64)
            self.evt = np.asarray(evt, dtype=np.int64)

        def select_events(self, events, tl=None):
            return (events[self.keep], (self.src, self.evt))

    def __init__(self, case, weights=None, dataset_idx=0, caching=None):
        """caching: None | 'outer' (the ratio handed to the llh-ratio object returns its cached array) |
        'inner' (every SigOverBkgPDFRatio is wrapped, below products / source weighting)"""
        from skyllh.core.trialdata import TrialDataManager
        from skyllh.core.llhratio import ZeroSigH0SingleDatasetTCLLHRatio
        st = self.static()
        self.case = case
        self.caching = caching
        self.dataset_idx = dataset_idx
        (self.shg_mgr, self.pmm) = self.make_sources(case)
        self.tdm = self.make_tdm(case)
        self.weights = weights
        self.own_weights = weights is None
        self._init_trial(case)
        self.ratio = self.build_ratio(case)
        self.llh = ZeroSigH0SingleDatasetTCLLHRatio(pmm=self.pmm, minimizer=st.minimizer, shg_mgr=self.shg_mgr,
                                                    tdm=self.tdm, pdfratio=self.ratio, cfg=st.cfg)
        self.llh.initialize_for_new_trial()

    def make_sources(self, case):
        return self.source_world(case['K'])

    def make_tdm(self, case):
        from skyllh.core.trialdata import TrialDataManager
        # an index field makes initialize_trial sort the selected events and re-map the event indices
        return TrialDataManager(index_field_name='id' if case.get('index_field') else None)

    def make_sig_pdf(self, fi, f):
        st = self.static()
        return st.SigPDF(f['S'], cfg=st.cfg)

    def fp(self, ns):
        return np.array([ns], dtype=np.float64)

    def _init_trial(self, case):
        from skyllh.core.storage import DataFieldRecordArray
        self.events = DataFieldRecordArray(np.array([(i,) for i in case['order']], dtype=[('id', np.int64)]))
        self.events_snapshot = np.array(self.events['id']).tobytes()
        sel = None
        if case['selected'] is not None:
            s = set(case['selected'])
            keep = [p for p, i in enumerate(case['order']) if i in s]
            upos = {}
            for p_, i in enumerate(sel_ids_unsorted(case)):
                upos.setdefault(i, p_)
            src = [k for k, _ in case['pairs']]
            evt = [upos[i] for _, i in case['pairs']]
            sel = World.Sel(keep, src, evt)
        # n_events=None makes the TrialDataManager take N from the raw event array
        n_events = None if (case.get('implicit_N') and case['N'] == len(case['order'])) else case['N']
        self.tdm.initialize_trial(self.shg_mgr, self.pmm, self.events, n_events=n_events, evt_sel_method=sel)
        if case.get('index_field'):
            # sorting by the index field may reorder the given array in place (C05 / C07's subject)
            self.events_snapshot = np.array(self.events['id']).tobytes()

    def build_ratio(self, case):
        from skyllh.core.pdfratio import SigOverBkgPDFRatio, SourceWeightedPDFRatio
        st = self.static()
        self.sig_pdfs, self.bkg_pdfs, self.cachers = [], [], []
        ratio = None
        for fi, f in enumerate(case['factors']):
            sp, bp = self.make_sig_pdf(fi, f), st.BkgPDF(f['B'], cfg=st.cfg)
            self.sig_pdfs.append(sp)
            self.bkg_pdfs.append(bp)
            r = SigOverBkgPDFRatio(sp, bp, cfg=st.cfg, zero_bkg_ratio_value=f['z'])
            if self.caching == 'inner':
                r = st.CachingRatio(r, cfg=st.cfg)
                self.cachers.append(r)
            ratio = r if ratio is None else ratio * r      # PDFRatio.__mul__ -> PDFRatioProduct
        if case['stacked']:
            if self.weights is None:
                self.weights = st.StubWeights([case['a_k']], self.shg_mgr)
                self.weights.calculate(None)
            ratio = SourceWeightedPDFRatio(dataset_idx=self.dataset_idx,
                                           src_detsigyield_weights_service=self.weights,
                                           pdfratio=ratio, cfg=st.cfg)
        if self.caching == 'outer':
            ratio = st.CachingRatio(ratio, cfg=st.cfg)
            self.cachers.append(ratio)
        self.tables_snapshot = self.tables_bytes()
        return ratio

    def tables_bytes(self):
        parts = [p.table.tobytes() for p in self.sig_pdfs] + [p.arr.tobytes() for p in self.bkg_pdfs]
        if self.weights is not None:
            parts.append(self.weights._a.tobytes())
        return b'|'.join(parts)

    def inputs_intact(self):
        """stored input data (PDF tables, a_jk, the raw event array) bytewise unchanged"""
        return self.tables_bytes() == self.tables_snapshot and \
            np.array(self.events['id']).tobytes() == self.events_snapshot

    def new_trial(self, case):
        """re-use the TrialDataManager, the PDF-ratio objects and the llh-ratio object for new trial data
        (same sources, same ratio structure and constants; new events, densities, selection, N)"""
        self.case = case
        for f, sp, bp in zip(case['factors'], self.sig_pdfs, self.bkg_pdfs):
            sp.table = np.asarray(f['S'], dtype=np.float64)
            bp.arr = np.asarray(f['B'], dtype=np.float64)
        self.tables_snapshot = self.tables_bytes()
        self._init_trial(case)
        self.llh.initialize_for_new_trial()

    def evaluate(self, fp):
        with np.errstate(all='ignore'), warnings.catch_warnings():
            warnings.simplefilter('ignore')
            return self.llh.evaluate(fp)

    def value(self, ns):
        with np.errstate(all='ignore'), warnings.catch_warnings():
            warnings.simplefilter('ignore')
            (v, g) = self.llh.evaluate(self.fp(ns))
        return float(v)

    def ratios(self):
        with np.errstate(all='ignore'), warnings.catch_warnings():
            warnings.simplefilter('ignore')
            rec = self.pmm.create_src_params_recarray(gflp_values=self.fp(1.0))
            return [float(x) for x in self.ratio.get_ratio(tdm=self.tdm, src_params_recarray=rec)]


def the_opa():
    from skyllh.core.llhratio import ZeroSigH0SingleDatasetTCLLHRatio
    return float(ZeroSigH0SingleDatasetTCLLHRatio._one_plus_alpha)


# --------------------------------------------------------------------------- generators

def loguniform(rng, lo, hi):
    return math.exp(rng.uniform(math.log(lo), math.log(hi)))


def gen_tables(rng, K, n_all, nf, zero_ratio_frac, zero_bkg_frac, huge_frac):
    """nf factors; a fraction of the events has signal density exactly 0 for every source and factor 0
    (ratio exactly 0), a fraction has background density 0 in one factor (-> zero_bkg_ratio_value)"""
    factors = []
    zero_ev = [rng.random() < zero_ratio_frac for _ in range(n_all)]
    for fi in range(nf):
        z = rng.choice([1.0, 1.0, 0.0, 2.5, 1e-3])
        B = []
        for i in range(n_all):
            u_ = rng.random()
            if u_ < zero_bkg_frac:
                B.append(0.0)
            elif u_ < zero_bkg_frac + 0.3:
                B.append(loguniform(rng, 1e-12, 1e-3))       # tiny but positive background densities
            else:
                B.append(loguniform(rng, 1e-3, 1e3))
        S = []
        for k in range(K):
            row = []
            for i in range(n_all):
                if zero_ev[i] and fi == 0:
                    row.append(0.0)
                    continue
                u = rng.random()
                if u < huge_frac:
                    r = loguniform(rng, 1e9, 1e13)
                elif u < huge_frac + 0.15:
                    r = loguniform(rng, 1e-6, 1e-3)
                else:
                    r = loguniform(rng, 1e-3, 1e3)
                if nf > 1:
                    r = r ** (1.0 / nf)
                row.append(r * (B[i] if B[i] > 0 else 1.0))
            S.append(row)
        factors.append({'z': z, 'S': S, 'B': B})
    if zero_bkg_frac > 0 and nf >= 1:
        # an event with zero background must not count as a zero-ratio event unless z = 0
        pass
    return factors, zero_ev


def gen_case(ctx, rng, size=None, kind=None):
    kind = kind or rng.choice(['single', 'single', 'product', 'product', 'stacked', 'stacked', 'stacked-product',
                               'plain-multi-source'])
    stacked = kind.startswith('stacked')
    # 'plain-multi-source': K > 1 without source weighting — evaluate then treats every (source,event) row as
    # an event (N' = number of rows); faithful to the code, compared with the model's non-stacked branch
    K = rng.choice([1, 2, 3]) if stacked else (rng.choice([2, 3]) if kind == 'plain-multi-source' else 1)
    nf = 1 if kind in ('single', 'stacked', 'plain-multi-source') else rng.choice([2, 2, 3])
    if size is None:
        size = rng.choice([0, 1, 1, 2, 3, 5, 8, 13, 30, 60, 120])
        if stacked:
            size = min(size, 60)
    n_all = size
    zero_ratio_frac = rng.choice([0.0, 0.0, 0.2, 0.5])
    zero_bkg_frac = rng.choice([0.0, 0.0, 0.1])
    huge_frac = rng.choice([0.0, 0.1, 0.3])
    factors, zero_ev = gen_tables(rng, K, n_all, nf, zero_ratio_frac, zero_bkg_frac, huge_frac)
    order = list(range(n_all))
    rng.shuffle(order)
    with_sel = rng.random() < 0.55
    selected = pairs = None
    if with_sel:
        frac = rng.choice([1.0, 0.8, 0.5, 0.2, 0.0])
        selected = [i for i in range(n_all) if rng.random() < frac]
        ids = [i for i in order if i in set(selected)]
        if stacked or K > 1:
            pairs = []
            for k in range(K):
                for i in ids:
                    if rng.random() < 0.7:
                        pairs.append([k, i])
        else:
            pairs = [[0, i] for i in ids]
    n_sel = n_all if selected is None else len(selected)
    if K > 1 and not stacked:
        n_sel = K * n_all if pairs is None else max(len(pairs), len(selected))     # rows count as events
    N = n_sel + rng.choice([0, 0, 1, 2, 10, 1000, 100000]) if rng.random() < 0.8 else max(n_all, 1) + rng.randint(0, 5)
    N = max(N, n_sel, 1)
    implicit_N = n_all >= 1 and rng.random() < 0.25 and not (K > 1 and not stacked)
    if implicit_N:
        N = n_all
    a_k = [loguniform(rng, 1e-2, 1e2) for _ in range(K)]
    case = {'kind': kind, 'K': K, 'n_all': n_all, 'N': N, 'order': order, 'selected': selected, 'pairs': pairs,
            'stacked': stacked, 'a_k': a_k, 'factors': factors, 'malformed': None, 'ns': [],
            'implicit_N': implicit_N, 'index_field': rng.random() < 0.2}
    if implicit_N:
        ctx.count('N-taken-from-raw-event-array')
    case['ns'] = gen_ns(rng, case)
    return case


def gen_ns(rng, case):
    N = case['N']
    out = [0.0, 1e-9 * N, rng.uniform(0, 1) * N * 0.9, rng.uniform(0.9989, 0.9999) * N,
           -loguniform(rng, 1e-3, 0.5), rng.uniform(0.5, 0.99) * N]
    if rng.random() < 0.3:
        out.append(rng.choice([1.0, 0.5 * N, float(max(N - 1, 0))]))
    # the property's domain is ns < N; stay a relative 1e-5 below N so that 1 - ns/N is not dominated by rounding
    return [x for x in out if x <= 0.99999 * N]


def malformed_case(ctx, rng):
    """inputs outside the property's domain: model and implementation must still agree
    (nan = nan, inf = inf); the predicates are not evaluated"""
    c = gen_case(ctx, rng, size=rng.choice([1, 3, 8]), kind=rng.choice(['single', 'stacked', 'product']))
    what = rng.choice(['ns=N', 'ns>N', 'inf-ratio', 'negative-bkg', 'duplicate-pair', 'empty'])
    c['malformed'] = what
    N = c['N']
    if what == 'ns=N':
        c['ns'] = [float(N)]
    elif what == 'ns>N':
        c['ns'] = [float(N) * 1.5 + 1.0]
    elif what == 'inf-ratio':
        if c['n_all'] > 0:
            c['factors'][0]['S'][0][0] = float('inf')
        c['ns'] = [0.5 * N]
    elif what == 'negative-bkg':
        if c['n_all'] > 0:
            c['factors'][0]['B'][0] = -1.0
        c['ns'] = [0.25 * N]
    elif what == 'duplicate-pair':
        c['stacked'] = True
        ids = sel_ids(c)
        if ids:
            c['selected'] = list(ids)
            c['pairs'] = [[k, i] for k in range(c['K']) for i in ids] + [[0, ids[0]], [0, ids[-1]]]
        c['ns'] = [0.25 * N]
    else:
        c['selected'] = []
        c['pairs'] = []
        c['ns'] = [0.0, 0.3 * N]
    return c


def permuted(case, rng):
    c = dict(case)
    o = list(case['order'])
    rng.shuffle(o)
    c['order'] = o
    if case['pairs'] is not None:
        p = [list(x) for x in case['pairs']]
        if case['stacked']:
            rng.shuffle(p)                    # the values-array order is immaterial for the stacked ratio
        else:
            pos = {i: n for n, i in enumerate(o)}
            p.sort(key=lambda ki: pos[ki[1]])  # one row per selected event, in selected-array order
        c['pairs'] = p
    return c


def zero_removed(case):
    """the same data with exactly the events of non-zero ratio selected, N kept"""
    R = oracle_ratios_all(case)
    keep = [i for i in case['order'] if R[i] != 0]
    c = dict(case)
    c['selected'] = keep
    ks = set(keep)
    if case['stacked']:
        c['pairs'] = [[k, i] for k in range(case['K']) for i in keep]
    else:
        c['pairs'] = [[0, i] for i in keep]
    return c, len(case['order']) - len(ks)


def oracle_ratios_all(case):
    """ratio of every raw event when all events are selected for all sources"""
    c = dict(case)
    c['selected'] = None
    c['pairs'] = None
    c['order'] = sorted(case['order'])
    return dict(zip(c['order'], oracle_ratios(c)))


# --------------------------------------------------------------------------- one case

def close(a, b, tol):
    if math.isnan(a) or math.isnan(b):
        return math.isnan(a) and math.isnan(b)
    if math.isinf(a) or math.isinf(b):
        return a == b
    return abs(a - b) <= tol


def lean(case):
    """replayable copy of a case (JSON)"""
    return {k: case.get(k) for k in ('kind', 'K', 'n_all', 'N', 'order', 'selected', 'pairs', 'stacked', 'a_k',
                                     'factors', 'ns', 'malformed', 'implicit_N', 'index_field')}


def run_impl(ctx, case, opa, jobs):
    """implementation + predicates for one case; queues the model lines in `jobs`"""
    SITE = 'ZeroSigH0SingleDatasetTCLLHRatio.evaluate'
    w = World(case)
    N = case['N']
    if w.tdm.n_events != N or w.tdm.n_selected_events != len(sel_ids(case)) \
            or w.tdm.n_pure_bkg_events != N - len(sel_ids(case)):
        ctx.violation('TrialDataManager.n_events', 'wrong-event-counts',
                      f'n_events={w.tdm.n_events} n_selected={w.tdm.n_selected_events} '
                      f'n_pure_bkg={w.tdm.n_pure_bkg_events}', case=lean(case),
                      predicate='N, N\', N-N\' are the total, selected and unselected event counts')
    impl_R = w.ratios()
    vals = [w.value(ns) for ns in case['ns']]
    for ns, v in zip(case['ns'], vals):
        jobs.append((case, ns, v, impl_R, model_line(case, ns, opa)))
    if case['malformed']:
        ctx.count('malformed:' + case['malformed'])
        # C01_ieee_at_N / C01_ieee_beyond_N on the implementation: ns = N -> -inf (N' < N) or NaN (N' = N); ns > N -> NaN
        if case['malformed'] in ('ns=N', 'ns>N') and 0 < opa:
            nsel = len(sel_ids(case))
            for ns, v in zip(case['ns'], vals):
                want = 'nan' if (ns > N or nsel == N) else '-inf'
                got = 'nan' if math.isnan(v) else ('-inf' if v == float('-inf') else repr(v))
                if got != want:
                    ctx.violation(SITE, 'special-value-region-differs', f'ns={ns!r}, N={N}, N\'={nsel}: value {got}, expected {want}',
                                  case=dict(lean(case), ns=[ns]), impl=got, model=want,
                                  predicate='ns = N: -inf if N\' < N else NaN; ns > N: NaN')
        return
    ctx.count('kind:' + case['kind'] + ('+selection' if case['selected'] is not None else ''))
    nsel = len(sel_ids(case))
    ctx.count('Nprime:' + ('0' if nsel == 0 else '1-9' if nsel < 10 else '10-99' if nsel < 100 else '100+'))
    if N > nsel:
        ctx.count('N>Nprime')
    # ---- predicate 1: the manual's formula
    R = oracle_ratios(case)
    if any(r == 0 for r in R):
        ctx.count('has-zero-ratio-event')
    if any(b <= 0 for f in case['factors'] for b in (f['B'][i] for i in sel_ids(case))):
        ctx.count('has-zero-background-event')
    for rr, ir in zip(R, impl_R):
        if not close(float(rr), ir, 1e-12 * abs(float(rr)) + 1e-300):
            ctx.violation('PDFRatio.get_ratio', 'ratio-differs-from-composition-rule',
                          f'R_i = {ir!r}, rule gives {float(rr)!r}', case=lean(case), impl=ir, model=float(rr),
                          predicate='R = s/b (constant where b<=0); product = product; stacked = sum_k a_k R_ik / sum_k a_k')
            break
    if len(R) != len(impl_R):
        ctx.violation('PDFRatio.get_ratio', 'ratio-array-length', f'{len(impl_R)} ratios for {len(R)} selected events',
                      case=lean(case), impl=len(impl_R), model=len(R))
    alpha = Fraction(opa) - 1
    for ns, v in zip(case['ns'], vals):
        ov, scale, _ = oracle_value(R, N, ns, opa)
        n_taylor = sum(1 for r in R if not (Fraction(ns) * (r - 1) / N > alpha))
        ctx.count('ns:' + ('zero' if ns == 0 else 'negative' if ns < 0 else 'near-N' if ns > 0.998 * N else 'interior'))
        if n_taylor:
            ctx.count('taylor-regime-cases')
            if ns < 0:
                ctx.count('taylor-through-large-R')
        if not close(v, ov, PRED_RTOL * (scale + 1.0)):
            one = dict(lean(case), ns=[ns])
            ctx.violation(SITE, 'value-differs-from-manual-formula',
                          f'ns={ns!r}: evaluate -> {v!r}, eq. logLambdaOfXOptimized -> {ov!r}', case=one, impl=v,
                          model=ov, predicate='value = sum_i Lam(ns X_i) + (N-N\') log(1-ns/N)')
        if ns == 0 and not (v == 0.0):
            ctx.violation(SITE, 'nonzero-at-ns0', f'value at ns=0 is {v!r}', case=dict(lean(case), ns=[0.0]), impl=v,
                          model=0.0, predicate='value = 0 exactly at ns = 0')
    plain_multi = case['K'] > 1 and not case['stacked']
    # ---- predicate 3: event order
    if nsel >= 2 and not plain_multi:
        pc = permuted(case, ctx.rng)
        wp = World(pc)
        for ns, v in zip(case['ns'][1:4], vals[1:4]):
            vp = wp.value(ns)
            _, scale, _ = oracle_value(R, N, ns, opa)
            ctx.count('order-checks')
            if not close(v, vp, PRED_RTOL * (scale + 1.0)):
                ctx.violation(SITE, 'depends-on-event-order', f'ns={ns!r}: {v!r} vs {vp!r} after shuffling the events',
                              case=dict(lean(case), ns=[ns], permuted_order=pc['order'], permuted_pairs=pc['pairs']),
                              impl=[v, vp], predicate='value invariant under a permutation of the events')
    # ---- predicate 4: zero-ratio events removed by a selection, N kept
    if case['selected'] is None and any(r == 0 for r in R) and 0 < opa < 1 and not plain_multi:
        zc, nrem = zero_removed(case)
        wz = World(zc)
        for frac in (0.3, 0.97 * (1 - opa), -0.01):
            ns = frac * N
            va, vb = w.value(ns), wz.value(ns)
            _, scale, _ = oracle_value(R, N, ns, opa)
            ctx.count('zero-removal-checks')
            if not close(va, vb, PRED_RTOL * (scale + 1.0)):
                ctx.violation(SITE, 'zero-ratio-removal-changes-value',
                              f'ns={ns!r}: all events {va!r}, {nrem} zero-ratio events removed {vb!r}',
                              case=dict(lean(case), ns=[ns]), impl=[va, vb],
                              predicate='ns/N < 1-threshold: removing R=0 events (N kept) leaves the value unchanged')
    # ---- predicate 5: continuity of value and slope across the Taylor threshold
    if 0 < opa < 1 and nsel >= 1:
        cand = [r for r in R if r < opa / 2]
        if cand:
            r = ctx.rng.choice(cand)
            ns0 = float((1 - Fraction(opa)) * N / (1 - r))       # ns * (r-1)/N = opa - 1
            d = 1e-7 * ns0
            pts = [ns0 - 2 * d, ns0 - d, ns0 + d, ns0 + 2 * d]
            if 0 < pts[0] and pts[-1] < 0.99995 * N:
                vs = [w.value(x) for x in pts]
                _, scale, slope = oracle_value(R, N, ns0, opa)
                noise = 64 * 2.3e-16 * (scale + 1.0) * max(1, nsel) ** 0.5
                ctx.count('threshold-continuity-checks')
                jump = abs(vs[2] - vs[1])
                if jump > 3 * slope * 2 * d + 10 * noise:
                    ctx.violation(SITE, 'value-jumps-at-taylor-threshold',
                                  f'value changes by {jump!r} over ns = {pts[1]!r}..{pts[2]!r} (slope scale {slope!r})',
                                  case=dict(lean(case), ns=pts), impl=vs,
                                  predicate='value continuous where 1+ns X_i crosses the threshold')
                s_lo = (vs[1] - vs[0]) / d
                s_hi = (vs[3] - vs[2]) / d
                if abs(s_hi - s_lo) > 0.02 * slope + 20 * noise / d:
                    ctx.violation(SITE, 'slope-jumps-at-taylor-threshold',
                                  f'one-sided slopes {s_lo!r} / {s_hi!r} around ns = {ns0!r}',
                                  case=dict(lean(case), ns=pts), impl=vs,
                                  predicate='slope continuous where 1+ns X_i crosses the threshold')


def float_scale(Rs, N, ns, opa):
    """sum of |terms| of the value, in plain floats (only used to scale the comparison tolerance)"""
    alpha = opa - 1.0
    tot = 0.0
    for r in Rs:
        if not math.isfinite(r):
            continue
        a = ns * (r - 1.0) / N
        if a > alpha:
            tot += abs(math.log1p(a))
        else:
            t = (a - alpha) / opa
            tot += abs(math.log1p(alpha) + t - 0.5 * t * t)
    npure = N - len(Rs)
    if npure and -ns / N > -1.0:
        tot += abs(npure * math.log1p(-ns / N))
    return tot if math.isfinite(tot) else 0.0


def compare_model(ctx, jobs, exe, opa):
    """model (extracted OCaml on doubles) against the implementation"""
    if not jobs:
        return
    out = common.ocaml_run(exe, [j[4] for j in jobs])
    if len(out) != len(jobs):
        ctx.broken.append({'kind': 'model-eval', 'error': f'{len(out)} model results for {len(jobs)} cases'})
        return
    for (case, ns, v, impl_R, _), line in zip(jobs, out):
        ctx.corr_cases += 1
        toks = line.split()
        if not toks or toks[0] == 'ERR':
            ctx.disagree('llhratio.value', dict(lean(case), ns=[ns]), v, line, 'model driver rejected the case')
            continue
        mv = unhex(toks[0])
        nun = int(toks[1])
        mR = [unhex(t) for t in toks[2:]]
        if nun:
            ctx.count('model:cases-with-taylor-events')
        scale = float_scale(mR, case['N'], ns, opa) + (abs(mv) if math.isfinite(mv) else 0.0)
        tol = CORR_RTOL * (scale + 1.0)
        bad = len(mR) != len(impl_R) or any(
            not close(a, b, 1e-13 * max(abs(a), abs(b)) if math.isfinite(a) and math.isfinite(b) else 0.0)
            for a, b in zip(mR, impl_R))
        if bad:
            ctx.disagree('pdfratio.get_ratio', dict(lean(case), ns=[ns]), impl_R[:20], mR[:20],
                         'R_i of the implementation differs from the model')
            continue
        if not close(mv, v, tol):
            ctx.disagree('llhratio.value', dict(lean(case), ns=[ns]), v, mv,
                         f'value of the implementation differs from the model (tol {tol:.3g})')



# --------------------------------------------------------------------------- history probes
#
# "The value is a function of the current inputs only": metamorphic probes on the REAL objects with a
# history (repeated / interleaved calls, two live instances, public mutators, re-used TrialDataManager,
# argument and stored-data snapshots, ownership of returned arrays), each compared with a freshly built
# twin that makes exactly one call.  They need no model.

def variant(case, rng):
    """same events / selection / N / constants, other signal densities"""
    c = dict(case)
    c['factors'] = [{'z': f['z'], 'B': list(f['B']),
                     'S': [[x * rng.choice([0.5, 2.0, 3.0]) for x in row] for row in f['S']]}
                    for f in case['factors']]
    return c


def same_shape_trial(case, rng):
    """new trial data of exactly the same shape (same events ids, selection, N): other densities and other
    zero-background positions — buffers sized by N_values must not carry values over"""
    c = dict(case)
    f2, _ = gen_tables(rng, case['K'], case['n_all'], len(case['factors']), 0.2, 0.35, 0.1)
    for f, g in zip(f2, case['factors']):
        f['z'] = g['z']
    c['factors'] = f2
    return c


def gen_like(ctx, rng, case, size, implicit):
    """another trial for the same analysis: same sources, ratio structure, constants and a_k"""
    c = gen_case(ctx, rng, size=size, kind=case['kind'])
    K, nf = case['K'], len(case['factors'])
    f2, _ = gen_tables(rng, K, c['n_all'], nf, 0.2, 0.1, 0.1)
    for f, g in zip(f2, case['factors']):
        f['z'] = g['z']
    c['factors'], c['K'], c['a_k'] = f2, K, list(case['a_k'])
    if c['pairs'] is not None:
        ids = sel_ids(c)
        c['pairs'] = [[k, i] for k in range(K) for i in ids] if c['stacked'] else [[0, i] for i in ids]
    if implicit and c['n_all'] >= 1:
        c['implicit_N'], c['N'] = True, c['n_all']
    else:
        c['implicit_N'] = False
        c['N'] = max(c['N'], len(sel_ids(c)), 1) + 2
    return c


def history_probes(ctx, rng, opa, cases, n, only_caching=None):
    SITE = 'ZeroSigH0SingleDatasetTCLLHRatio.evaluate'
    pool = [c for c in cases if not c['malformed'] and 1 <= len(sel_ids(c)) <= 200
            and not (c['K'] > 1 and not c['stacked'])]
    for idx, case in enumerate(pool[:n]):
        caching = only_caching if only_caching is not None else ('outer', 'inner', 'none')[idx % 3]
        cach = None if caching == 'none' else caching
        N = case['N']
        ns1, ns2 = 0.37 * N, 0.9993 * N
        ctx.count('history:caching=' + caching)
        try:
            tw = World(case)
            Rf = tw.ratios()
            t1 = World(case).value(ns1)          # fresh twins: one evaluate per object
            t2 = World(case).value(ns2)
            sc1 = float_scale(Rf, N, ns1, opa) + abs(t1)
            sc2 = float_scale(Rf, N, ns2, opa) + abs(t2)

            def eq(a, b, sc):
                return close(a, b, 1e-12 * ((sc if math.isfinite(sc) else 0.0) + 1.0))

            def bad(kind, detail, pred, **extra):
                ctx.violation(SITE, kind, detail, case=dict(lean(case), history=kind, caching=caching, **extra),
                              predicate=pred)

            # ---- repeat / arguments are inputs / returned values are owned by the caller
            w = World(case, caching=cach)
            fp = np.array([ns1], dtype=np.float64)
            fpb = fp.tobytes()
            (v1, g1) = w.evaluate(fp)
            g1 = np.asarray(g1)
            g1b = g1.tobytes()
            (v1r, g1r) = w.evaluate(fp)                     # the SAME ndarray again
            if fp.tobytes() != fpb:
                bad('modifies-fitparam-values-argument', f'fitparam_values {ns1!r} -> {fp.tolist()!r}',
                    'evaluate leaves its ndarray arguments unchanged')
            if not eq(float(v1), t1, sc1) or not eq(float(v1r), t1, sc1):
                bad('repeat-evaluate-differs', f'1st {float(v1)!r}, 2nd {float(v1r)!r}, fresh object {t1!r} at ns={ns1!r}',
                    'two evaluate calls with the same arguments give the value of a fresh object')
            if not all(c.intact() for c in w.cachers):
                bad('modifies-ratio-array-returned-by-pdfratio',
                    'the array handed out by PDFRatio.get_ratio was changed by evaluate',
                    'evaluate does not modify the array owned by the PDFRatio object')
            # ---- interleave: other observables, other ns, then the first point again
            w.llh.calculate_ns_grad2(ns=ns1)
            (v2, g2) = w.evaluate(np.array([ns2], dtype=np.float64))
            w.ratios()
            w.llh.calculate_ns_grad2(ns=ns2)
            (v1c, _) = w.evaluate(np.array([ns1], dtype=np.float64))
            if not eq(float(v2), t2, sc2) or not eq(float(v1c), t1, sc1):
                bad('value-depends-on-earlier-evaluations',
                    f'ns={ns2!r}: {float(v2)!r} (fresh {t2!r}); back at ns={ns1!r}: {float(v1c)!r} (fresh {t1!r})',
                    'the value is a function of the current arguments only')
            if g1.tobytes() != g1b or np.shares_memory(g1, np.asarray(g2)) or np.shares_memory(g1, np.asarray(g1r)):
                bad('returned-gradient-array-reused', 'the gradient array returned by an earlier call was overwritten / is shared',
                    'returned arrays are owned by the caller')
            if not all(c.intact() for c in w.cachers):
                bad('modifies-ratio-array-returned-by-pdfratio',
                    'the array handed out by PDFRatio.get_ratio was changed by evaluate',
                    'evaluate does not modify the array owned by the PDFRatio object')
            if not w.inputs_intact():
                bad('modifies-stored-input-data', 'PDF density tables / a_jk / raw event array changed',
                    'evaluate and initialize_trial leave the stored input data unchanged')
            # ---- public mutators, every observable having been read before
            w.llh.initialize_for_new_trial()
            w.llh.change_shg_mgr(w.shg_mgr)
            va = w.value(ns1)
            if not eq(va, t1, sc1):
                bad('changed-by-reinitialisation', f'{va!r} after initialize_for_new_trial/change_shg_mgr, fresh {t1!r}',
                    're-initialising with unchanged data does not change the value')
            w.tdm.n_events = N + 3
            vn = w.value(ns1)
            tn = World(dict(case, N=N + 3, implicit_N=False)).value(ns1)
            if not eq(vn, tn, sc1 + abs(tn)):
                bad('stale-after-n_events-setter', f'{vn!r} after tdm.n_events = {N + 3}, fresh object {tn!r}',
                    'the value follows TrialDataManager.n_events')
            w.tdm.n_events = N
            cv = variant(case, rng)
            tv1 = World(cv).value(ns1)
            tv2 = World(cv).value(ns2)
            w.llh.pdfratio = w.build_ratio(cv)
            vp = w.value(ns1)
            if not eq(vp, tv1, sc1 + abs(tv1) * 4):
                bad('stale-after-pdfratio-setter', f'{vp!r} after llhratio.pdfratio = <other ratio>, fresh object {tv1!r}',
                    'the value follows the pdfratio property')
            # ---- two instances built before first use, called alternately
            wa, wb = World(case, caching=cach), World(cv, caching=cach)
            seq = [(wa, ns1, t1, sc1), (wb, ns1, tv1, sc1 + 4 * abs(tv1)), (wa, ns2, t2, sc2),
                   (wb, ns2, tv2, sc2 + 4 * abs(tv2)), (wa, ns1, t1, sc1), (wb, ns1, tv1, sc1 + 4 * abs(tv1))]
            for (o, x, t, sc) in seq:
                v = o.value(x)
                if not eq(v, t, sc):
                    bad('value-depends-on-other-instance', f'ns={x!r}: {v!r}, fresh object {t!r}',
                        'two llh-ratio objects alive at once do not influence each other')
                    break
            # ---- the TrialDataManager / PDF ratios / llh-ratio object re-used for further trials
            wt = World(case, caching=cach)
            wt.value(ns1)
            for step, nxt in enumerate([same_shape_trial(case, rng), same_shape_trial(case, rng),
                                        gen_like(ctx, rng, case, rng.choice([1, 3, 8, 20]), idx % 2 == 0),
                                        gen_like(ctx, rng, case, rng.choice([2, 5, 13]), idx % 2 == 1), case]):
                nxt['index_field'] = bool(case.get('index_field'))     # a property of the manager, not of the trial
                wt.new_trial(nxt)
                Nn, nsel = nxt['N'], len(sel_ids(nxt))
                if (wt.tdm.n_events, wt.tdm.n_selected_events, wt.tdm.n_pure_bkg_events) != (Nn, nsel, Nn - nsel):
                    ctx.violation('TrialDataManager.initialize_trial', 'stale-event-counts-after-new-trial',
                                  f'n_events={wt.tdm.n_events} n_selected={wt.tdm.n_selected_events} expected {Nn}, {nsel}',
                                  case=dict(lean(nxt), history='new-trial', caching=caching, first=lean(case)),
                                  predicate='N, N\' are those of the current trial')
                x = 0.41 * Nn
                v = wt.value(x)
                fresh = World(nxt)
                t = fresh.value(x)
                sc = float_scale(fresh.ratios(), Nn, x, opa) + abs(t)
                if not eq(v, t, sc):
                    bad('value-depends-on-earlier-trials', f'trial {step + 2} on a re-used TrialDataManager: {v!r}, fresh {t!r}',
                        'the value is a function of the current trial data only', next_trial=lean(nxt))
                    break
            ctx.count('history-probe-cases')
        except Exception as ex:
            ctx.violation(SITE, 'history-raises-' + type(ex).__name__, f'{type(ex).__name__}: {ex}',
                          case=dict(lean(case), history='raises', caching=caching), impl=type(ex).__name__,
                          predicate='legal call sequences do not raise')



# --------------------------------------------------------------------------- a second fit parameter
#
# ParamWorld: two global fit parameters, 'gamma' mapped BEFORE 'ns' (ns_pidx = 1); a data field 'gf' that
# depends on the global fit parameter gamma and a source data field 'sscale' (1 + dec_k); the signal PDF of the
# first factor multiplies its density by both.  Exercises: `ns = fitparam_values[ns_pidx]`, the
# has_global_fitparam_data_fields branch of evaluate (fields BEFORE the ratio), calculate_source_data_fields at
# construction and through change_shg_mgr.

class ParamWorld(World):
    def __init__(self, case, decs, weights=None, dataset_idx=0, shared=None):
        self.decs = list(decs)
        self.shared = shared              # (shg_mgr, pmm) shared by the datasets of one analysis
        super().__init__(case, weights=weights, dataset_idx=dataset_idx)

    @staticmethod
    def build_sources(decs):
        from skyllh.core.parameters import Parameter, ParameterModelMapper
        from skyllh.core.source_model import PointLikeSource
        from skyllh.core.source_hypo_grouping import SourceHypoGroup, SourceHypoGroupManager
        from skyllh.core.flux_model import NullFluxModel
        from skyllh.core.detsigyield import NullDetSigYieldBuilder
        srcs = [PointLikeSource(ra=0.1 * k, dec=d, name=f's{k}', weight=1.0) for k, d in enumerate(decs)]
        shg_mgr = SourceHypoGroupManager(SourceHypoGroup(srcs, NullFluxModel(), NullDetSigYieldBuilder()))
        pmm = ParameterModelMapper(models=srcs)
        pmm.map_param(Parameter('gamma', 2.0, 0.5, 4.0))        # first: ns is NOT at index 0
        pmm.map_param(Parameter('ns', 1.0, -1e9, 1e9))
        return (shg_mgr, pmm)

    @staticmethod
    def other_shg_mgr(decs):
        from skyllh.core.source_model import PointLikeSource
        from skyllh.core.source_hypo_grouping import SourceHypoGroup, SourceHypoGroupManager
        from skyllh.core.flux_model import NullFluxModel
        from skyllh.core.detsigyield import NullDetSigYieldBuilder
        srcs = [PointLikeSource(ra=0.1 * k, dec=d, name=f's{k}', weight=1.0) for k, d in enumerate(decs)]
        return SourceHypoGroupManager(SourceHypoGroup(srcs, NullFluxModel(), NullDetSigYieldBuilder()))

    def make_sources(self, case):
        return self.shared if self.shared is not None else self.build_sources(self.decs)

    def make_tdm(self, case):
        from skyllh.core.trialdata import TrialDataManager
        tdm = TrialDataManager()
        tdm.add_source_data_field(
            'sscale', lambda tdm, shg_mgr, pmm: np.array([1.0 + s.dec for s in shg_mgr.source_list], dtype=np.float64))
        tdm.add_data_field(
            'gf', lambda tdm, shg_mgr, pmm, global_fitparams_dict=None:
            np.full((tdm.n_selected_events,), global_fitparams_dict['gamma'], dtype=np.float64),
            global_fitparam_names=['gamma'])
        return tdm

    def make_sig_pdf(self, fi, f):
        st = self.static()
        if fi != 0:
            return st.SigPDF(f['S'], cfg=st.cfg)
        if not hasattr(st, 'SigPDFgf'):
            class SigPDFgf(st.SigPDF):
                def get_pd(self, tdm, params_recarray=None, tl=None):
                    ids = tdm['id']
                    (s, e) = tdm.src_evt_idxs
                    return ((self.table[s, ids[e]] * tdm['gf'][e]) * tdm['sscale'][s], dict())
            st.SigPDFgf = SigPDFgf
        return st.SigPDFgf(f['S'], cfg=st.cfg)

    gamma = 2.0

    def fp(self, ns):
        return np.array([self.gamma, ns], dtype=np.float64)


def effective_case(case, gamma, decs):
    """the same case with the first factor's signal densities as the ParamWorld PDF returns them
    ((table * gamma) * (1 + dec_k), same float operations)"""
    c = dict(case)
    f0 = case['factors'][0]
    S = [[float((np.float64(x) * np.float64(gamma)) * np.float64(1.0 + decs[k])) for x in row]
         for k, row in enumerate(f0['S'])]
    c['factors'] = [{'z': f0['z'], 'S': S, 'B': f0['B']}] + list(case['factors'][1:])
    return c


def run_param_world(ctx, rng, opa, n, jobs):
    """predicates on the implementation (oracle on the effective case) + model comparison through `jobs`"""
    SITE = 'ZeroSigH0SingleDatasetTCLLHRatio.evaluate'
    from skyllh.core.llhratio import MultiDatasetTCLLHRatio
    from skyllh.core.services import DatasetSignalWeightFactorsService
    st = World.static()
    for it in range(n):
        kind = ('single', 'product', 'stacked', 'stacked-product')[it % 4]
        case = gen_case(ctx, rng, size=(1, 4, 9, 25)[(it // 4) % 4], kind=kind)
        case['index_field'] = False
        case['implicit_N'] = False
        K = case['K']
        decs = [round(rng.uniform(-0.5, 0.5), 3) for _ in range(K)]
        decs2 = [round(rng.uniform(-0.5, 0.5), 3) + 0.25 for _ in range(K)]
        N = case['N']
        ns1, ns2 = 0.31 * N, 0.9991 * N
        g1, g2 = 1.25, 3.5
        ctx.count('param-world:' + kind)
        try:
            w = ParamWorld(case, decs)
            if w.pmm.get_gflp_idx('ns') != 1:
                ctx.notes.append('ParamWorld: ns is not at index 1')
            seq = [(g1, ns1), (g2, ns1), (g2, ns2), (g1, ns2), (g1, ns1)]
            for (g, x) in seq:
                w.gamma = g
                v = w.value(x)
                ec = effective_case(case, g, decs)
                R = oracle_ratios(ec)
                ov, scale, _ = oracle_value(R, N, x, opa)
                if not close(v, ov, PRED_RTOL * (scale + 1.0)):
                    ctx.violation(SITE, 'value-differs-with-second-fit-parameter',
                                  f'fitparam_values=[gamma={g!r}, ns={x!r}] (ns at index 1, densities depend on gamma '
                                  f'through a global-fit-parameter data field): evaluate -> {v!r}, formula -> {ov!r}',
                                  case=dict(lean(case), param_world={'decs': decs, 'gamma': g, 'seq': seq}, ns=[x]),
                                  impl=v, model=ov,
                                  predicate='value = formula at the CURRENT parameter point; ns read at its own index')
                    break
                jobs.append((ec, x, v, [float(r) for r in R], model_line(ec, x, opa)))
            # ---- change_shg_mgr on the multi-dataset function must reach every dataset's function
            a_jk = [list(case['a_k']), [a * 1.5 for a in case['a_k']]]
            shared = ParamWorld.build_sources(decs)
            weights = st.StubWeights(a_jk, shared[0])
            weights.calculate(None)
            c2 = variant(case, rng)
            c2['a_k'] = a_jk[1]
            c1 = dict(case, a_k=a_jk[0])
            ws = [ParamWorld(c, decs, weights=weights, dataset_idx=j, shared=shared) for j, c in enumerate((c1, c2))]
            dsw = DatasetSignalWeightFactorsService(weights)
            m = MultiDatasetTCLLHRatio(pmm=shared[1], minimizer=st.minimizer, src_detsigyield_weights_service=weights,
                                       ds_sig_weight_factors_service=dsw, llhratio_list=[w_.llh for w_ in ws], cfg=st.cfg)
            m.initialize_for_new_trial()

            def multi_check(dd, tag):
                with np.errstate(all='ignore'), warnings.catch_warnings():
                    warnings.simplefilter('ignore')
                    (v, _) = m.evaluate(np.array([g1, ns1], dtype=np.float64))
                (f, _) = dsw.get_weights()
                tot, sc = [], 0.0
                for c, fj in zip((c1, c2), f):
                    ec = effective_case(c, g1, dd)
                    o, s_, _ = oracle_value(oracle_ratios(ec), c['N'], float(np.float64(ns1) * np.float64(fj)), opa)
                    tot.append(o)
                    sc += s_
                ov = math.fsum(tot)
                if not close(float(v), ov, PRED_RTOL * (sc + 1.0)):
                    ctx.violation('MultiDatasetTCLLHRatio.' + tag, 'value-differs-from-sum-of-dataset-formulas',
                                  f'{tag}: evaluate -> {float(v)!r}, sum_j formula -> {ov!r}',
                                  case={'multi': [lean(c1), lean(c2)], 'param_world': {'decs': dd, 'gamma': g1}, 'ns': [ns1]},
                                  impl=float(v), model=ov,
                                  predicate='after change_shg_mgr every dataset uses the new source hypotheses')
            multi_check(decs, 'evaluate')
            shg2 = ParamWorld.other_shg_mgr(decs2)
            weights._detsigyield_service.shg_mgr = shg2          # what the real service's detsigyield service would hold
            m.change_shg_mgr(shg2)
            for w_ in ws:
                if w_.llh.shg_mgr is not shg2:
                    ctx.violation('MultiDatasetTCLLHRatio.change_shg_mgr', 'dataset-llhratio-keeps-old-shg-mgr',
                                  'a per-dataset llh-ratio function still holds the previous SourceHypoGroupManager',
                                  case={'multi': [lean(c1), lean(c2)], 'param_world': {'decs': decs2}},
                                  predicate='change_shg_mgr is forwarded to every dataset')
                    break
            multi_check(decs2, 'change_shg_mgr')
            # ---- the public `events` setter changes N' and N - N', not N
            ev = w.tdm.events
            n0, k0 = w.tdm.n_events, w.tdm.n_selected_events
            if k0 >= 2:
                w.tdm.events = ev[np.arange(k0 - 1)]
                if (w.tdm.n_events, w.tdm.n_selected_events, w.tdm.n_pure_bkg_events) != (n0, k0 - 1, n0 - k0 + 1):
                    ctx.violation('TrialDataManager.events', 'wrong-event-counts-after-events-setter',
                                  f'n_events={w.tdm.n_events} n_selected={w.tdm.n_selected_events} '
                                  f'n_pure_bkg={w.tdm.n_pure_bkg_events}, expected {n0}, {k0 - 1}, {n0 - k0 + 1}',
                                  case=lean(case), predicate='events setter: N unchanged, N\' = len(events), N-N\' follows')
        except Exception as ex:
            ctx.violation(SITE, 'param-world-raises-' + type(ex).__name__, f'{type(ex).__name__}: {ex}',
                          case=dict(lean(case), param_world={'decs': decs}), impl=type(ex).__name__,
                          predicate='evaluate works with a second fit parameter and fit-parameter dependent data fields')


# --------------------------------------------------------------------------- multi-dataset

def run_multi(ctx, rng, exe, opa, n):
    from skyllh.core.llhratio import MultiDatasetTCLLHRatio
    from skyllh.core.services import DatasetSignalWeightFactorsService
    st = World.static()
    SITE = 'MultiDatasetTCLLHRatio.evaluate'
    plan = []
    for _ in range(n):
        J = rng.choice([1, 2, 2, 3])
        K = rng.choice([1, 2, 3])
        a_jk = [[loguniform(rng, 1e-2, 1e2) for _ in range(K)] for _ in range(J)]
        cases = []
        for j in range(J):
            c = gen_case(ctx, rng, size=rng.choice([0, 1, 3, 8, 20]), kind=rng.choice(['stacked', 'stacked-product']))
            # same sources for all datasets of one analysis
            if c['K'] != K:
                f2, _ = gen_tables(rng, K, c['n_all'], len(c['factors']), 0.2, 0.0, 0.1)
                c['factors'] = f2
                c['K'] = K
                if c['pairs'] is not None:
                    c['pairs'] = [[k, i] for k in range(K) for i in sel_ids(c)]
            c['a_k'] = list(a_jk[j])
            cases.append(c)
        Nmin = min(c['N'] for c in cases)
        ns_list = (0.0, rng.uniform(0, 0.9) * Nmin, -loguniform(rng, 1e-3, 0.3))
        try:
            (shg_mgr, pmm) = World.source_world(K)
            weights = st.StubWeights(a_jk, shg_mgr)
            weights.calculate(None)
            worlds = [World(c, weights=weights, dataset_idx=j) for j, c in enumerate(cases)]
            dsw = DatasetSignalWeightFactorsService(weights)
            m = MultiDatasetTCLLHRatio(pmm=pmm, minimizer=st.minimizer, src_detsigyield_weights_service=weights,
                                       ds_sig_weight_factors_service=dsw, llhratio_list=[w.llh for w in worlds],
                                       cfg=st.cfg)
            m.initialize_for_new_trial()
            for ns in ns_list:
                with np.errstate(all='ignore'), warnings.catch_warnings():
                    warnings.simplefilter('ignore')
                    (v, _) = m.evaluate(np.array([ns], dtype=np.float64))
                (f, _) = dsw.get_weights()
                plan.append((cases, [float(x) for x in f], ns, float(v)))
                ctx.count(f'multi:J={J}')
            # history: the SAME ndarray handed to consecutive calls, other observables in between
            nsx = ns_list[1]
            vfirst = plan[-2][3]
            rep = {'multi': [lean(c) for c in cases], 'ns': [nsx], 'history': 'multi'}
            fp = np.array([nsx], dtype=np.float64)
            fpb = fp.tobytes()
            with np.errstate(all='ignore'), warnings.catch_warnings():
                warnings.simplefilter('ignore')
                (va, _) = m.evaluate(fp)
                (vb, _) = m.evaluate(fp)
                changed = fp.tobytes() != fpb
                worlds[0].evaluate(np.array([0.3 * cases[0]['N']], dtype=np.float64))
                m.calculate_ns_grad2(ns=nsx, ns_pidx=0,
                                     src_params_recarray=pmm.create_src_params_recarray(gflp_values=np.array([nsx])))
                m.evaluate(np.array([0.5 * nsx], dtype=np.float64))
                (vc, _) = m.evaluate(np.array([nsx], dtype=np.float64))
            if changed:
                ctx.violation(SITE, 'modifies-fitparam-values-argument', f'fitparam_values {nsx!r} -> {fp.tolist()!r}',
                              case=rep, predicate='evaluate leaves its ndarray arguments unchanged')
            tolh = 1e-12 * (abs(vfirst) + 1.0) if math.isfinite(vfirst) else 0.0
            if not (close(float(va), vfirst, tolh) and close(float(vb), vfirst, tolh) and close(float(vc), vfirst, tolh)):
                ctx.violation(SITE, 'value-depends-on-earlier-evaluations',
                              f'ns={nsx!r}: first {vfirst!r}, repeated {float(va)!r}, {float(vb)!r}, after other calls {float(vc)!r}',
                              case=rep, predicate='the value is a function of the current arguments only')
            if not all(w.inputs_intact() for w in worlds):
                ctx.violation(SITE, 'modifies-stored-input-data', 'PDF density tables / a_jk / raw event array changed',
                              case=rep, predicate='evaluate leaves the stored input data unchanged')
            ctx.count('history:multi')
        except Exception as ex:           # the implementation raised on a legal input
            ctx.violation(SITE, 'raises-' + type(ex).__name__, f'{type(ex).__name__}: {ex}',
                          case={'multi': [lean(c) for c in cases], 'ns': list(ns_list)}, impl=type(ex).__name__,
                          predicate='evaluate returns the value for every legal input')
    # model pass 1: R_j of every dataset; pass 2: the multi-dataset value
    model_vals = [None] * len(plan)
    if exe:
        lines = [model_line(c, 0.0, opa) for (cases, f, ns, v) in plan for c in cases]
        out = common.ocaml_run(exe, lines) if lines else []
        it = iter(out)
        lines2 = []
        for (cases, f, ns, v) in plan:
            toks = ['multi', fhex(opa), fhex(ns), str(len(cases))] + [fhex(x) for x in f]
            for c in cases:
                r = next(it).split()[2:]
                toks += [fhex(float(c['N'])), str(len(r))] + r
            lines2.append(' '.join(toks))
        out2 = common.ocaml_run(exe, lines2) if lines2 else []
        model_vals = [unhex(line.split()[0]) for line in out2]
    for (cases, f, ns, v), mv in zip(plan, model_vals):
        ctx.case({'multi': [lean(c) for c in cases], 'ns': ns})
        rep = {'multi': [lean(c) for c in cases], 'f': f, 'ns': ns}
        # predicate: sum of the single-dataset formulas at ns * f_j (f_j as provided by the weights service)
        tot, scale = [], 0.0
        for c, fj in zip(cases, f):
            ov, sc, _ = oracle_value(oracle_ratios(c), c['N'], float(np.float64(ns) * np.float64(fj)), opa)
            tot.append(ov)
            scale += sc
        ov = math.fsum(tot)
        if mv is not None:
            ctx.corr_cases += 1
            if not close(v, mv, CORR_RTOL * (scale + 1.0)):
                ctx.disagree('llhratio.multi_value', rep, v, mv)
        if not close(v, ov, PRED_RTOL * (scale + 1.0)):
            ctx.violation(SITE, 'value-differs-from-sum-of-dataset-formulas',
                          f'ns={ns!r}: evaluate -> {v!r}, sum_j formula(ns f_j) -> {ov!r}', case=rep, impl=v, model=ov,
                          predicate='value = sum_j [sum_i Lam(ns f_j X_ji) + (N_j-N_j\') log(1 - ns f_j/N_j)]')
        if ns == 0 and not (v == 0.0):
            ctx.violation(SITE, 'nonzero-at-ns0', f'value at ns=0 is {v!r}', case=rep, impl=v, model=0.0,
                          predicate='value = 0 exactly at ns = 0')



# --------------------------------------------------------------------------- the theorem resting on C05

SEL_PROP = 'props/Prop_C01_sel.v'


def check_selection_theorem(ctx):
    """C01_selection_to_value imports C05's development (read-only).  It is re-established on every run in
    which that development builds; a failure located in C05's own files is C05's business (its check reports
    it): then the theorem is counted as not discharged and a note is written, but C01 raises no alarm."""
    import re
    nb = len(ctx.broken)
    ob, di = ctx.obligations, ctx.discharged
    ax = list(getattr(ctx, 'axioms', []))
    tr = ctx.translator
    try:
        src = open(os.path.join(common.COQ, SEL_PROP)).read()
        n_sel = len(re.findall(r'^\s*(Theorem|Example|Corollary|Lemma)\s', src, flags=re.M))
    except OSError:
        n_sel = 0
    ok = common.coq_make(ctx, ['proofs/P_LlhSelect.vo'], modules=['select'])
    if ok:
        ok = common.check_props(ctx, SEL_PROP)
    if tr and ctx.translator and ctx.translator is not tr:
        merged = dict(ctx.translator)
        merged['kernels'] = dict(tr.get('kernels', {}), **ctx.translator.get('kernels', {}))
        merged['errors'] = list(tr.get('errors', [])) + list(ctx.translator.get('errors', []))
        ctx.translator = merged
    ctx.obligations = ob + n_sel
    ctx.discharged = di + (n_sel if ok else 0)
    ctx.axioms = sorted(set(ax) | set(getattr(ctx, 'axioms', [])))
    if ok:
        ctx.count('selection-theorem-reestablished')
        return
    new = ctx.broken[nb:]

    def foreign(b):
        if b.get('kind') == 'translator':
            return b.get('module') == 'select'
        txt = (b.get('file') or '') + ' ' + (b.get('error') or '')
        mine = ('P_LlhSelect' in (b.get('file') or '')) or ('Prop_C01_sel' in (b.get('file') or ''))
        return (not mine) and ('Select' in txt or 'G_select' in txt)
    if new and all(foreign(b) for b in new):
        del ctx.broken[nb:]
        ctx.notes.append('C01_selection_to_value NOT re-established in this run: C05\'s development '
                         '(event_selection kernels / M_Select / P_Select) does not build: '
                         + '; '.join(str(b.get('kernel') or b.get('lemma') or b.get('file') or b.get('target')) for b in new)[:600])
        ctx.count('selection-theorem-not-reestablished')

# --------------------------------------------------------------------------- corpus / run / replay

def corpus_cases(opa=1e-3):
    """fixed regression inputs: every regime the property names, by hand"""
    B = [1.0, 2.0, 4.0, 0.0, 8.0, 1.0]
    S = [[2.0, 0.0, 4e12, 7.0, 8e-6, 1.0]]
    base = {'kind': 'single', 'K': 1, 'n_all': 6, 'N': 10, 'order': [0, 1, 2, 3, 4, 5], 'selected': None,
            'pairs': None, 'stacked': False, 'a_k': [1.0], 'factors': [{'z': 1.0, 'S': S, 'B': B}],
            'malformed': None, 'ns': [0.0, 1e-8, 3.0, 9.989, 9.9901, 9.995, 9.999, -0.25, -1e-3]}
    sel = dict(base, selected=[0, 2, 3, 4, 5], pairs=[[0, 0], [0, 2], [0, 3], [0, 4], [0, 5]], kind='single')
    st = {'kind': 'stacked-product', 'K': 2, 'n_all': 4, 'N': 7, 'order': [3, 1, 0, 2], 'selected': [0, 1, 3],
          'pairs': [[0, 3], [0, 1], [1, 1], [1, 0]], 'stacked': True, 'a_k': [1.0, 3.0],
          'factors': [{'z': 1.5, 'S': [[1.0, 2.0, 3.0, 4.0], [5.0, 6.0, 7.0, 8.0]], 'B': [1.0, 2.0, 0.0, 4.0]},
                      {'z': 1.0, 'S': [[0.5, 1.0, 1.5, 2.0], [2.5, 3.0, 3.5, 4.0]], 'B': [2.0, 3.0, 1.0, 5.0]}],
          'malformed': None, 'ns': [0.0, 2.5, 6.99, -0.1]}
    # background densities of every magnitude down to 1e-12 (all positive: none may be treated as zero)
    Bs = [1e-12, 1e-9, 1e-7, 1e-5, 1e-4, 5e-4]
    Rr = [2.0, 0.5, 30.0, 1e-3, 7.0, 1.0]
    small = dict(base, factors=[{'z': 1.0, 'S': [[r * b for r, b in zip(Rr, Bs)]], 'B': Bs}],
                 ns=[0.0, 3.0, 9.99, -0.2])
    # more selected events than any chunk / buffer size one would pick (N' = 5000)
    nbig = 5000
    big = {'kind': 'single', 'K': 1, 'n_all': nbig, 'N': nbig + 1000, 'order': list(range(nbig)), 'selected': None,
           'pairs': None, 'stacked': False, 'a_k': [1.0],
           'factors': [{'z': 1.0, 'S': [[0.25 + (i % 7) * 0.3 + (i // 4096) * 5.0 for i in range(nbig)]],
                        'B': [1.0 + (i % 3) for i in range(nbig)]}],
           'malformed': None, 'ns': [0.0, 2500.0, 5994.0]}
    # one event exactly AT the threshold: X = -1, ns = 1 - threshold  =>  ns X = threshold - 1 bit for bit
    thr = {'kind': 'single', 'K': 1, 'n_all': 2, 'N': 2, 'order': [0, 1], 'selected': [0], 'pairs': [[0, 0]],
           'stacked': False, 'a_k': [1.0], 'factors': [{'z': 1.0, 'S': [[0.0, 3.0]], 'B': [1.0, 1.0]}],
           'malformed': None, 'ns': [2.0 * (1.0 - opa)]}
    return [base, sel, st, small, big, thr]


def run(ctx):
    rng = ctx.rng
    opa = the_opa()
    if not (0 < opa < 1):
        ctx.violation('ZeroSigH0SingleDatasetTCLLHRatio._one_plus_alpha', 'threshold-out-of-range',
                      f'_one_plus_alpha = {opa!r} is not in (0,1)', case={'one_plus_alpha': opa},
                      predicate='0 < threshold < 1 (needed for value 0 at ns = 0 and for log(1+alpha))')
    check_selection_theorem(ctx)
    exe = common.ocaml_build(ctx, 'c01') if ctx.model_ok else None
    cases = corpus_cases(opa)
    n_cases = ctx.budget(600, 30000)
    # explicit quotas: every N' bucket incl. large, every composition kind
    for size in ([300, 3000] if not ctx.thorough() else [300, 1000, 3000, 3000]):
        cases.append(gen_case(ctx, rng, size=size, kind='single'))
        cases.append(gen_case(ctx, rng, size=min(size, 1000), kind='product'))
    for kind in ('single', 'product', 'stacked', 'stacked-product'):
        for size in (0, 1, 2, 7):
            cases.append(gen_case(ctx, rng, size=size, kind=kind))
    while len(cases) < n_cases:
        cases.append(gen_case(ctx, rng))
    for _ in range(ctx.budget(60, 1200)):
        cases.append(malformed_case(ctx, rng))
    jobs = []
    for c in cases:
        ctx.case({k: c[k] for k in ('order', 'selected', 'pairs', 'a_k', 'N', 'ns', 'factors')},
                 nontrivial=len(sel_ids(c)) >= 1)
        try:
            run_impl(ctx, c, opa, jobs)
        except Exception as ex:          # the implementation raised on a legal input
            if c['malformed']:
                ctx.count('malformed-raises:' + type(ex).__name__)
                continue
            ctx.violation('ZeroSigH0SingleDatasetTCLLHRatio.evaluate', 'raises-' + type(ex).__name__,
                          f'{type(ex).__name__}: {ex}', case=lean(c), impl=type(ex).__name__,
                          predicate='evaluate returns the value for every legal input')
    c = cases[len(corpus_cases()) + 5]
    ctx.sample({'kind': c['kind'], 'K': c['K'], 'N': c['N'], 'n_selected': len(sel_ids(c)), 'ns': c['ns'][:4],
                'a_k': c['a_k']})
    ctx.sample({'corpus_base_ns': corpus_cases()[0]['ns'], 'threshold': opa})
    history_probes(ctx, rng, opa, cases[:3] + cases[-600:], ctx.budget(45, 600))
    run_param_world(ctx, rng, opa, ctx.budget(16, 200), jobs)
    try:
        if exe:
            compare_model(ctx, jobs, exe, opa)
        else:
            ctx.notes.append('model did not build: implementation-only predicates were evaluated')
        run_multi(ctx, rng, exe, opa, ctx.budget(40, 1200))
    except RuntimeError as ex:
        ctx.broken.append({'kind': 'model-eval', 'error': str(ex)[:1500]})


def replay(ctx, rp):
    c = rp.get('case') or {}
    if 'factors' not in c and 'multi' not in c:
        ctx.notes.append('replay file has no concrete input (broken obligation): re-running the full check')
        return run(ctx)
    opa = the_opa()
    exe = common.ocaml_build(ctx, 'c01') if ctx.model_ok else None
    if 'multi' in c:
        ctx.notes.append('multi-dataset replay: re-running the multi-dataset stream with the recorded seed')
        return run_multi(ctx, ctx.rng, exe, opa, 25)
    case = {k: c.get(k) for k in ('kind', 'K', 'n_all', 'N', 'order', 'selected', 'pairs', 'stacked', 'a_k',
                                  'factors', 'ns', 'malformed', 'implicit_N', 'index_field')}
    jobs = []
    ctx.case(case)
    run_impl(ctx, case, opa, jobs)
    if c.get('history'):
        history_probes(ctx, ctx.rng, opa, [case], 1, only_caching=c.get('caching'))
    if exe:
        compare_model(ctx, jobs, exe, opa)
