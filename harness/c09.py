"""C09 — parallel map: all results in input order, or a loud failure.

Correspondence: the REAL skyllh.core.multiproc.parallelize with real worker
processes (fork), driven through task arguments (delays, log records, raising /
exiting tasks) and through the guarded fault-injection hook
(ICECUBE_SKYLLH_VERIF_PLAN: raise / exit / exit-after-result), every call in its
own process group under a watchdog.  The observed outcome class
(list / which exception / hang) is compared with M_Parallel.parallelize
evaluated by vm_compute on schedules built from the same plan: the observed
arrival order of the result records and random fair interleavings.
Predicates (failing-input search, independent of the model): no fault -> exactly
[g(x) for x in args]; any triggered fault -> an exception, never a hang, never a
list; equal seed and ncpu -> identical lists, equal to a sequential re-run of the
chunks with the per-process RandomStateService seeds.

`python harness/c09.py --runner <watchdog-seconds>` is the per-case process
runner (reads one JSON case per line, prints one JSON observation per line)."""
import json
import os
import select
import signal
import subprocess
import sys
import time

if __name__ != '__main__':
    from harness import common
    from harness.common import zlist

GEN_MODULES = ['parallel']
MODEL_TARGETS = ['model/M_Parallel.vo', 'model/M_ParallelNcpu.vo']
PROOF_TARGETS = ['proofs/P_Parallel.vo', 'proofs/P_ParallelLoud.vo', 'proofs/P_ParallelTop.vo',
                 'proofs/P_ParallelPerm.vo', 'proofs/P_ParallelFair.vo', 'proofs/P_ParallelNcpu.vo']
LEVEL = 'proof'
RULE = ('real-process runs of parallelize: ncpu 1..8 x 0..20 tasks x fast/slow assignments of the processes '
        '(incl. late end markers, log records), single faults (worker, task index, kind in raise / exit code / '
        'signal / exit-after-result, through the hook and through the task function) for small sizes in two '
        'timing contexts, master task raising, double faults, malformed ncpu, rss determinism; a case is '
        'non-trivial when it has >= 1 task and is distinct by its plan hash')
TRUSTED = [
    'Coq 8.16.1 kernel incl. vm_compute (no native_compute)',
    'theorems closed under the global context (no axioms)',
    'translator/py2coq.py: loop tests / exit-code tests / index expressions of parallelize (kernels of G_parallel.v)',
    'hand model M_Parallel.v: worker protocol (log records, result record, end marker, exit code) and the master '
    'gather loop as atomic steps over the shared state; validated by this correspondence on outcome classes',
    'modelled, not verified: the operating system, multiprocessing.Queue (FIFO, get(block=False) sees what was '
    'flushed before the producer ended), feeder threads, pickling, Process.exitcode, real time; '
    'fairness assumption of C09_loud: every child process eventually ends',
    'numpy.array_split contract (checked here against numpy for n 0..40, k 1..10)',
    'RandomStateService abstract in C09_deterministic (St, draw, mk); the numpy generator itself is not modelled',
    'the fault-injection hook 4168e32 in worker_wrapper (guarded by ICECUBE_SKYLLH_VERIF=1)',
    'statement-order facts (5 `order:` kernels: reads of shared state in the poll / drain loops, task loop before '
    'rqueue.put in worker_wrapper, non-blocking status queue) and call counts (`ncalls:`) are read from the AST by the '
    'translator and pinned by K_ lemmas; check_structure repeats 7 syntactic checks in the harness (fail-closed)',
]

IMPORTS = ('From Coq Require Import ZArith List Bool. Import ListNotations.\n'
           'From Sky Require Import Result M_Parallel.\nOpen Scope Z_scope.\n')
SITE = 'multiproc.parallelize'
SLOW = 0.07
BULK = 1500      # log records of a bulk task (~1 MB pickled, pipe capacity 64 kB); not mirrored in the model


# ----------------------------------------------------------------------------
# the per-case process runner (executed in a separate interpreter)

class TaskError(Exception):
    pass


def _task(i, spec, rss=None):
    import logging
    d = spec.get('delay')
    if d:
        time.sleep(d)
    if spec.get('kill_children'):     # stands for the OOM killer: the master's task kills the worker processes
        import multiprocessing as mp
        for c in mp.active_children():
            os.kill(c.pid, signal.SIGKILL)
        time.sleep(0.1)
    f = spec.get('fault')
    if f == 'raise':
        raise TaskError(f'planned exception of task {i}')
    if f and f.startswith('raise:'):
        import builtins
        raise getattr(builtins, f[6:])(f'planned {f[6:]} of task {i}')
    if f and f.startswith('sysexit:'):
        sys.exit(int(f[8:]))
    if f == 'kill':
        os.kill(os.getpid(), signal.SIGKILL)
        time.sleep(60)
    if f and f.startswith('exit:'):
        os._exit(int(f[5:]))
    for k in range(spec.get('nlog', 0)):
        logging.getLogger('skyllh.verif.c09').info('task %d record %d', i, k)
    if rss is not None:
        return (i, int(rss.random.randint(0, 2 ** 31)), float(rss.random.uniform()))
    if spec.get('pad'):
        return (i * i + 1, 'x' * spec['pad'])      # a result record far larger than the pipe
    return i * i + 1


def _task_b(i, spec, rss=None):
    """a second task function (other values for the same arguments)"""
    v = _task(i, spec, rss=rss)
    if rss is not None:
        return ('b',) + tuple(v)
    return 3 * i + 7


def _run_call(call, recs, state):
    """one call of parallelize / Analysis.do_trials in this process"""
    import copy
    from skyllh.core.multiproc import parallelize
    if call.get('pause'):
        time.sleep(call['pause'])
    del recs[:]
    os.environ['ICECUBE_SKYLLH_VERIF_PLAN'] = json.dumps(call.get('plan') or [])
    n = call['ntasks']
    specs = call.get('specs') or {}
    key = json.dumps([n, specs], sort_keys=True)
    if call.get('reuse_args') and key in state['args']:
        args_list = state['args'][key]          # the SAME list object as in an earlier call
    else:
        args_list = [((i, specs.get(str(i), {})), {}) for i in range(n)]
        state['args'][key] = args_list
    snap = copy.deepcopy(args_list)
    rss = None
    if call.get('seed') is not None:
        from skyllh.core.random import RandomStateService
        rss = RandomStateService(seed=call['seed'])
    func = _task_b if call.get('func') == 'b' else _task
    from skyllh.core import session
    if call.get('interactive'):      # progress bar + status queue path
        session.enable_interactive_session()
    else:
        session.disable_interactive_session()
    t0 = time.time()
    try:
        if call.get('trials'):
            import numpy as np
            from skyllh.core.analysis import Analysis

            class FakeAnalysis:
                _cfg = None

                def do_trial(self, rss, **kw):
                    return np.array([(int(rss.random.randint(0, 2 ** 31)), float(rss.random.uniform()))],
                                    dtype=[('v', np.int64), ('u', np.float64)])
            rec = Analysis.do_trials(FakeAnalysis(), rss, n, ncpu=call['ncpu'])
            r = [[int(a), float(b)] for a, b in zip(rec['v'], rec['u'])]
        else:
            r = parallelize(func, args_list, call['ncpu'], rss=rss)
        state['kept'].append((r, json.dumps(r)))     # returned values are owned by the caller
        if any(sp.get('pad') for sp in specs.values()):
            # (value, padding) results: report the value and whether the padding arrived intact
            r = [(x[0] if (isinstance(x, tuple) and len(x) == 2 and x[1] == 'x' * specs.get(str(j), {}).get('pad', -1))
                  else ('damaged', j)) if specs.get(str(j), {}).get('pad') else x for j, x in enumerate(r)]
        out = {'kind': 'result', 'value': r}
    except BaseException as ex:  # noqa
        out = {'kind': 'exc', 'type': type(ex).__name__, 'msg': str(ex)[:300]}
    out['wall'] = round(time.time() - t0, 4)
    # arguments are inputs: the list, its tuples and dicts are unchanged (with rss the documented injection of
    # the `rss` keyword into the kwargs dicts is set aside and reported separately)
    injected = False
    if len(args_list) == len(snap):
        for (_, kw) in args_list:
            if rss is not None and 'rss' in kw:
                injected = True
                del kw['rss']
    out['args_unchanged'] = bool(args_list == snap)
    out['rss_injected'] = injected
    order = []
    nrec = 0
    for name, msg in recs:
        if name == 'skyllh.core.multiproc' and msg.startswith('Beginning of worker process (pid='):
            order.append(int(msg.split('pid=')[1].split(')')[0]))
        if name == 'skyllh.verif.c09':
            nrec += 1
    out['order'] = order
    out['nrec'] = nrec
    return out


def _child(case, wfd):
    import logging
    os.setsid()
    try:
        dn = os.open(os.devnull, os.O_WRONLY)
        os.dup2(dn, 2)
    except OSError:
        pass
    os.environ['ICECUBE_SKYLLH_VERIF'] = '1'
    recs = []

    class H(logging.Handler):
        def emit(self, r):
            try:
                recs.append((r.name, r.getMessage()))
            except Exception:
                recs.append((r.name, '?'))
    lg = logging.getLogger('skyllh')
    lg.setLevel(logging.DEBUG)
    lg.addHandler(H())
    state = {'args': {}, 'kept': []}
    calls = case['seq'] if 'seq' in case else [case]
    try:
        for ci, call in enumerate(calls):
            out = _run_call(call, recs, state)
            if ci == len(calls) - 1:
                # results of earlier calls must not have been changed by later calls
                out['kept_changed'] = [k for k, (r, js) in enumerate(state['kept']) if json.dumps(r) != js]
                ids = [id(r) for r, _ in state['kept']]
                out['kept_aliased'] = len(set(ids)) != len(ids)
            os.write(wfd, (json.dumps(out) + '\n').encode())
    finally:
        os._exit(0)


def runner_main(watchdog):
    import skyllh.core.multiproc  # noqa: F401  (pay the import once)
    import skyllh.core.random  # noqa: F401
    for line in sys.stdin:
        line = line.strip()
        if not line:
            continue
        case = json.loads(line)
        if case.get('trials') or any(c.get('trials') for c in case.get('seq', [])):
            import skyllh.core.analysis  # noqa: F401  (import before the fork, once)
        r, w = os.pipe()
        pid = os.fork()
        if pid == 0:
            os.close(r)
            try:
                _child(case, w)
            finally:
                os._exit(3)
        os.close(w)
        wd = case.get('watchdog') or watchdog
        deadline = time.time() + wd
        data = b''
        hang = False
        need = len(case['seq']) if 'seq' in case else 1
        while data.count(b'\n') < need:
            rem = deadline - time.time()
            if rem <= 0:
                hang = True
                break
            rl, _, _ = select.select([r], [], [], rem)
            if not rl:
                hang = True
                break
            chunk = os.read(r, 1 << 16)
            if not chunk:
                break
            data += chunk
        for target in (pid,):
            try:
                os.killpg(target, signal.SIGKILL)
            except (ProcessLookupError, PermissionError):
                try:
                    os.kill(target, signal.SIGKILL)
                except ProcessLookupError:
                    pass
        try:
            os.waitpid(pid, 0)
        except ChildProcessError:
            pass
        os.close(r)
        lines = data.split(b'\n')[:-1]
        if 'seq' in case:
            outs = [json.loads(l) for l in lines[:need]]
            if len(outs) < need:
                outs.append({'kind': 'hang', 'watchdog': wd} if hang else {'kind': 'crash'})
            out = {'kind': 'seq', 'calls': outs}
        elif hang:
            out = {'kind': 'hang', 'watchdog': wd}
        elif not lines:
            out = {'kind': 'crash'}
        else:
            out = json.loads(lines[0])
        sys.stdout.write(json.dumps(out) + '\n')
        sys.stdout.flush()


if __name__ == '__main__':
    if len(sys.argv) >= 3 and sys.argv[1] == '--runner':
        runner_main(float(sys.argv[2]))
        sys.exit(0)
    sys.exit('usage: c09.py --runner <watchdog seconds>')


# ----------------------------------------------------------------------------
# running batches of cases

def run_impl(cases, watchdog, nproc=6):
    """observations for `cases` (same order), through `nproc` runner processes"""
    if not cases:
        return []
    nproc = max(1, min(nproc, len(cases)))
    batches = [cases[i::nproc] for i in range(nproc)]
    env = dict(os.environ)
    env['PYTHONPATH'] = common.REPO
    env['ICECUBE_SKYLLH_VERIF'] = '1'
    procs = []
    for b in batches:
        p = subprocess.Popen([common.PY, os.path.abspath(__file__), '--runner', str(watchdog)],
                             stdin=subprocess.PIPE, stdout=subprocess.PIPE, stderr=subprocess.DEVNULL,
                             text=True, env=env, cwd=common.VERIF)
        procs.append(p)
    import concurrent.futures

    def feed(pb):
        p, b = pb
        budget = 120 + len(b) * (watchdog + 2)
        try:
            out, _ = p.communicate('\n'.join(json.dumps(c) for c in b) + '\n', timeout=budget)
        except subprocess.TimeoutExpired:
            p.kill()
            out, _ = p.communicate()
        lines = [l for l in out.splitlines() if l.strip()]
        obs = []
        for i in range(len(b)):
            if i < len(lines):
                try:
                    obs.append(json.loads(lines[i]))
                    continue
                except ValueError:
                    pass
            obs.append({'kind': 'runner-failed'})
        return obs
    with concurrent.futures.ThreadPoolExecutor(max_workers=nproc) as ex:
        res = list(ex.map(feed, zip(procs, batches)))
    out = [None] * len(cases)
    for bi, obs in enumerate(res):
        for j, o in enumerate(obs):
            out[bi + j * nproc] = o
    return out


# ----------------------------------------------------------------------------
# cases

def split_sizes(n, k):
    """numpy.array_split chunk sizes, from numpy itself"""
    import numpy as np
    return [len(c) for c in np.array_split(np.arange(n), k)]


def offsets(sizes):
    o, out = 0, []
    for s in sizes:
        out.append(o)
        o += s
    return out


def mk_case(ncpu, ntasks, kind, slow=(), late=(), nlog=0, faults=(), seed=None, trials=False, bulk=(),
            interactive=False, pad=(), padsize=300000):
    """slow: pids sleeping at their first task; late: worker pids sleeping between result and end marker;
    faults: dicts {pid, task (local index | None), kind: raise|exit|kill|after, code, channel: hook|func}"""
    case = {'ncpu': ncpu, 'ntasks': ntasks, 'kind': kind, 'slow': sorted(slow), 'late': sorted(late),
            'nlog': nlog, 'faults': [dict(f) for f in faults], 'seed': seed, 'trials': bool(trials),
            'bulk': sorted(bulk), 'interactive': bool(interactive), 'pad': sorted(pad)}
    specs, plan = {}, []
    if trials:       # Analysis.do_trials builds the argument list itself: delays only through the hook
        case['slow'] = sorted(p for p in slow if p > 0)
        case['specs'] = {}
        case['plan'] = [{'pid': p, 'task': 0, 'action': f'sleep:{SLOW}'} for p in case['slow']]
        return case
    if ncpu >= 1 and ntasks > 0:
        sizes = split_sizes(ntasks, ncpu)
        offs = offsets(sizes)
        for i in range(ntasks):
            if nlog:
                specs.setdefault(str(i), {})['nlog'] = nlog
        for p in bulk:     # a worker whose first task emits far more log records than its queue's pipe holds
            if 0 < p < ncpu and sizes[p] > 0:
                specs.setdefault(str(offs[p]), {})['nlog'] = BULK
        for p in pad:      # every task of these processes returns a value with `padsize` bytes of padding
            if p < ncpu:
                for t in range(sizes[p]):
                    specs.setdefault(str(offs[p] + t), {})['pad'] = padsize
        for p in slow:
            if p < ncpu and sizes[p] > 0:
                specs.setdefault(str(offs[p]), {})['delay'] = SLOW
            elif 0 < p < ncpu:
                plan.append({'pid': p, 'task': None, 'action': f'sleep:{SLOW}'})
        for p in late:
            if 0 < p < ncpu:
                plan.append({'pid': p, 'task': None, 'action': f'sleep:{SLOW}'})
        for f in case['faults']:
            p, t = f['pid'], f.get('task')
            f['triggers'] = bool(p < ncpu and (f['kind'] in ('after', 'midput') or (t is not None and t < sizes[p])))
            if f['kind'] == 'midput':
                # OPEN FINDING probe: worker p returns a record larger than the pipe; while the master is still busy
                # with its own (slow) task the record sits half-written in the pipe and the worker is killed
                specs.setdefault('0', {}).update({'delay': 0.4, 'kill_children': True})
                for t2 in range(sizes[p]):
                    specs.setdefault(str(offs[p] + t2), {})['pad'] = padsize
                case['watchdog'] = 6
            elif f['kind'] == 'after':
                plan.append({'pid': p, 'task': None, 'action': f"exit-after-result:{f.get('code', 1)}"})
            elif f['channel'] == 'hook':
                act = {'raise': 'raise', 'exit': f"exit:{f.get('code', 1)}"}[f['kind']]
                plan.append({'pid': p, 'task': t, 'action': act})
            elif f['triggers']:
                act = {'raise': 'raise', 'exit': f"exit:{f.get('code', 1)}", 'kill': 'kill',
                       'raisex': f"raise:{f.get('exc', 'MemoryError')}", 'sysexit': f"sysexit:{f.get('code', 0)}"}[f['kind']]
                specs.setdefault(str(offs[p] + t), {})['fault'] = act
    case['specs'] = specs
    case['plan'] = plan
    return case


def expected_list(case):
    if case.get('func') == 'b':
        return [3 * i + 7 for i in range(case['ntasks'])]
    return [i * i + 1 for i in range(case['ntasks'])]


def vkind(case, kind):
    """violation kind; calls that are part of a call sequence in one process get their own signatures"""
    return ('sequence:' + kind) if case.get('_seq') else kind


def triggered(case):
    return [f for f in case['faults'] if f.get('triggers')]


def observe_class(case, obs):
    """canonical observed outcome"""
    k = obs.get('kind')
    if k == 'result':
        v = obs['value']
        return ['Done', v]
    if k == 'hang':
        return ['Hang']
    if k == 'exc':
        t, msg = obs['type'], obs['msg']
        if t in ('TaskError', 'MemoryError', 'KeyError', 'SystemExit'):
            return ['Fail', 'TaskRaised']
        if t == 'RuntimeError' and 'did not return with 0' in msg:
            return ['Fail', 'ChildDied']
        if t == 'RuntimeError' and 'All child processes have ended' in msg:
            return ['Fail', 'MissingResult']
        if t == 'RuntimeError' and 'ended without completing its log records' in msg:
            return ['Fail', 'LogIncomplete']
        if t == 'ValueError' and 'startval' in msg:
            return ['Fail', 'EmptyArgs']
        if t == 'ValueError' and 'sections' in msg:
            return ['Fail', 'BadNcpu']
        return ['Fail', f'{t}: {msg[:80]}']
    return ['Broken', k]


# ---- model schedules

def worker_actions(case, p, sizes, offs):
    nl = case['nlog']
    fl = [f for f in triggered(case) if f['pid'] == p]
    acts = []
    if fl and fl[0]['kind'] == 'midput':
        return [f'Worker {p}%nat APutBegin', f'Worker {p}%nat (ADie (-9))']
    if fl and fl[0]['kind'] != 'after':
        f = fl[0]
        acts += [f'Worker {p}%nat (APutLog {p * 1000 + j})' for j in range(nl * f['task'])]
        if f['kind'] in ('raise', 'raisex'):
            acts.append(f'Worker {p}%nat ARaise')      # the exception ends worker_wrapper: exit code 1
            return acts
        code = {'kill': -9, 'sysexit': f.get('code', 0)}.get(f['kind'], f.get('code', 1))
        acts.append(f'Worker {p}%nat (ADie ({code}))')
        return acts
    acts += [f'Worker {p}%nat (APutLog {p * 1000 + j})' for j in range(nl * sizes[p])]
    acts.append(f'Worker {p}%nat APutResult')
    if fl:
        acts.append(f"Worker {p}%nat (ADie ({fl[0].get('code', 1)}))")
    else:
        acts += [f'Worker {p}%nat APutEnd', f'Worker {p}%nat AExit0']
    return acts


def model_exprs_for(case, order, rng, nvariants):
    """Gallina terms: parallelize on the schedule with the observed arrival
    order, and on random fair interleavings of the same worker programs"""
    n, k = case['ntasks'], case['ncpu']
    raising = []
    if k >= 1 and n > 0:
        sizes = split_sizes(n, k)
        offs = offsets(sizes)
        for f in triggered(case):
            if f['kind'] in ('raise', 'raisex'):
                raising.append(offs[f['pid']] + f['task'])
    body = '3 * x + 7' if case.get('func') == 'b' else 'x * x + 1'
    fn = f'(fun x => if existsb (Z.eqb x) {zlist(raising)} then Err RuntimeError else Ok ({body}))'
    args = zlist(range(n))
    head = f'parallelize {fn} {args} ({k})'
    if k <= 1 or n == 0:
        return [f'{head} []']
    progs = {p: worker_actions(case, p, sizes, offs) for p in range(1, k)}
    tail_n = 8 * (2 * (k - 1) + case['nlog'] * n) + 40
    tail = f'repeat Master {tail_n}%nat'
    rest = [p for p in range(1, k) if p not in order]
    rest.sort(key=lambda p: (p in case['slow'] or p in case['late'], p))
    seq = []
    for p in list(order) + rest:
        seq += progs[p]
    exprs = [f"{head} ([{'; '.join(seq)}] ++ {tail})"]
    for _ in range(nvariants):
        pos = {p: 0 for p in progs}
        live = [p for p in progs if progs[p]]
        seq = []
        while live:
            if rng.random() < 0.35:
                seq.append('Master')
                continue
            p = rng.choice(live)
            seq.append(progs[p][pos[p]])
            pos[p] += 1
            if pos[p] == len(progs[p]):
                live.remove(p)
        exprs.append(f"{head} ([{'; '.join(seq)}] ++ {tail})")
    return exprs


def canon_model(v):
    if v == 'None':
        return ['Hang']
    assert isinstance(v, tuple) and v[0] == 'Some', v
    o = v[1]
    if isinstance(o, tuple) and o[0] == 'Done':
        return ['Done', list(o[1])]
    if isinstance(o, tuple) and o[0] == 'Fail':
        return ['Fail', o[1]]
    raise ValueError(repr(v)[:100])


# ---- predicates (independent of the model)

PUBKEYS = ('ncpu', 'ntasks', 'kind', 'slow', 'late', 'nlog', 'faults', 'seed', 'trials', 'bulk', 'interactive', 'pad', 'watchdog', 'func', 'pause',
           'reuse_args', '_seq', 'plan', 'specs')


def pubcase(case):
    return {k: case[k] for k in PUBKEYS if k in case}


def predicates(ctx, case, obs, oc):
    pub = pubcase(case)
    if oc[0] == 'Broken':
        ctx.broken.append({'kind': 'harness', 'error': f'runner gave no observation: {obs}'})
        return
    if oc[0] == 'Hang':
        hk = 'hang'
        if any(f['kind'] == 'midput' for f in triggered(case)) and not case.get('_seq'):
            hk = 'hang-worker-killed-while-sending-result'
        ctx.violation(SITE, vkind(case, hk) if hk == 'hang' else hk, f"no return and no exception within {obs.get('watchdog')} s",
                      case=pub, impl=oc, predicate='the call ends (list or exception) within bounded time')
        return
    # history probes (need no model): the arguments are inputs, returned lists are owned by the caller
    if obs.get('args_unchanged') is False:
        ctx.violation(SITE, vkind(case, 'args-list-modified'), 'args_list or one of its elements was changed by the call',
                      case=pub, impl=oc, predicate='args_list and its (args, kwargs) elements are unchanged after the call')
    if obs.get('kept_changed'):
        ctx.violation(SITE, vkind(case, 'result-modified-by-later-call'),
                      f"the list returned by call(s) {obs['kept_changed']} of the sequence changed during a later call",
                      case=pub, impl=oc, predicate='a returned list is owned by the caller')
    if obs.get('kept_aliased'):
        ctx.violation(SITE, vkind(case, 'result-object-shared-between-calls'), 'two calls returned the same list object',
                      case=pub, impl=oc, predicate='a returned list is owned by the caller')
    if obs.get('rss_injected'):
        ctx.count('rss-keyword-injected-into-caller-kwargs')
    n, k = case['ntasks'], case['ncpu']
    tf = triggered(case)
    if case['seed'] is not None:
        return   # judged by the rss predicate
    if k < 1:
        if n == 0:
            return   # the empty argument list returns [] before ncpu is looked at (fix ac3e25b)
        if oc[0] != 'Fail':
            ctx.violation(SITE, vkind(case, 'bad-ncpu-accepted'), 'ncpu < 1 did not raise', case=pub, impl=oc)
        return
    if not tf:
        if oc[0] == 'Done':
            if oc[1] != expected_list(case):
                ctx.violation(SITE, vkind(case, 'partial-or-wrong-result'),
                              'returned list differs from [g(x) for x in args]',
                              case=pub, impl=oc, model=expected_list(case),
                              predicate='one result per input, in input order')
        elif n == 0:
            ctx.violation(SITE, vkind(case, 'empty-args-raise'),
                          'raises for an empty argument list instead of returning []',
                          case=pub, impl=oc, predicate='one result per input (zero inputs -> [])')
        else:
            ctx.violation(SITE, vkind(case, 'error-without-fault'), 'raised although no task raised and no process died',
                          case=pub, impl=oc, predicate='one result per input, in input order')
    else:
        if oc[0] == 'Done':
            kind = 'partial-or-wrong-result' if oc[1] != expected_list(case) else 'returns-despite-fault'
            ctx.violation(SITE, vkind(case, kind), 'returned a list although a task raised / a process died',
                          case=pub, impl=oc, predicate='a fault ends the call with an error')


def rss_oracle(case):
    """sequential re-run of the chunks with the per-process RandomStateService"""
    from skyllh.core.random import RandomStateService
    n, k = case['ntasks'], case['ncpu']
    rss = RandomStateService(seed=case['seed'])

    def one(i, r):
        if case.get('trials'):
            return [int(r.random.randint(0, 2 ** 31)), float(r.random.uniform())]
        if case.get('func') == 'b':
            return list(_task_b(i, {}, rss=r))
        return list(_task(i, {}, rss=r))
    if k == 1:
        return [one(i, rss) for i in range(n)]
    lst = [rss] + [RandomStateService(seed=rss.random.randint(0, 2 ** 32)) for _ in range(1, k)]
    sizes = split_sizes(n, k)
    out, i = [], 0
    for p, s in enumerate(sizes):
        for _ in range(s):
            out.append(one(i, lst[p]))
            i += 1
    return out


# ----------------------------------------------------------------------------

def gen_cases(ctx):
    rng = ctx.rng
    th = ctx.thorough()
    cases = []
    # corpus: the schedules of the repaired defect 4581a4c
    cases.append(mk_case(3, 6, 'corpus-a', slow=[1], faults=[{'pid': 1, 'task': 1, 'kind': 'raise', 'channel': 'func'}]))
    cases.append(mk_case(3, 6, 'corpus-a', slow=[1], faults=[{'pid': 1, 'task': 0, 'kind': 'exit', 'code': 1, 'channel': 'hook'}]))
    cases.append(mk_case(3, 6, 'corpus-b', faults=[{'pid': 2, 'task': None, 'kind': 'after', 'code': 1, 'channel': 'hook'}]))
    cases.append(mk_case(3, 6, 'corpus-c', slow=[2], faults=[{'pid': 1, 'task': 1, 'kind': 'exit', 'code': 0, 'channel': 'func'}]))
    cases.append(mk_case(3, 0, 'corpus-empty'))      # fixed ac3e25b: raised ValueError
    cases.append(mk_case(1, 0, 'corpus-empty'))
    cases.append(mk_case(8, 0, 'corpus-empty'))
    # A. fault-free grid
    for k in range(1, 9):
        for n in range(0, 21):
            if th:
                assigns = range(2 ** k) if k <= 6 else sorted(rng.sample(range(2 ** k), 40))
            else:
                assigns = [rng.randrange(2 ** k)]
                if (k, n) in ((3, 7), (4, 2), (8, 20), (2, 1)):
                    assigns = list(assigns) + [rng.randrange(2 ** k), 2 ** k - 2, 1]
            for a in assigns:
                slow = [p for p in range(k) if (a >> p) & 1]
                late = [p for p in range(1, k) if rng.random() < 0.15]
                cases.append(mk_case(k, n, 'grid', slow=slow, late=late, nlog=rng.choice([0, 0, 1, 2])))
    for (k, n) in ((2, 2), (3, 7), (4, 4)) if not th else [(k, n) for k in (2, 3, 4, 6) for n in (2, 5, 9)]:
        cases.append(mk_case(k, n, 'grid-bulk', bulk=[rng.randrange(1, k)], late=[rng.randrange(1, k)]))
    # interactive session: progress bar and status queue; the flood case of fix 10bab65 (the worker finishes
    # thousands of tasks - more status records than the pipe holds - after the master finished its own)
    cases.append(mk_case(2, 10000, 'corpus-status-flood', slow=[1], interactive=True))
    for _ in range(ctx.budget(10, 80)):
        k, n = rng.randint(1, 6), rng.randint(1, 20)
        fs = []
        if k > 1 and n >= k and rng.random() < 0.5:
            fk, ch, code = rng.choice([('raise', 'hook', 1), ('raise', 'func', 1), ('exit', 'hook', 1), ('exit', 'func', 3),
                                       ('exit', 'hook', 0), ('kill', 'func', -9), ('after', 'hook', 1), ('after', 'hook', 0)])
            fs = [{'pid': rng.randrange(1, k), 'task': None if fk == 'after' else 0, 'kind': fk, 'code': code, 'channel': ch}]
        cases.append(mk_case(k, n, 'interactive', slow=rng.sample(range(k), rng.randint(0, k)), faults=fs,
                             nlog=rng.choice([0, 1]), interactive=True))
    # audit follow-up: payload / volume dimension.  (a) OPEN FINDING probe (hang, every run); (b) result records far
    # larger than the pipe, fault-free and with every fault kind; (c) bulk logging combined with raising / exiting
    # tasks (defect repaired by cdc2ef8: a raising worker with unread log records never ended)
    cases.append(mk_case(2, 2, 'finding-midput', faults=[{'pid': 1, 'task': None, 'kind': 'midput', 'channel': 'func'}]))
    for (k, n) in ((2, 2), (3, 7), (4, 4)) if not th else [(k, n) for k in (2, 3, 5) for n in (2, 5, 9)]:
        cases.append(mk_case(k, n, 'grid-big-result', pad=range(1, k), slow=rng.sample(range(k), 1)))
        cases.append(mk_case(k, n, 'grid-big-result', pad=range(0, k), late=[rng.randrange(1, k)], nlog=1))
    for (k, n) in ((2, 4), (3, 7)) if not th else ((2, 4), (3, 7), (4, 9), (5, 12)):
        cs = split_sizes(n, k)
        for p in range(1, k):
            for (fk, ch, extra) in (('raise', 'hook', {}), ('raise', 'func', {}), ('raisex', 'func', {'exc': 'MemoryError'}),
                                    ('raisex', 'func', {'exc': 'KeyError'}), ('sysexit', 'func', {'code': 0}),
                                    ('sysexit', 'func', {'code': 3}), ('exit', 'hook', {'code': 1}),
                                    ('kill', 'func', {'code': -9})):
                f = dict({'pid': p, 'task': cs[p] - 1, 'kind': fk, 'channel': ch}, **extra)
                cases.append(mk_case(k, n, 'fault:bulk-logs', faults=[f], bulk=[p], slow=rng.sample(range(k), 1)))
                cases.append(mk_case(k, n, 'fault:big-result', faults=[f], pad=range(1, k)))
            for code in (1, 0):
                f = {'pid': p, 'task': None, 'kind': 'after', 'code': code, 'channel': 'hook'}
                cases.append(mk_case(k, n, 'fault:big-result', faults=[f], pad=[p]))
    # B. single faults, exhaustively for small sizes, in two timing contexts
    sizes_b = [(2, 1), (2, 3), (3, 2), (3, 4), (3, 5), (4, 6), (5, 7)] if not th else \
        [(k, n) for k in range(2, 6) for n in range(1, 9)]
    kinds = [('raise', 'hook', 1), ('raise', 'func', 1), ('exit', 'hook', 1), ('exit', 'func', 3),
             ('exit', 'hook', 0), ('kill', 'func', -9), ('after', 'hook', 1), ('after', 'hook', 0)]
    for (k, n) in sizes_b:
        cs = split_sizes(n, k)
        for p in range(1, k):
            for (fk, ch, code) in kinds:
                tasks = [None] if fk == 'after' else list(range(cs[p]))
                for t in tasks:
                    f = {'pid': p, 'task': t, 'kind': fk, 'code': code, 'channel': ch}
                    others = [q for q in range(k) if q != p]
                    ctxs = [('victim-first', others), ('victim-last', [p])]
                    if not th and (k, n) in ((4, 6), (5, 7)):
                        ctxs = [rng.choice(ctxs)]
                    for (nm, slow) in ctxs:
                        cases.append(mk_case(k, n, 'fault:' + nm, slow=slow, nlog=rng.choice([0, 1]), faults=[f]))
                    if fk == 'after':
                        # the victim is still alive when the master takes its result record and starts to
                        # drain its log records; it dies before the end marker
                        cases.append(mk_case(k, n, 'fault:victim-lingers', late=[p], nlog=rng.choice([0, 1]),
                                             faults=[f]))
                        if cs[p] > 0 and (th or (k, n) in ((2, 3), (3, 5))):
                            cases.append(mk_case(k, n, 'fault:victim-lingers-bulk', late=[p], faults=[f], bulk=[p]))
        for t in range(cs[0]):       # a task of the master's own chunk raises
            cases.append(mk_case(k, n, 'fault:master', slow=rng.sample(range(k), 1),
                                 faults=[{'pid': 0, 'task': t, 'kind': 'raise', 'channel': 'func'}]))
    # C. double faults (coarse comparison only)
    for _ in range(ctx.budget(12, 150)):
        k = rng.randint(3, 5)
        n = rng.randint(k, 10)
        cs = split_sizes(n, k)
        ps = rng.sample(range(1, k), 2)
        fs = []
        for p in ps:
            fk, ch, code = rng.choice(kinds)
            t = None if fk == 'after' else rng.randrange(cs[p])
            fs.append({'pid': p, 'task': t, 'kind': fk, 'code': code, 'channel': ch})
        cases.append(mk_case(k, n, 'fault:double', slow=rng.sample(range(k), rng.randint(0, k)), faults=fs))
    # D. single process with a raising task; malformed ncpu
    cases.append(mk_case(1, 4, 'fault:master', faults=[{'pid': 0, 'task': 2, 'kind': 'raise', 'channel': 'func'}]))
    for (k, n) in ((0, 3), (-1, 3), (0, 0)):
        cases.append(mk_case(k, n, 'malformed'))
    # E. rss determinism
    for _ in range(ctx.budget(10, 80)):
        k = rng.randint(1, 6)
        n = rng.randint(1, 14)
        seed = rng.randrange(2 ** 31)
        slow = rng.sample(range(k), rng.randint(0, k))
        cases.append(mk_case(k, n, 'rss', slow=slow, seed=seed))
        cases.append(mk_case(k, n, 'rss', slow=rng.sample(range(k), rng.randint(0, k)), seed=seed))
    # deterministic boundary seeds (0 is falsy, 1, 2**32-1 is the largest seed numpy accepts), every worker count
    for seed in (0, 1, 2 ** 32 - 1):
        for k in (1, 2, 3, 5):
            cases.append(mk_case(k, 6, 'rss-boundary-seed', seed=seed))
            cases.append(mk_case(k, 6, 'rss-boundary-seed', seed=seed, slow=[k - 1]))
        cases.append(mk_case(2, 4, 'do_trials', seed=seed, trials=True))
        cases.append(mk_case(2, 4, 'do_trials', seed=seed, trials=True, slow=[1]))
    # F. Analysis.do_trials (result array keeps the order of the list), through the real method
    for _ in range(ctx.budget(6, 40)):
        k = rng.randint(1, 5)
        n = rng.randint(1, 12)
        seed = rng.randrange(2 ** 31)
        cases.append(mk_case(k, n, 'do_trials', slow=rng.sample(range(k), rng.randint(0, k)), seed=seed, trials=True))
        cases.append(mk_case(k, n, 'do_trials', slow=rng.sample(range(k), rng.randint(0, k)), seed=seed, trials=True))
    return cases


def gen_sequences(ctx):
    """call SEQUENCES executed in ONE process (module state, queues, buffers, memos survive between the calls):
    a failed call of every fault kind followed by fault-free calls with the same / another ncpu / another task
    function, repeated calls on the same args_list object, alternating functions, changing ncpu, the empty list in
    between, rss and do_trials repeated.  Every call is judged like a call in a fresh process."""
    rng = ctx.rng
    th = ctx.thorough()

    def C(k, n, kind='free', **kw):
        extra = {x: kw.pop(x) for x in ('func', 'pause', 'reuse_args') if x in kw}
        c = mk_case(k, n, kind, **kw)
        c.update(extra)
        return c
    kinds = [('raise', 'hook', 1), ('raise', 'func', 1), ('exit', 'hook', 1), ('exit', 'func', 3),
             ('exit', 'hook', 0), ('kill', 'func', -9), ('after', 'hook', 1), ('after', 'hook', 0)]
    seqs = []
    shapes = [(3, 5)] if not th else [(2, 3), (3, 5), (4, 6), (5, 7)]
    for (k, n) in shapes:
        cs = split_sizes(n, k)
        for (fk, ch, code) in kinds:
            p = rng.randrange(1, k)
            f = {'pid': p, 'task': None if fk == 'after' else rng.randrange(cs[p]), 'kind': fk, 'code': code,
                 'channel': ch}
            for nm, slow in (('failed-then-free/others-slow', [q for q in range(1, k) if q != p]),
                             ('failed-then-free/victim-slow', [p])):
                if not th and nm.endswith('victim-slow') and rng.random() < 0.5:
                    continue
                seqs.append({'name': nm, 'seq': [
                    C(k, n, 'faulty', slow=slow, faults=[f], nlog=1),
                    C(k, n, pause=0.2, nlog=1),
                    C(max(2, k - 1), n),
                    C(k, n, func='b', slow=[rng.randrange(k)]),
                    C(k + 1, n, slow=[1]),
                    C(k, n, reuse_args=True, nlog=1)]})
        seqs.append({'name': 'master-raise-then-free', 'seq': [
            C(k, n, 'faulty', faults=[{'pid': 0, 'task': 0, 'kind': 'raise', 'channel': 'func'}], slow=[1]),
            C(k, n, pause=0.15), C(k, n - 1), C(k, n, func='b')]})
    for (k, n) in ((3, 7), (1, 4), (2, 2)) if not th else [(k, n) for k in (1, 2, 3, 5) for n in (1, 4, 9)]:
        seqs.append({'name': 'repeat-same-args', 'seq': [C(k, n), C(k, n, reuse_args=True), C(k, n, reuse_args=True)]})
        seqs.append({'name': 'alternate-functions', 'seq': [C(k, n), C(k, n, func='b', reuse_args=True),
                                                            C(k, n, reuse_args=True), C(k, n, func='b', reuse_args=True)]})
    for n in ((9,) if not th else (2, 9, 14)):
        seqs.append({'name': 'changing-ncpu', 'seq': [C(5, n), C(3, n, reuse_args=True), C(1, n, reuse_args=True),
                                                      C(4, n, reuse_args=True), C(8, n, reuse_args=True),
                                                      C(5, n, reuse_args=True, func='b'), C(2, n, reuse_args=True)]})
        seqs.append({'name': 'changing-ntasks', 'seq': [C(3, n), C(3, n + 3), C(3, 1), C(3, n), C(1, n + 3), C(1, 2)]})
    seqs.append({'name': 'empty-in-between', 'seq': [C(3, 4), C(3, 0), C(3, 4, reuse_args=True), C(1, 0), C(1, 4)]})
    seqs.append({'name': 'bulk-then-free', 'seq': [C(2, 2, bulk=[1], late=[1]), C(2, 2), C(2, 3, func='b')]})
    seqs.append({'name': 'interactive-then-batch', 'seq': [C(3, 7, interactive=True, slow=[1]), C(3, 7), C(3, 7, interactive=True, func='b'),
                                                           C(1, 5, interactive=True), C(2, 5)]})
    seqs.append({'name': 'rss-seed-zero', 'seq': [C(3, 6, 'rss', seed=0), C(3, 6, 'rss', seed=0, reuse_args=True), C(1, 6, 'rss', seed=0),
                                                  C(3, 6, 'rss', seed=1), C(3, 6, 'rss', seed=0)]})
    for _ in range(ctx.budget(2, 10)):
        k, n = rng.randint(1, 4), rng.randint(2, 9)
        s1, s2 = rng.randrange(2 ** 31), rng.randrange(2 ** 31)
        seqs.append({'name': 'rss-repeat', 'seq': [
            C(k, n, 'rss', seed=s1), C(k, n, 'rss', seed=s1, reuse_args=True), C(k, n, reuse_args=True),
            C(k, n, 'rss', seed=s1, func='b', reuse_args=True), C(k, n, 'rss', seed=s2, reuse_args=True),
            C(k + 1, n, 'rss', seed=s1), C(k, n, 'rss', seed=s1, slow=[0])]})
        seqs.append({'name': 'do_trials-repeat', 'seq': [
            C(k, n, 'do_trials', seed=s1, trials=True), C(k, n, 'do_trials', seed=s1, trials=True),
            C(k + 1, n, 'do_trials', seed=s2, trials=True), C(k, n, 'do_trials', seed=s1, trials=True)]})
    for _ in range(ctx.budget(0, 40)):      # random sequences
        calls = []
        for _ in range(rng.randint(3, 6)):
            k, n = rng.randint(1, 5), rng.randint(0, 9)
            kw = {'slow': rng.sample(range(k), rng.randint(0, k)), 'func': rng.choice(['a', 'b'])}
            if k > 1 and n >= k and rng.random() < 0.3:
                p = rng.randrange(1, k)
                fk, ch, code = rng.choice(kinds)
                kw['faults'] = [{'pid': p, 'task': None if fk == 'after' else 0, 'kind': fk, 'code': code, 'channel': ch}]
            calls.append(C(k, n, pause=rng.choice([0, 0, 0.1]), **kw))
        seqs.append({'name': 'random', 'seq': calls})
    return seqs


def judge_sequences(ctx, seqs, obs, nvariants):
    cases, flat = [], []
    for sq, o in zip(seqs, obs):
        ctx.count('sequence:' + sq['name'])
        if o.get('kind') != 'seq':
            ctx.broken.append({'kind': 'harness', 'error': f"sequence runner gave no observation: {o}"})
            continue
        for ci, co in enumerate(o['calls']):
            c = dict(sq['seq'][ci])
            c['_seq'] = {'name': sq['name'], 'index': ci,
                         'earlier_calls': [{k: x.get(k) for k in ('ncpu', 'ntasks', 'faults', 'slow', 'func', 'seed', 'interactive', 'late', 'kind',
                                                                  'reuse_args', 'pause', 'trials', 'nlog', 'bulk', 'pad')}
                                           for x in sq['seq'][:ci]]}
            c['kind'] = f"seq:{sq['name']}#{ci}"
            cases.append(c)
            flat.append(co)
    judge(ctx, cases, flat, nvariants)


def judge(ctx, cases, obs, nvariants):
    """predicates + model comparison for observed cases"""
    exprs, owners = [], []
    classes = []
    for case, o in zip(cases, obs):
        oc = observe_class(case, o)
        classes.append(oc)
        ctx.case({k: case.get(k) for k in ('ncpu', 'ntasks', 'slow', 'late', 'nlog', 'faults', 'seed', 'bulk', 'interactive', 'func', '_seq')},
                 nontrivial=case['ntasks'] > 0)
        ctx.count('kind:' + case['kind'])
        ctx.count('outcome:' + (oc[1] if oc[0] == 'Fail' else oc[0]))
        for f in triggered(case):
            ctx.count(f"fault:{f['kind']}/{f['channel']}")
        order = o.get('order') or []
        if len(order) > 1:
            ctx.count('arrival:' + ('in-pid-order' if order == sorted(order) else 'out-of-pid-order'))
        if o.get('wall') is not None:
            ctx.stats['max_wall_s'] = max(ctx.stats.get('max_wall_s', 0), o['wall'])
        predicates(ctx, case, o, oc)
        if case['seed'] is not None or oc[0] == 'Broken':
            continue
        if len(set(order)) != len(order) or any(not (1 <= p < case['ncpu']) for p in order):
            ctx.violation(SITE, 'bad-arrival-record', 'a worker pid was gathered twice / is no worker pid',
                          case=case, impl=order)
            order = []
        if case['ntasks'] > 400:
            ctx.count('model-comparison-skipped-long-list')
            continue
        es = model_exprs_for(case, order, ctx.rng, nvariants)
        for e in es:
            exprs.append(e)
            owners.append(len(classes) - 1)
    # rss: pairs with equal seed / ncpu, and the sequential oracle
    by = {}
    for case, o in zip(cases, obs):
        if case['seed'] is not None:
            by.setdefault((case['seed'], case['ncpu'], case['ntasks'], case.get('trials'), case.get('func')), []).append((case, o))
    for key, lst in by.items():
        vals = [json.dumps(o.get('value')) if o.get('kind') == 'result' else None for _, o in lst]
        if any(v is None for v in vals):
            ctx.violation(SITE, vkind(lst[0][0], 'rss-run-failed'), 'fault-free run with rss did not return',
                          case=lst[0][0], impl=[o for _, o in lst])
            continue
        if len(set(vals)) != 1:
            ctx.violation(SITE, vkind(lst[0][0], 'nondeterministic-rss'), 'equal seed and ncpu gave different lists',
                          case=lst[0][0], impl=vals, predicate='deterministic for a given seed and worker count')
        try:
            want = json.dumps(rss_oracle(lst[0][0]))
        except Exception as ex:
            want = f'oracle failed: {ex}'
        ctx.corr_cases += 1
        if vals[0] != want:
            ctx.disagree('Analysis.do_trials' if lst[0][0].get('trials') else SITE + '.rss', lst[0][0], vals[0][:400], want[:400],
                         'list differs from the sequential run of the chunks with the per-process seeds')
    if not ctx.model_ok or not exprs:
        return
    try:
        vals = common.coq_eval('c09', IMPORTS, exprs)
    except RuntimeError as ex:
        ctx.broken.append({'kind': 'model-eval', 'error': str(ex)[:1500]})
        return
    seen = {}
    for v, oi, e in zip(vals, owners, exprs):
        case, oc = cases[oi], classes[oi]
        try:
            m = canon_model(v)
        except Exception as ex:
            m = ['unparsed', repr(v)[:200], str(ex)]
        ctx.corr_cases += 1
        # the kind of the error depends on the timing when two processes fail, and when a process dies with a
        # non-zero code right after queueing its result (LogIncomplete, or ChildDied when the master looked at
        # the empty queue just before): such plans are compared by class (list / error / hang) only
        tf = triggered(case)
        coarse = len(tf) > 1 or any(f['kind'] == 'after' and f.get('code', 1) != 0 for f in tf)
        a, b = (oc, m)
        if coarse:
            ctx.count('compared-by-class-only')
            a = [oc[0]] if oc[0] != 'Done' else oc
            b = [m[0]] if m[0] != 'Done' else m
        if a != b and oi not in seen:
            seen[oi] = True
            ctx.disagree(SITE + ('.sequence' if case.get('_seq') else ''), pubcase(case), oc, m,
                         'observed outcome class differs from the model on a schedule of the same plan: ' + e[:600])


NCPU_VALUES = [None, -3, -1, 0, 1, 2, 3, 8, 64, 2.0, 1.5, '3', [2]]


def _nval(v):
    if v is None:
        return 'VNone'
    if isinstance(v, int) and not isinstance(v, bool):
        return f'(VInt ({v}))'
    return 'VBad'


def run_get_ncpu_case(ctx, cfgv, local):
    """real get_ncpu on one (configured, local) pair; returns (case, observed, model term)"""
    from skyllh.core.multiproc import get_ncpu
    case = {'stream': 'get_ncpu', 'cfg': repr(cfgv), 'local': repr(local)}
    try:
        r = get_ncpu({'multiproc': {'ncpu': cfgv}}, local)
        obs = ['Ok', r] if (isinstance(r, int) and not isinstance(r, bool)) else ['Ok?', repr(r)]
    except Exception as ex:  # noqa
        obs = ['Err', type(ex).__name__]
    # independent predicate: the first setting that is not None among local, cfg, 1; int >= 1 or a loud error
    eff = local if local is not None else (cfgv if cfgv is not None else 1)
    want = (['Ok', eff] if eff >= 1 else ['Err', 'ValueError']) if (isinstance(eff, int) and not isinstance(eff, bool)) \
        else ['Err', 'TypeError']
    ctx.case(case)
    ctx.count('get_ncpu:' + (obs[1] if obs[0] == 'Err' else obs[0]))
    if obs != want:
        ctx.violation('multiproc.get_ncpu', 'wrong-ncpu' if obs[0] != 'Err' else 'wrong-error',
                      f'get_ncpu(cfg ncpu={cfgv!r}, local_ncpu={local!r}) gave {obs}, expected {want}',
                      case=case, impl=obs, model=want,
                      predicate='first non-None of (local, configured, 1); an int >= 1, else TypeError / ValueError')
    return case, obs, f'get_ncpu {_nval(cfgv)} {_nval(local)}'


def check_get_ncpu(ctx, pairs=None):
    """extension stream: real get_ncpu vs M_ParallelNcpu.get_ncpu on all pairs of valid and malformed settings"""
    pairs = pairs or [(c, l) for c in NCPU_VALUES for l in NCPU_VALUES]
    rows = [run_get_ncpu_case(ctx, c, l) for c, l in pairs]
    if not ctx.model_ok:
        return
    imports = IMPORTS.replace('Result M_Parallel.', 'Result M_Parallel M_ParallelNcpu.')
    try:
        vals = common.coq_eval('c09n', imports, [e for _, _, e in rows])
    except RuntimeError as ex:
        ctx.broken.append({'kind': 'model-eval', 'error': str(ex)[:1500]})
        return
    for (case, obs, e), v in zip(rows, vals):
        ctx.corr_cases += 1
        m = ['Ok', v[1]] if (isinstance(v, tuple) and v[0] == 'Ok') else (['Err', v[1]] if isinstance(v, tuple) else ['?', repr(v)])
        if m != obs:
            ctx.disagree('multiproc.get_ncpu', case, obs, m, 'real get_ncpu differs from the model: ' + e)


def check_array_split(ctx):
    """numpy.array_split chunk sizes vs the model's, n 0..40, k 1..10"""
    pairs = [(n, k) for n in range(0, 41) for k in range(1, 11)]
    exprs = [f'map (@length nat) (array_split {zlist(range(n))} {k})' for n, k in pairs]
    try:
        vals = common.coq_eval('c09s', IMPORTS.replace('Open Scope Z_scope.', ''), exprs)
    except RuntimeError as ex:
        ctx.broken.append({'kind': 'model-eval', 'error': str(ex)[:1500]})
        return
    for (n, k), v in zip(pairs, vals):
        ctx.corr_cases += 1
        want = split_sizes(n, k)
        if list(v) != want:
            ctx.disagree('numpy.array_split', {'n': n, 'k': k}, want, list(v))


def check_structure(ctx):
    """The order of the reads / writes of shared state that the step granularity of M_Parallel assumes, checked
    on the source text (fail-closed): all_procs_ended is read before rqueue.get, the exit codes are examined
    before the all-ended test, pid_proc_ended is read before the log get, the worker puts its result before the
    end marker and nothing after it, the result is stored under the record's pid and re-assembled by pid."""
    import ast
    path = os.path.join(common.REPO, 'skyllh', 'core', 'multiproc.py')
    bad = []

    def first(body, pred):
        for i, st in enumerate(body):
            if pred(st):
                return i
        return None

    def has(st, text):
        return text in ast.unparse(st)
    try:
        with open(path) as f:
            tree = ast.parse(f.read())
        par = next(n for n in tree.body if isinstance(n, ast.FunctionDef) and n.name == 'parallelize')
        whiles = {ast.unparse(n.test): n for n in ast.walk(par) if isinstance(n, ast.While)}
        w = whiles.get('result_received is False')
        if w is None:
            bad.append('poll loop `while result_received is False` not found')
        else:
            ia = first(w.body, lambda st: isinstance(st, ast.Assign) and has(st.targets[0], 'all_procs_ended'))
            it = first(w.body, lambda st: isinstance(st, ast.Try) and has(st, 'rqueue.get(block=False)'))
            if ia is None or it is None or not ia < it:
                bad.append('all_procs_ended is not evaluated before rqueue.get(block=False) in the poll loop')
            else:
                hb = w.body[it].handlers[0].body if w.body[it].handlers else []
                i1 = first(hb, lambda st: isinstance(st, ast.For) and has(st.iter, 'processes') and has(st, 'raise'))
                i2 = first(hb, lambda st: isinstance(st, ast.If) and ast.unparse(st.test) == 'all_procs_ended')
                if i1 is None or i2 is None or not i1 < i2:
                    bad.append('queue.Empty handler: exit codes of all processes must be examined before the '
                               'all_procs_ended test')
        d = whiles.get('not lqueue_end')
        if d is None:
            bad.append('log drain loop `while not lqueue_end` not found')
        else:
            ia = first(d.body, lambda st: isinstance(st, ast.Assign) and has(st.targets[0], 'pid_proc_ended'))
            it = first(d.body, lambda st: isinstance(st, ast.Try) and has(st, 'lqueue_list[pid].get('))
            if ia is None or it is None or not ia < it:
                bad.append('pid_proc_ended is not evaluated before lqueue_list[pid].get in the drain loop')
        ww = next((n for n in par.body if isinstance(n, ast.FunctionDef) and n.name == 'worker_wrapper'), None)
        if ww is None:
            bad.append('worker_wrapper not found')
        else:
            ip = first(ww.body, lambda st: isinstance(st, ast.Expr) and ast.unparse(st).startswith('rqueue.put('))
            ie = first(ww.body, lambda st: isinstance(st, ast.Expr) and ast.unparse(st) == 'lqueue.put_nowait(None)')
            if ip is None or ie is None or not ip < ie or ie != len(ww.body) - 1:
                bad.append('worker_wrapper: rqueue.put(...) must precede lqueue.put_nowait(None), which must be last')
            elif any(not (isinstance(st, ast.Expr) and ast.unparse(st).startswith('_verif_hook('))
                     for st in ww.body[ip + 1:ie]):
                bad.append('worker_wrapper: statements between rqueue.put and the end marker')
        loop = next((n for n in par.body if isinstance(n, ast.For) and ast.unparse(n.iter) == 'processes'
                     and has(n, 'result_received')), None)
        if loop is None or first(loop.body, lambda st: ast.unparse(st) == 'pid_result_list_map[pid] = result_list') is None:
            bad.append('gather loop: `pid_result_list_map[pid] = result_list` not found')
        fin = next((n for n in par.body if isinstance(n, ast.For)
                    and ast.unparse(n.iter) == 'range(len(pid_result_list_map))'), None)
        if fin is None or [ast.unparse(st) for st in fin.body] != ['result_list += pid_result_list_map[pid]'] \
                or ast.unparse(fin.target) != 'pid':
            bad.append('re-assembly `for pid in range(len(pid_result_list_map)): result_list += '
                       'pid_result_list_map[pid]` not found')
        for n_ in ast.walk(par):
            if isinstance(n_, ast.Call) and ast.unparse(n_.func) in ('mp.Queue', 'mp.SimpleQueue', 'mp.JoinableQueue',
                                                                     'mp.Pipe') \
                    and (n_.args or n_.keywords or ast.unparse(n_.func) != 'mp.Queue'):
                bad.append('queue construction other than the unbounded mp.Queue(): ' + ast.unparse(n_))
    except Exception as ex:  # noqa
        bad.append(f'cannot analyse {path}: {type(ex).__name__}: {ex}')
    ctx.count('structure-checks', 8)
    for b in bad:
        ctx.broken.append({'kind': 'structure', 'file': 'skyllh/core/multiproc.py', 'error': b})


def run(ctx):
    check_structure(ctx)
    watchdog = ctx.budget(20, 60)
    cases = gen_cases(ctx)
    nproc = ctx.budget(6, 8)
    obs = run_impl(cases, watchdog, nproc=nproc)
    # a hang / runner failure is re-run once alone, so that machine load is not mistaken for a hang
    redo = [i for i, o in enumerate(obs) if o.get('kind') in ('hang', 'crash', 'runner-failed')
            and not cases[i].get('watchdog')]      # the open-finding probe is expected to hang
    if redo and len(redo) <= 6:
        ctx.count('re-run-after-hang-or-crash', len(redo))
        again = run_impl([cases[i] for i in redo], watchdog, nproc=2)
        for i, o in zip(redo, again):
            if o.get('kind') not in ('crash', 'runner-failed') or obs[i].get('kind') != 'hang':
                obs[i] = o
    for c, o in list(zip(cases, obs))[:3] + [(c, o) for c, o in zip(cases, obs) if c['kind'].startswith('fault')][:3]:
        ctx.sample({'ncpu': c['ncpu'], 'ntasks': c['ntasks'], 'kind': c['kind'], 'slow': c['slow'],
                    'faults': c['faults'], 'plan': c['plan'], 'observed': {k: o.get(k) for k in ('kind', 'type', 'msg', 'order', 'wall')}})
    judge(ctx, cases, obs, nvariants=ctx.budget(1, 3))
    seqs = gen_sequences(ctx)
    sobs = run_impl(seqs, watchdog, nproc=nproc)
    judge_sequences(ctx, seqs, sobs, nvariants=1)
    check_get_ncpu(ctx)
    if ctx.model_ok:
        check_array_split(ctx)


def replay(ctx, rp):
    case = rp.get('case') or {}
    if case.get('stream') == 'get_ncpu':
        import ast as _ast
        return check_get_ncpu(ctx, [(_ast.literal_eval(case['cfg']), _ast.literal_eval(case['local']))])
    if 'ncpu' not in case or 'ntasks' not in case:
        ctx.notes.append('replay file has no runnable case (broken obligation): running the normal check')
        return run(ctx)
    def rebuild(d):
        c = mk_case(d['ncpu'], d['ntasks'], d.get('kind', 'replay'), slow=d.get('slow') or (), late=d.get('late') or (),
                    nlog=d.get('nlog') or 0,
                    faults=[{k: v for k, v in f.items() if k != 'triggers'} for f in d.get('faults') or []],
                    seed=d.get('seed'), trials=d.get('trials', False), bulk=d.get('bulk') or (),
                    interactive=d.get('interactive', False), pad=d.get('pad') or ())
        for x in ('func', 'pause', 'reuse_args'):
            if d.get(x) is not None:
                c[x] = d[x]
        return c
    if case.get('_seq'):
        sq = {'name': case['_seq']['name'], 'seq': [rebuild(d) for d in case['_seq']['earlier_calls']] + [rebuild(case)]}
        sobs = run_impl([sq], ctx.budget(20, 60), nproc=1)
        ctx.sample({'sequence': sq['name'], 'observed': sobs[0]})
        return judge_sequences(ctx, [sq], sobs, nvariants=2)
    c = mk_case(case['ncpu'], case['ntasks'], case.get('kind', 'replay'), slow=case.get('slow', ()),
                late=case.get('late', ()), nlog=case.get('nlog', 0),
                faults=[{k: v for k, v in f.items() if k != 'triggers'} for f in case.get('faults', [])],
                seed=case.get('seed'), trials=case.get('trials', False), bulk=case.get('bulk', ()),
                interactive=case.get('interactive', False), pad=case.get('pad') or ())
    cases = [c, c] if c['seed'] is not None else [c]
    obs = run_impl(cases, ctx.budget(20, 60), nproc=1)
    ctx.sample({'case': c, 'observed': obs[0]})
    judge(ctx, cases, obs, nvariants=3)
