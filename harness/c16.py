"""C16 — DataFieldRecordArray behaves like a plain table under any operation sequence.

Correspondence: operation sequences are executed on the REAL
skyllh.core.storage.DataFieldRecordArray objects and on the Coq model
coq/model/M_Table.v (vm_compute of `run_obs`); after EVERY step the outcome
(Done / exception kind) and the observation of EVERY live object (field name
list, dict order, dtypes, column values, length, indices cache, and the
memory-sharing pattern of all column arrays: np.shares_memory vs. equality of
model locations) are compared exactly.
Predicates (failing-input search): an independent plain-table reference (a list
of row dicts per object, updated with plain Python) is compared with the
implementation after every step, together with the invariants the property
names (equal column lengths, field list = dict keys, indices cache, no shared
memory, failed operation changes nothing)."""
import itertools

import numpy as np

from harness import common

GEN_MODULES = ['table', 'tablerec']
MODEL_TARGETS = ['model/M_Table.vo', 'model/M_TableRec.vo']
PROOF_TARGETS = ['proofs/P_Table.vo', 'proofs/P_TableRefine.vo', 'proofs/P_TableThm.vo', 'proofs/P_TableSim5.vo',
                 'proofs/P_TableFull.vo', 'proofs/P_TableClosed.vo', 'proofs/P_TableRows.vo', 'proofs/P_TableFindings.vo', 'proofs/P_TableRec.vo']
LEVEL = 'proof'
RULE = ('operation sequences over all public operations of DataFieldRecordArray (constructor from dict with '
        'keep/conversions/copy, copy, get_selection, set_selection, append, append_field, __setitem__, '
        'remove_field, rename_fields, tidy_up, sort_by_field, convert_dtypes, set_field_dtype, indices), '
        'bounded-exhaustive over a fixed alphabet of 14 state-dependent letters: all words of length 4 over 7, length 3 over 7 and length 2 over 16 letters '
        '(quick) / length 4 over 14, length 3 over 18, length 5 over 8 and length 6 over 6 letters (thorough, words continuing after a failed step '
        'pruned), random up to length 40 on tables with 0..50 rows and 1..5 fields of dtypes '
        'int16/int32/int64/float64, plus a malformed stream (missing fields, wrong lengths, indices out of '
        'range, colliding renames); a case is one whole sequence, distinct by hash of its operations')
TRUSTED = [
    'Coq 8.16.1 kernel incl. vm_compute (no native_compute)',
    'theorems closed under the global context (no axioms)',
    'translator/py2coq.py: the length tests / length updates of storage.py (kernels of G_table.v)',
    'hand model M_Table.v of the control flow, dict/list plumbing and of the numpy contract (np.append, fancy '
    'indexing, index assignment incl. broadcasting and error order, np.copyto same_kind, astype, dict insertion '
    'order), validated on every run by this step-by-step correspondence',
    'np.argsort is an oracle: the model takes the returned permutation and CHECKS that it is a sorting '
    'permutation of the key column (outcome Stuck otherwise, which the correspondence would report)',
    'column values are integers within int16 (all casts exact); NaN, strings and object columns are outside the model',
    'arrays handed in by the caller (append_field, __setitem__, dict constructor with copy=False) are fresh, '
    'i.e. not aliased by the caller elsewhere; the `indices` array is not written by the caller',
]

IMPORTS = ('From Coq Require Import ZArith List. Import ListNotations. Open Scope Z_scope.\n'
           'From Sky Require Import Result PyList M_Table.\n')

DT = [np.int16, np.int32, np.int64, np.float64]
DTN = {np.dtype(d): i for i, d in enumerate(DT)}
MAXOBJ = 5
MAXLEN = 120


# value-domain stream: cells that are NOT small integers.  The operations only move cells around
# (no cast when every column has ONE dtype and no conversion is asked for), so the model can work on
# order-preserving integer TOKENS for the cells; any rounding / truncation / float32 round trip in
# the implementation produces a value outside the pool and is reported.
_F = [float('-inf'), -1e300, -7.25, -0.5, 1e-300, 0.1, 0.5, 3.0, 16777216.0, 16777217.0, 123456789.125,
      2.0 ** 53 + 2, 1e300, float('inf'), float('nan')]
_I = [-2 ** 62, -2 ** 40 - 1, -32769, -1, 0, 1, 32768, 16777217, 2 ** 31, 2 ** 40 + 1, 2 ** 62]
POOL = {'f64': (3, _F), 'i64': (2, _I)}


def tok_of(valdom, v):
    pool = POOL[valdom][1]
    for i, p in enumerate(pool):
        if p == v or (isinstance(p, float) and p != p and v != v):
            return i
    return -999999


# field names with substring relations among them (a str keep_fields must not be read as a container
# of characters / substrings) and of different lengths
NAMES = ['a', 'ab', 'abc', 'b', 'bc', 'c', 'ra', 'dec']
NAME_NO = {nm: i for i, nm in enumerate(NAMES)}


def fname(n):
    return NAMES[n] if 0 <= n < len(NAMES) else f'zz{n}'


def fnum(s):
    return NAME_NO[s] if s in NAME_NO else int(s[2:])


def mk_keep(op):
    """keep_fields argument in the container kind the op asks for (list / tuple / ndarray of str / str)"""
    names = [fname(n) for n in op['keep']]
    kind = op.get('keepkind', 'list')
    if kind == 'tuple':
        return tuple(names)
    if kind == 'ndarray':
        return np.array(names, dtype=str)
    if kind == 'str' and len(names) == 1:
        return names[0]
    return names


class Impl:
    """the real objects + an independent plain-table reference (rows = dicts)"""

    def __init__(self, DFRA, valdom=None):
        self.DFRA = DFRA
        self.valdom = valdom
        self.aliased = False
        self.objs = []
        self.refs = []          # per object: {'names': [..], 'rows': [dict]}

    def arr(self, b):
        if self.valdom:
            dt, pool = POOL[self.valdom]
            return np.array([pool[t] for t in b[1]], dtype=DT[dt])
        return np.array(b[1], dtype=DT[b[0]])

    def enc(self, values):
        """cells as the model sees them (integers; tokens in the value-domain stream)"""
        if self.valdom:
            return [tok_of(self.valdom, v) for v in values]
        return [int(v) if float(v) == int(v) else float(v) for v in values]

    def step(self, op):
        """execute one op; returns (outcome, extra) and updates the reference on success"""
        k = op['op']
        D = self.DFRA
        self._impl_done = False
        self.args = []          # (what, array, snapshot, stored_by_design)
        self.returned = []      # arrays returned to the caller
        try:
            if k == 'ctor':
                data = {}
                for n, b in op['cols']:
                    data[fname(n)] = self.arr(b)
                    self.args.append(('constructor column ' + fname(n), data[fname(n)], data[fname(n)].copy(), not op['copy']))
                sk = op.get('srckind', 'dict')
                if sk == 'none':
                    data = None
                elif sk == 'ndarray':
                    # structured numpy array through NDArrayDataTableAccessor (the path every loader uses)
                    rec = np.empty((len(next(iter(data.values()))),), dtype=[(k_, v_.dtype) for k_, v_ in data.items()])
                    for k_, v_ in data.items():
                        rec[k_] = v_
                    self.args = [('structured array', rec, rec.copy(), not op['copy'])]
                    data = rec
                elif sk == 'parquet':
                    import pyarrow as pa
                    data = pa.table({k_: v_ for k_, v_ in data.items()})
                    self.args = []
                kw = {}
                if op['keep'] is not None:
                    kw['keep_fields'] = mk_keep(op)
                if op['conv']:
                    kw['dtype_conversions'] = {np.dtype(DT[a]): np.dtype(DT[b]) for a, b in op['conv']}
                if op['exc']:
                    kw['dtype_conversion_except_fields'] = [fname(n) for n in op['exc']]
                o = D(data, copy=op['copy'], **kw)
                self.objs.append(o)
                self._impl_done = True
                cols = {}
                dts = {}
                for n, b in op['cols']:
                    cols[n] = b[1]
                    dts[n] = b[0]
                length = len(next(iter(cols.values()))) if cols else 0
                convkeys = {a for a, _ in op['conv']}
                names = [n for n in cols if op['keep'] is None or n in op['keep']]
                vals = {}
                for n in names:
                    copied = op['copy'] or (n not in op['exc'] and dts[n] in convkeys)
                    v = cols[n]
                    if copied and len(v) != length and len(v) == 1:
                        v = [v[0]] * length
                    vals[n] = v
                nrows = len(vals[names[0]]) if names else 0
                rows = [{n: vals[n][i] for n in names} for i in range(nrows)]
                self.refs.append({'names': names, 'rows': rows, 'n': nrows if names else length})
            elif k == 'from':
                a = self.objs[op['src']]
                kw = {}
                if op['conv']:
                    kw['dtype_conversions'] = {np.dtype(DT[x]): np.dtype(DT[y]) for x, y in op['conv']}
                if op['exc']:
                    kw['dtype_conversion_except_fields'] = [fname(n) for n in op['exc']]
                keep = None if op['keep'] is None else mk_keep(op)
                if op.get('copyflag') is None and not kw:
                    o = a.copy(keep_fields=keep)
                else:
                    o = D(a, keep_fields=keep, copy=bool(op.get('copyflag')), **kw)
                self.objs.append(o)
                self._impl_done = True
                r = self.refs[op['src']]
                names = [n for n in r['names'] if op['keep'] is None or n in op['keep']]
                rows = [{n: row.get(n) for n in names} for row in r['rows']] if names else []
                self.refs.append({'names': names, 'rows': rows, 'n': r.get('n', len(rows)), 'undefined': r.get('undefined', False)})
            elif k == 'select':
                a = self.objs[op['src']]
                sel = self.sel(op['sel'])
                self.args.append(('selection index array', sel, sel.copy(), False))
                o = a[sel] if op.get('via_getitem') else a.get_selection(sel)
                self.objs.append(o)
                self._impl_done = True
                r = self.refs[op['src']]
                n_src = r.get('n', len(r['rows']))
                pos = self.positions(op['sel'], n_src)
                rows = [dict(r['rows'][p]) for p in pos] if (r['names'] and not r.get('undefined')) else []
                self.refs.append({'names': list(r['names']), 'rows': rows, 'n': len(pos), 'undefined': r.get('undefined', False)})
                valid = all(0 <= p < n_src for p in pos) and (op['sel'][0] != 'mask' or len(op['sel'][1]) == n_src)
                if not r['names'] and not r.get('undefined') and not valid:
                    # a plain table without columns still has rows: an index out of range must raise
                    return 'Done', ('zero-field-selection-unchecked', {'rows': n_src, 'selector': op['sel'][1][:6]})
            elif k == 'setsel':
                o = self.objs[op['t']]
                a = self.objs[op['src']]
                sel = self.sel(op['sel'])
                self.args.append(('selection index array', sel, sel.copy(), False))
                if op.get('via_setitem'):
                    o[sel] = a
                else:
                    o.set_selection(sel, a)
                self._impl_done = True
                r = self.refs[op['t']]
                ra = self.refs[op['src']]
                if ra.get('undefined'):
                    r['undefined'] = True
                pos = self.positions(op['sel'], len(r['rows']))
                src_rows = [dict(x) for x in ra['rows']]
                if r['names'] and not r.get('undefined'):
                    for j, p in enumerate(pos):
                        srow = src_rows[j] if len(src_rows) == len(pos) else src_rows[0]
                        for n in r['names']:
                            r['rows'][p][n] = srow[n]
            elif k == 'append':
                o = self.objs[op['t']]
                a = self.objs[op['src']]
                o.append(a)
                self._impl_done = True
                r = self.refs[op['t']]
                ra = self.refs[op['src']]
                if ra.get('undefined'):
                    r['undefined'] = True
                if 'n' in r and 'n' in ra:
                    r['n'] = r['n'] + ra['n']
                if r['names'] and not r.get('undefined'):
                    r['rows'] = r['rows'] + [{n: row[n] for n in r['names']} for row in ra['rows']]
            elif k in ('append_field', 'setitem'):
                o = self.objs[op['t']]
                data = self.arr(op['buf'])
                self.args.append(('field data array', data, data.copy(), True))
                if k == 'append_field':
                    o.append_field(fname(op['name']), data)
                else:
                    o[fname(op['name'])] = data
                self._impl_done = True
                r = self.refs[op['t']]
                if not r.get('undefined'):
                    if op['name'] not in r['names']:
                        if not r['names']:
                            r['rows'] = [{} for _ in op['buf'][1]]
                        r['names'].append(op['name'])
                    for row, v in zip(r['rows'], op['buf'][1]):
                        row[op['name']] = v
            elif k == 'setitem_from':
                # t[name] = src[srcname]: the live column array of one table is stored into another (by design
                # this aliases them; the no-sharing predicates are switched off for such a sequence and the
                # model, which has the same operation, predicts exactly which arrays share memory)
                self.aliased = True
                col = self.objs[op['src']][fname(op['srcname'])]
                self.objs[op['t']][fname(op['name'])] = col
                self._impl_done = True
                for i_ in (op['t'], op['src']):
                    self.refs[i_]['undefined'] = True
            elif k == 'remove':
                self.objs[op['t']].remove_field(fname(op['name']))
                self._impl_done = True
                r = self.refs[op['t']]
                if not r.get('undefined'):
                    r['names'].remove(op['name'])
                    for row in r['rows']:
                        del row[op['name']]
            elif k == 'rename':
                self.objs[op['t']].rename_fields({fname(a): fname(b) for a, b in op['conv']}, must_exist=op['must'])
                self._impl_done = True
                r = self.refs[op['t']]
                m = {a: b for a, b in op['conv'] if a in r['names']}
                new_names = [m.get(n, n) for n in r['names']]
                if r.get('undefined'):
                    pass
                elif len(set(new_names)) == len(new_names):
                    r['rows'] = [{m.get(n, n): v for n, v in row.items()} for row in r['rows']]
                    r['names'] = new_names
                else:
                    r['undefined'] = True      # not a plain-table operation: the reference gives up on this object
            elif k == 'tidy':
                self.objs[op['t']].tidy_up(mk_keep(op))
                self._impl_done = True
                r = self.refs[op['t']]
                if not r.get('undefined'):
                    r['names'] = [n for n in r['names'] if n in op['keep']]
                    r['rows'] = [{n: row[n] for n in r['names']} for row in r['rows']]
            elif k == 'sort':
                o = self.objs[op['t']]
                idx = o.sort_by_field(fname(op['name']))
                self._impl_done = True
                self.returned.append(('sort_by_field result', idx))
                perm = [int(i) for i in idx]
                op['perm'] = perm
                r = self.refs[op['t']]
                if sorted(perm) != list(range(len(o))):
                    return 'Done', ('bad-perm', perm)
                keyc = o[fname(op['name'])].tolist()
                if any(x > y for x, y in zip(keyc, keyc[1:])):
                    return 'Done', ('not-sorted', perm)
                if not r.get('undefined'):
                    r['rows'] = [r['rows'][i] for i in perm]
            elif k == 'convert':
                kw = {}
                if op['exc'] is not None:
                    kw['except_fields'] = [fname(n) for n in op['exc']]
                self.objs[op['t']].convert_dtypes({np.dtype(DT[a]): np.dtype(DT[b]) for a, b in op['conv']}, **kw)
            elif k == 'set_dtype':
                self.objs[op['t']].set_field_dtype(fname(op['name']), np.dtype(DT[op['dt']]))
            elif k == 'indices':
                o = self.objs[op['t']]
                ind = o.indices
                if ind.tolist() != list(range(len(o))):
                    return 'Done', ('indices-wrong', ind.tolist())
            else:
                raise AssertionError(k)
        except (KeyError, ValueError, IndexError, TypeError) as ex:
            if self._impl_done:
                # the exception comes from the reference bookkeeping, not from skyllh: the
                # reference gives up on the tables involved (never blame the implementation)
                while len(self.refs) < len(self.objs):
                    self.refs.append({'names': [], 'rows': [], 'undefined': True})
                if 't' in op and op['t'] < len(self.refs):
                    self.refs[op['t']]['undefined'] = True
                self.ref_gave_up = getattr(self, 'ref_gave_up', 0) + 1
                return 'Done', None
            return type(ex).__name__, None
        return 'Done', None

    @staticmethod
    def sel(s):
        if s[0] == 'idx':
            return np.array(s[1], dtype=np.int64)
        return np.array(s[1], dtype=bool)

    @staticmethod
    def positions(s, n):
        if s[0] == 'idx':
            return [i + n if i < 0 else i for i in s[1]]
        return [i for i, b in enumerate(s[1]) if b]

    # ---- observation
    def observe(self):
        out = []
        arrays = []
        for o in self.objs:
            cols = []
            for nm, a in o._data_fields.items():
                cols.append((fnum(nm), DTN.get(a.dtype, -1), self.enc(a.tolist())))
                arrays.append(a)
            ind = o._indices
            if ind is not None:
                arrays.append(ind)
            out.append(([fnum(n) for n in o.field_name_list], cols, len(o),
                        None if ind is None else (DTN.get(ind.dtype, -1), ind.tolist())))
        return out, arrays


def share_pattern(arrays):
    pat = []
    for i in range(len(arrays)):
        for j in range(i):
            if arrays[i] is arrays[j] or np.shares_memory(arrays[i], arrays[j]):
                pat.append((j, i))
    return pat


# ------------------------------------------------------------------ model side

def g_list(xs, f=str):
    return '[' + '; '.join(f(x) for x in xs) + ']'


def g_z(n):
    return common.zlit(n)


def g_buf(b):
    return f'(mkbuf {b[0]} {g_list(b[1], g_z)})'


def g_pairs(ps):
    return g_list(ps, lambda p: f'({g_z(p[0])}, {g_z(p[1])})')


def g_sel(s):
    if s[0] == 'idx':
        return f'(SIdx {g_list(s[1], g_z)})'
    return f'(SMask {g_list(s[1], lambda b: "true" if b else "false")})'


def g_keep(k):
    return 'None' if k is None else f'(Some {g_list(k, g_z)})'


def g_op(op):
    k = op['op']
    if k == 'ctor':
        cols = g_list(op['cols'], lambda c: f'({g_z(c[0])}, {g_buf(c[1])})')
        return (f'OCtor {cols} {g_keep(op["keep"])} {g_pairs(op["conv"])} {g_list(op["exc"], g_z)} '
                f'{"true" if op["copy"] else "false"}')
    if k == 'from':
        return f'OCtorFrom {op["src"]}%nat {g_keep(op["keep"])} {g_pairs(op["conv"])} {g_list(op["exc"], g_z)}'
    if k == 'select':
        return f'OSelect {op["src"]}%nat {g_sel(op["sel"])}'
    if k == 'setsel':
        return f'OSetSel {op["t"]}%nat {g_sel(op["sel"])} {op["src"]}%nat'
    if k == 'append':
        return f'OAppend {op["t"]}%nat {op["src"]}%nat'
    if k == 'append_field':
        return f'OAppendField {op["t"]}%nat {g_z(op["name"])} {g_buf(op["buf"])}'
    if k == 'setitem':
        return f'OSetItem {op["t"]}%nat {g_z(op["name"])} {g_buf(op["buf"])}'
    if k == 'remove':
        return f'ORemove {op["t"]}%nat {g_z(op["name"])}'
    if k == 'rename':
        return f'ORename {op["t"]}%nat {g_pairs(op["conv"])} {"true" if op["must"] else "false"}'
    if k == 'tidy':
        return f'OTidy {op["t"]}%nat {g_list(op["keep"], g_z)}'
    if k == 'sort':
        return f'OSort {op["t"]}%nat {g_z(op["name"])} {g_list(op.get("perm", []), g_z)}'
    if k == 'convert':
        return f'OConvert {op["t"]}%nat {g_pairs(op["conv"])} {g_list(op["exc"] or [], g_z)}'
    if k == 'set_dtype':
        return f'OSetDtype {op["t"]}%nat {g_z(op["name"])} {op["dt"]}'
    if k == 'indices':
        return f'OIndices {op["t"]}%nat'
    if k == 'setitem_from':
        return f'OSetItemFrom {op["t"]}%nat {g_z(op["name"])} {op["src"]}%nat {g_z(op["srcname"])}'
    raise AssertionError(k)


def g_seq(ops):
    return 'run_obs empty_world ' + g_list(ops, lambda o: '(' + g_op(o) + ')')


def canon_model_step(v):
    """parsed (outcome, observe w) -> (outcome string, obs, locs in traversal order)"""
    x, obs = v
    if x == 'Done':
        outc = 'Done'
    elif isinstance(x, tuple) and x[0] == 'Raised':
        outc = x[1]
    else:
        outc = 'Stuck'
    out = []
    locs = []
    for (fl, cols, ln, idx) in obs:
        cc = []
        for (nm, l, ob) in cols:
            if ob == 'None':
                cc.append((nm, 'dangling', []))
            else:
                cc.append((nm, ob[1][0], list(ob[1][1])))
            locs.append(l)
        if idx == 'None':
            ii = None
        else:
            (l, ob) = idx[1]
            locs.append(l)
            ii = 'dangling' if ob == 'None' else (ob[1][0], list(ob[1][1]))
        out.append((list(fl), cc, ln, ii))
    return outc, out, locs


def loc_pattern(locs):
    return [(j, i) for i in range(len(locs)) for j in range(i) if locs[i] == locs[j]]



# ------------------------------------------------------------------ history probes (no model needed)

def _table_state(o):
    return ([n for n in o._data_fields], [a.dtype.str for a in o._data_fields.values()],
            [a.tobytes() for a in o._data_fields.values()], len(o),
            None if o._indices is None else o._indices.tolist(), list(o._field_name_list))


def history_probes(ctx, impl, site, case, op):
    """metamorphic probes on the real objects: mutate-and-compare in both directions between all
    live arrays, arguments are inputs, returned values belong to the caller, repeat / interleave,
    fresh twin, no state shared between instances.  Every probe restores what it changes."""
    objs = impl.objs
    # (1) mutate-and-compare: add 1 to every live array exactly once, in place; if any two arrays
    #     overlap (a view of a parent, a shared column, a shared cache) some element moves by 2
    entries = []
    for oi, o in enumerate(objs):
        for nm, a in o._data_fields.items():
            entries.append((oi, nm, a))
        if o._indices is not None:
            entries.append((oi, '<indices>', o._indices))
    snaps = [a.copy() for _, _, a in entries]
    if impl.valdom:
        # cells may be NaN / huge / non-integer: negate in place (exact, an involution) and compare bytes
        try:
            for _, _, a in entries:
                np.negative(a, out=a)
            bad = [i for i, (_, _, a) in enumerate(entries) if a.tobytes() != np.negative(snaps[i]).tobytes()]
        finally:
            for _, _, a in entries:
                np.negative(a, out=a)
    else:
        try:
            for _, _, a in entries:
                np.add(a, 1, out=a, casting='unsafe')
            bad = [i for i, (_, _, a) in enumerate(entries) if not np.array_equal(a, snaps[i] + 1)]
        finally:
            for _, _, a in entries:
                np.subtract(a, 1, out=a, casting='unsafe')
    if bad and not impl.aliased:
        who = [(entries[i][0], entries[i][1]) for i in bad[:4]]
        ctx.violation(site, 'write-through-aliasing',
                      f'writing once into every live array moved elements of {who} twice: the arrays overlap '
                      '(a write through one table is seen by another table / column)',
                      case=case, impl=who, predicate='selections, copies and columns share no memory (mutate-and-compare, both directions)')
    restored = [i for i, (_, _, a) in enumerate(entries) if a.tobytes() != snaps[i].tobytes()]
    if restored and not bad:
        ctx.violation(site, 'write-through-aliasing', 'arrays not restored after the probe', case=case, impl=restored[:4])
    # (2) arguments are inputs
    live = [a for _, _, a in entries]
    for what, arr, snap, stored in getattr(impl, 'args', []):
        if arr.shape != snap.shape or arr.tobytes() != snap.tobytes():
            ctx.violation(site, 'argument-modified', f'the {what} handed to the call was changed by it',
                          case=case, impl=arr.tolist()[:10], predicate='arguments are inputs')
        if not stored and any(arr is b or np.shares_memory(arr, b) for b in live):
            ctx.violation(site, 'argument-aliased', f'the {what} is aliased by a table afterwards',
                          case=case, predicate='the table keeps no reference to its index / copied input arrays')
    # (3) returned values are owned by the caller
    for what, arr in getattr(impl, 'returned', []):
        if any(arr is b or np.shares_memory(arr, b) for b in live):
            ctx.violation(site, 'returned-array-aliased', f'the {what} shares memory with the table',
                          case=case, predicate='returned arrays are owned by the caller')
    # (4) repeat / interleave / fresh twin on the tables touched by this step
    touched = set()
    for key in ('t', 'src'):
        if key in op and op[key] < len(objs):
            touched.add(op[key])
    if op['op'] in ('ctor', 'from', 'select') and objs:
        touched.add(len(objs) - 1)
    for oi in sorted(touched):
        o = objs[oi]
        if o.field_name_list != list(o._data_fields) or any(len(a) != len(o) for a in o._data_fields.values()):
            continue                    # already reported by the invariants
        before = _table_state(o)
        try:
            rec1 = o.as_numpy_record_array()
            twin = o.copy()
            keep1 = o.copy(keep_fields=o.field_name_list[:1]) if o.field_name_list else None
            rec2 = o.as_numpy_record_array()
            n1, n2 = len(o), len(o)
            f1, f2 = list(o.field_name_list), list(o.field_name_list)
        except Exception as ex:
            ctx.violation(site, 'accessor-raises', f'object {oi}: {type(ex).__name__}: {ex}', case=case)
            continue
        if rec1.dtype != rec2.dtype or rec1.tobytes() != rec2.tobytes() or n1 != n2 or f1 != f2:
            ctx.violation(site, 'repeat-differs', f'object {oi}: two identical reads differ', case=case,
                          predicate='an observable is a function of the current table only')
        if _table_state(o) != before:
            ctx.violation(site, 'observer-changed-state', f'object {oi}: copy()/as_numpy_record_array changed the table',
                          case=case, predicate='observers do not modify the table')
        tw = _table_state(twin)
        # (a table whose last field was removed keeps its length; its copy has no column to take a length from)
        if tw[3] != before[3] and not before[0]:
            ctx.violation('DataFieldRecordArray.__init__', 'zero-field-table-loses-length',
                          f'object {oi} has no field and len {before[3]}; its copy() has len {tw[3]}',
                          case=case, impl=tw[3], predicate='copy() is an equal, independent table')
        same_len = tw[3] == before[3] or not before[0]
        if (tw[0], tw[1], tw[2], tw[5]) != (before[0], before[1], before[2], before[5]) or not same_len or twin._indices is not None:
            ctx.violation(site, 'copy-twin-differs', f'object {oi}: copy() differs from its origin', case=case,
                          impl=tw[:3], predicate='copy() is an equal, independent table')
        cols = list(o._data_fields.values()) + ([o._indices] if o._indices is not None else [])
        outs = list(twin._data_fields.values()) + [rec1, rec2] + (list(keep1._data_fields.values()) if keep1 is not None else [])
        if np.shares_memory(rec1, rec2) or any(np.shares_memory(x, c) for x in outs for c in cols):
            ctx.violation(site, 'returned-array-aliased', f'object {oi}: copy()/as_numpy_record_array share memory with the table '
                          'or with each other', case=case, predicate='returned arrays are owned by the caller')
        # write into what was returned, the table must not move
        for nm in (rec1.dtype.names or []):
            rec1[nm] = -rec1[nm]
        for a in twin._data_fields.values():
            np.negative(a, out=a)
        if _table_state(o) != before:
            ctx.violation(site, 'returned-array-aliased', f'object {oi}: writing into a copy / record array changed the table',
                          case=case, predicate='returned arrays are owned by the caller')
    # (5) no state shared between instances
    ids = {}
    for oi, o in enumerate(objs):
        for what, x in (('_data_fields', o._data_fields), ('_field_name_list', o._field_name_list)):
            if id(x) in ids:
                ctx.violation(site, 'shared-instance-state', f'objects {ids[id(x)]} and {oi} share their {what}',
                              case=case, predicate='every table owns its dict and its field name list')
            ids[id(x)] = oi

# ------------------------------------------------------------------ predicates on the implementation

def predicates(ctx, impl, ops, stepno, outcome, extra, before):
    """the property itself, evaluated on the real objects against the plain-table reference"""
    op = ops[stepno]
    case = {'ops': ops[:stepno + 1]}
    site = 'DataFieldRecordArray.' + op['op']
    if extra is not None:
        ctx.violation(site, extra[0], str(extra[1])[:200], case=case, impl=extra[1],
                      predicate='returned index array is arange / a sorting permutation')
    obs, arrays = impl.observe()
    for oi, (o, r) in enumerate(zip(impl.objs, impl.refs)):
        keysl = list(o._data_fields.keys())
        n = len(o)
        for nm, a in o._data_fields.items():
            if len(a) != n:
                ctx.violation(site, 'column-length-differs', f'object {oi}: len({nm})={len(a)} but len={n}',
                              case=case, impl=obs[oi], predicate='all columns have length len(obj)')
        if o.field_name_list != keysl or len(set(keysl)) != len(keysl):
            ctx.violation(site, 'field-name-list-out-of-sync', f'object {oi}: {o.field_name_list} vs {keysl}',
                          case=case, impl=obs[oi], predicate='field_name_list == list(data fields)')
        if o._indices is not None and o._indices.tolist() != list(range(n)):
            ctx.violation(site, 'stale-indices', f'object {oi}: cached indices {o._indices.tolist()[:8]} len={n}',
                          case=case, impl=obs[oi], predicate='indices cache is None or arange(len)')
        if r.get('undefined'):
            continue
        if sorted(fnum(k) for k in keysl) != sorted(r['names']):
            ctx.violation(site, 'wrong-field-set', f'object {oi}: fields {keysl}, plain table has {r["names"]}',
                          case=case, impl=obs[oi], predicate='field set equals the plain table')
            continue
        want_n = r.get('n', len(r['rows']))
        if n != want_n:
            if r['names']:
                ctx.violation(site, 'wrong-length', f'object {oi}: len {n}, plain table has {want_n} rows',
                              case=case, impl=obs[oi], predicate='length equals the plain table')
            else:
                # narrow signature: a table WITHOUT fields that came out of the constructor (copy, keep_fields
                # filtering everything, selection) forgets its number of rows
                ctx.violation('DataFieldRecordArray.__init__', 'zero-field-table-loses-length',
                              f'object {oi} has no field; len {n}, the plain table has {want_n} rows',
                              case=case, impl=obs[oi], predicate='length equals the plain table (also without columns)')
            r['n'] = n            # re-synchronise: report once
            continue
        for nm in r['names']:
            col = impl.enc(o[fname(nm)].tolist()) if fname(nm) in o else None
            want = [row[nm] for row in r['rows']]
            if col is None or len(col) != len(want) or any(float(x) != float(y) for x, y in zip(col, want)):
                ctx.violation(site, 'rows-misaligned', f'object {oi} column {nm}: {str(col)[:80]} expected {str(want)[:80]}',
                              case=case, impl=obs[oi], predicate='every column equals the plain table column (rows aligned)')
                break
    # public accessors agree with the state (checked on every live object)
    for oi, o in enumerate(impl.objs):
        try:
            ok = True
            names = list(o._data_fields.keys())
            for nm in [fname(i) for i in range(8)]:
                if (nm in o) != (nm in names):
                    ok = False
            for nm in names:
                if o[nm] is not o._data_fields[nm] or o.get_field_dtype(nm) != o._data_fields[nm].dtype:
                    ok = False
            if all(len(a) == len(o) for a in o._data_fields.values()) and o.field_name_list == names:
                rec = o.as_numpy_record_array()
                if list(rec.dtype.names or []) != names or len(rec) != (len(o) if names else len(rec)):
                    ok = False
                for nm in names:
                    if rec[nm].dtype != o._data_fields[nm].dtype or rec[nm].tobytes() != o._data_fields[nm].tobytes():
                        ok = False
            if not ok:
                ctx.violation(site, 'accessor-inconsistent', f'object {oi}: __contains__/__getitem__/get_field_dtype/'
                              'as_numpy_record_array disagree with the data fields', case=case, impl=obs[oi],
                              predicate='public accessors reflect the table')
        except Exception as ex:          # an accessor that raises on a consistent table
            ctx.violation(site, 'accessor-raises', f'object {oi}: {type(ex).__name__}: {ex}', case=case, impl=obs[oi],
                          predicate='public accessors work on every reachable table')
    history_probes(ctx, impl, site, case, op)
    pat = share_pattern(arrays)
    if pat and not impl.aliased:
        ctx.violation(site, 'shared-memory', f'column arrays share memory: positions {pat[:4]}',
                      case=case, impl=pat, predicate='no two columns / objects share memory')
    if outcome != 'Done' and before is not None and before != obs:
        ctx.violation(site, 'failed-op-changed-state', f'{outcome} raised but the observable state changed',
                      case=case, impl=obs, predicate='a failed operation leaves every table unchanged')
    return obs, arrays


def rename_collision_predicate(ctx, impl, ops, stepno, outcome, names_before):
    """a renaming that is well defined on a plain table (simultaneous substitution gives
    duplicate-free names) must not lose a column"""
    op = ops[stepno]
    if op['op'] != 'rename' or outcome != 'Done':
        return
    m = {a: b for a, b in op['conv'] if a in names_before}
    new = [m.get(n, n) for n in names_before]
    if len(set(new)) != len(new):
        if len(impl.objs[op['t']]._data_fields) < len(names_before):
            ctx.violation('DataFieldRecordArray.rename_fields', 'column-lost-on-colliding-rename',
                          f'fields {names_before} renamed by {op["conv"]}: {len(names_before)} fields before, '
                          f'{len(impl.objs[op["t"]]._data_fields)} after, no exception',
                          case={'ops': ops[:stepno + 1]}, impl=list(impl.objs[op['t']]._data_fields),
                          predicate='renaming never loses a column silently')
        return
    have = sorted(fnum(k) for k in impl.objs[op['t']]._data_fields)
    if have != sorted(new):
        ctx.violation('DataFieldRecordArray.rename_fields', 'column-lost-on-overlapping-rename',
                      f'fields {names_before} renamed by {op["conv"]} give {have}, expected {sorted(new)}',
                      case={'ops': ops[:stepno + 1]}, impl=have,
                      predicate='a simultaneous renaming with duplicate-free result keeps every column')


# ------------------------------------------------------------------ running one sequence

def run_sequence(ctx, DFRA, ops_or_gen, maxlen=None, stop_on_fail=False, valdom=None):
    """ops_or_gen: list of ops, or a generator function (impl, rng-state) -> op.
    Returns (ops, trace) with trace[i] = (outcome, obs, share pattern)."""
    impl = Impl(DFRA, valdom)
    ops = []
    trace = []
    before = None
    it = iter(ops_or_gen) if isinstance(ops_or_gen, list) else None
    while True:
        if it is not None:
            try:
                op = next(it)
            except StopIteration:
                break
        else:
            if len(ops) >= maxlen:
                break
            op = ops_or_gen(impl)
            if op is None:
                break
        op = dict(op)
        ops.append(op)
        names_before = None
        if op['op'] == 'rename' and op['t'] < len(impl.refs):
            names_before = [fnum(k) for k in impl.objs[op['t']]._data_fields]
        try:
            outcome, extra = impl.step(op)
        except IndexError:
            outcome, extra = 'IndexError', None
        ctx.count(f'op:{op["op"]}:{"ok" if outcome == "Done" else outcome}')
        obs, arrays = predicates(ctx, impl, ops, len(ops) - 1, outcome, extra, before)
        if names_before is not None:
            rename_collision_predicate(ctx, impl, ops, len(ops) - 1, outcome, names_before)
        trace.append((outcome, obs, share_pattern(arrays)))
        before = obs
        if stop_on_fail and outcome != 'Done':
            break
    if getattr(impl, 'ref_gave_up', 0):
        ctx.count('reference_bookkeeping_gave_up', impl.ref_gave_up)
    if len(RECOBS) < REC_LIMIT[0] and len(ops) <= 20 and all(len(o) <= 60 for o in impl.objs):
        RECOBS[id(trace)] = rec_observe(impl)
    return ops, trace


def compare_sequence(ctx, ops, trace, val):
    ctx.corr_cases += 1
    if len(val) != len(trace):
        ctx.disagree('DataFieldRecordArray.sequence', {'ops': ops}, len(trace), len(val), 'trace length differs')
        return
    for i, ((outc, obs, pat), mv) in enumerate(zip(trace, val)):
        try:
            m_out, m_obs, locs = canon_model_step(mv)
        except Exception as ex:          # unparsable model value
            ctx.disagree('DataFieldRecordArray.sequence', {'ops': ops[:i + 1]}, outc, repr(mv)[:300], f'unparsed: {ex}')
            return
        site = 'DataFieldRecordArray.' + ops[i]['op']
        if m_out != outc:
            ctx.disagree(site, {'ops': ops[:i + 1]}, outc, m_out, f'outcome of step {i} differs')
            return
        i_obs = [(fl, [(n, d, [float(x) for x in v]) for n, d, v in cols], ln,
                  None if ii is None else (ii[0], list(ii[1]))) for fl, cols, ln, ii in obs]
        mm_obs = [(fl, [(n, d, [float(x) for x in v]) for n, d, v in cols], ln, ii) for fl, cols, ln, ii in m_obs]
        if i_obs != mm_obs:
            ctx.disagree(site, {'ops': ops[:i + 1]}, obs, m_obs, f'observation after step {i} differs')
            return
        if loc_pattern(locs) != pat:
            ctx.disagree(site, {'ops': ops[:i + 1]}, pat, loc_pattern(locs), f'memory sharing pattern after step {i} differs')
            return


# ------------------------------------------------------------------ generators

def rand_vals(rng, n, lo=-40, hi=40):
    return [rng.randint(lo, hi) for _ in range(n)]


def rand_len(rng):
    return rng.choice([0, 0, 1, 1, 2, 2, 3, 3, 4, 5, 7, 8, 13, 20, 33, 50])


def rand_keep(ctx, rng, present):
    """keep_fields: None / empty / single / all / only unknown names / mixed, in every container kind"""
    r = rng.random()
    absent = [n for n in range(8) if n not in present]
    if r < 0.4:
        ctx.count('keep:None')
        return None, 'list'
    kind = rng.choice(['list', 'list', 'tuple', 'ndarray'])
    if r < 0.52 or not present:
        ctx.count('keep:empty-' + kind)
        return [], kind
    if r < 0.64:
        ctx.count('keep:single')
        return [rng.choice(present)], rng.choice([kind, 'str'])
    if r < 0.74:
        ctx.count('keep:all')
        ks = list(present)
        rng.shuffle(ks)
        return ks, kind
    if r < 0.82 and absent:
        ctx.count('keep:unknown-only')
        return rng.sample(absent, rng.randint(1, min(2, len(absent)))), kind
    ctx.count('keep:mixed')
    return rng.sample(range(8), rng.randint(1, 4)), kind


def rand_conv(rng):
    r = rng.random()
    if r < 0.4:
        return []
    ks = rng.sample(range(4), rng.randint(1, 3))
    return [(k, rng.randrange(4)) for k in ks]


def gen_random_op(ctx, rng, impl, malformed_p):
    objs = impl.objs
    bad = rng.random() < malformed_p
    if not objs or (len(objs) < 2 and rng.random() < 0.3):
        kind = 'ctor'
    else:
        kind = rng.choice(['ctor', 'from', 'from', 'select', 'select', 'select', 'setsel', 'setsel', 'setsel',
                           'append', 'append', 'append', 'append_field', 'append_field', 'setitem', 'remove',
                           'rename', 'rename', 'tidy', 'sort', 'sort', 'sort', 'convert', 'set_dtype', 'indices',
                           'indices'])
    if kind in ('ctor', 'from', 'select') and len(objs) >= MAXOBJ:
        kind = rng.choice(['setsel', 'append', 'sort', 'indices', 'rename', 'append_field', 'remove'])
    if bad:
        ctx.count('malformed_ops')

    def pick():
        return rng.randrange(len(objs))

    def names_of(i):
        return [fnum(k) for k in objs[i]._data_fields]

    def fresh_name(i):
        c = [n for n in range(8) if n not in names_of(i)]
        return rng.choice(c) if c else 7

    def a_name(i, wrong=False):
        ns = names_of(i)
        if wrong or not ns:
            return fresh_name(i)
        return rng.choice(ns)

    if kind == 'ctor':
        nf = rng.randint(1, 5)
        n = rand_len(rng)
        names = rng.sample(range(8), nf)
        cols = [(nm, (rng.randrange(4), rand_vals(rng, n))) for nm in names]
        if bad and nf > 1:
            j = rng.randrange(nf)
            m = rng.choice([1, n + 1, max(0, n - 1), 0])
            cols[j] = (cols[j][0], (cols[j][1][0], rand_vals(rng, m)))
        keep, kk = rand_keep(ctx, rng, names)
        conv = rand_conv(rng) if rng.random() < 0.4 else []
        exc = rng.sample(names, rng.randint(0, 1)) if conv else []
        o_ = {'op': 'ctor', 'cols': cols, 'keep': keep, 'keepkind': kk, 'conv': conv, 'exc': exc, 'copy': rng.random() < 0.5}
        if len({len(c[1][1]) for c in cols}) == 1:
            r_ = rng.random()
            if r_ < 0.3:
                o_['srckind'] = 'ndarray'
            elif r_ < 0.42:
                o_['srckind'] = 'parquet'
                o_['copy'] = True
            ctx.count('ctor_source:' + o_.get('srckind', 'dict'))
        return o_
    if kind == 'from':
        s = pick()
        keep, kk = rand_keep(ctx, rng, names_of(s))
        conv = rand_conv(rng) if rng.random() < 0.3 else []
        exc = rng.sample(range(8), 1) if conv and rng.random() < 0.5 else []
        return {'op': 'from', 'src': s, 'keep': keep, 'keepkind': kk, 'conv': conv, 'exc': exc, 'copyflag': rng.choice([None, True, False])}
    if kind == 'select':
        s = pick()
        return {'op': 'select', 'src': s, 'sel': rand_sel(rng, len(objs[s]), None, bad, ctx), 'via_getitem': rng.random() < 0.3}
    if kind == 'setsel':
        t = pick()
        s = pick()
        k = len(objs[s])
        n = len(objs[t])
        want = None if (bad or rng.random() < 0.1) else k
        if k == 1 and rng.random() < 0.5:
            want = None       # broadcasting
        return {'op': 'setsel', 't': t, 'src': s, 'sel': rand_sel(rng, n, want, bad, ctx), 'via_setitem': rng.random() < 0.3}
    if kind == 'append':
        t = pick()
        if len(objs[t]) > MAXLEN:
            return {'op': 'indices', 't': t}
        return {'op': 'append', 't': t, 'src': pick()}
    if kind in ('append_field', 'setitem'):
        t = pick()
        n = len(objs[t])
        if bad and rng.random() < 0.6:
            n = rng.choice([n + 1, max(0, n - 1), 1])
        if kind == 'append_field':
            nm = a_name(t, wrong=not (bad and rng.random() < 0.5))
        else:
            nm = a_name(t, wrong=rng.random() < 0.4)
        return {'op': kind, 't': t, 'name': nm, 'buf': (rng.randrange(4), rand_vals(rng, n))}
    if kind == 'remove':
        t = pick()
        return {'op': 'remove', 't': t, 'name': a_name(t, wrong=bad)}
    if kind == 'rename':
        t = pick()
        ns = names_of(t)
        k = rng.randint(1, 3)
        olds = rng.sample(range(8), k) if (bad or rng.random() < 0.2) else rng.sample(ns, min(k, len(ns)))
        if bad and rng.random() < 0.7:
            news = [rng.randrange(8) for _ in olds]          # collisions / swaps / chains
        else:
            free = [n for n in range(8) if n not in ns]
            rng.shuffle(free)
            news = free[:len(olds)]
            olds = olds[:len(news)]
        return {'op': 'rename', 't': t, 'conv': list(zip(olds, news)), 'must': rng.random() < 0.4}
    if kind == 'tidy':
        t = pick()
        kp = rng.sample(range(8), rng.randint(1, 6))
        kk = rng.choice(['list', 'list', 'tuple', 'ndarray'])
        if rng.random() < 0.25:
            ns_ = names_of(t)
            kp, kk = [rng.choice(ns_) if ns_ and rng.random() < 0.8 else rng.randrange(8)], 'str'
        return {'op': 'tidy', 't': t, 'keep': kp, 'keepkind': kk}
    if kind == 'sort':
        t = pick()
        return {'op': 'sort', 't': t, 'name': a_name(t, wrong=bad)}
    if kind == 'convert':
        t = pick()
        return {'op': 'convert', 't': t, 'conv': rand_conv(rng) or [(3, 1)],
                'exc': None if rng.random() < 0.5 else rng.sample(range(8), rng.randint(0, 2))}
    if kind == 'set_dtype':
        t = pick()
        return {'op': 'set_dtype', 't': t, 'name': a_name(t, wrong=bad), 'dt': rng.randrange(4)}
    return {'op': 'indices', 't': pick()}


def to_valdom(rng, op, valdom):
    """restrict a generated op to the value-domain stream: one dtype everywhere, no conversion, cells = tokens"""
    dt, pool = POOL[valdom]
    n = len(pool)

    def toks(k):
        return [rng.randrange(n) for _ in range(k)]
    op = dict(op)
    if op['op'] in ('convert', 'set_dtype'):
        return {'op': 'indices', 't': op['t']}
    if op['op'] == 'ctor':
        op['cols'] = [(nm, (dt, toks(len(b[1])))) for nm, b in op['cols']]
        op['conv'], op['exc'] = [], []
    if op['op'] == 'from':
        op['conv'], op['exc'] = [], []
    if 'buf' in op:
        op['buf'] = (dt, toks(len(op['buf'][1])))
    return op


def rand_sel(rng, n, want, bad, ctx=None):
    """selector on a table with n rows selecting `want` rows (None: any number).  Kinds: boolean
    masks (all-True, all-False, mixed), integer arrays: contiguous ascending (from 0, inner block,
    negative block), contiguous descending, strided, scattered, with duplicates, empty, single, full arange."""
    def tag(kind, v):
        if ctx is not None:
            ctx.count('sel:' + kind)
        return v
    use_mask = rng.random() < 0.35
    if use_mask and n > 0:
        if bad and rng.random() < 0.5:
            m = n + rng.choice([-1, 1, 2])
            return tag('mask-wrong-length', ('mask', [rng.random() < 0.5 for _ in range(max(1, m))]))
        if want is not None and want <= n:
            if want == n:
                return tag('mask-all-true', ('mask', [True] * n))
            mask = [True] * want + [False] * (n - want)
            if rng.random() < 0.3:
                st = rng.randint(0, n - want)
                mask = [st <= i < st + want for i in range(n)]         # contiguous block of True
            else:
                rng.shuffle(mask)
            return tag('mask-count', ('mask', mask))
        r = rng.random()
        if r < 0.2:
            return tag('mask-all-true', ('mask', [True] * n))
        if r < 0.35:
            return tag('mask-all-false', ('mask', [False] * n))
        return tag('mask-mixed', ('mask', [rng.random() < 0.5 for _ in range(n)]))
    if n == 0:
        if bad:
            return tag('idx-out-of-range', ('idx', [rng.randint(-1, 1) for _ in range(max(1, want or 1))]))
        return tag('idx-empty', ('idx', []))
    k = want if want is not None else rng.choice([0, 1, 1, 2, 2, 3, 3, n, n, max(1, n - 1), n + 2])
    kind = rng.choice(['contig-asc', 'contig-asc', 'contig-asc', 'contig-from0', 'contig-neg', 'contig-desc',
                       'strided', 'scattered-sorted', 'scattered', 'scattered', 'dups', 'arange'])
    if k == 0:
        idx, kind = [], 'empty'
    elif kind == 'arange' and want is None:
        idx = list(range(n))
    elif kind in ('contig-asc', 'contig-from0', 'contig-neg', 'contig-desc') and k <= n:
        st = 0 if kind == 'contig-from0' else rng.randint(0, n - k)
        idx = list(range(st, st + k))
        if kind == 'contig-neg':
            idx = [i - n for i in idx]
        if kind == 'contig-desc':
            idx = idx[::-1]
    elif kind == 'strided' and 2 * k - 1 <= n:
        st = rng.randint(0, n - (2 * k - 1))
        idx = list(range(st, st + 2 * k - 1, 2))
    elif kind == 'scattered-sorted':
        idx = sorted(rng.randint(0, n - 1) for _ in range(k))
    elif kind == 'dups':
        v = rng.randint(-n, n - 1)
        idx = [v if rng.random() < 0.5 else rng.randint(-n, n - 1) for _ in range(k)]
    else:
        kind = 'scattered'
        idx = [rng.randint(-n, n - 1) for _ in range(k)]
    if k == 1:
        kind = 'single'
    if bad and idx and rng.random() < 0.7:
        idx[rng.randrange(len(idx))] = rng.choice([n, -n - 1, n + 5])
        kind = 'idx-out-of-range'
    return tag('idx-' + kind, ('idx', idx))


# ---- bounded-exhaustive alphabet: letters are functions of the current implementation state

def alphabet(full):
    def last(impl):
        return len(impl.objs) - 1

    def n0(impl):
        return len(impl.objs[0])

    A = {
        'append01': lambda im: {'op': 'append', 't': 0, 'src': 1},
        'addcol': lambda im: {'op': 'append_field', 't': 0, 'name': 2, 'buf': (1, list(range(10, 10 + n0(im))))},
        'remove0': lambda im: {'op': 'remove', 't': 0, 'name': 0},
        'rename13': lambda im: {'op': 'rename', 't': 0, 'conv': [(1, 3), (5, 6)], 'must': False},
        'select': lambda im: ({'op': 'select', 'src': 0, 'sel': ('idx', [-1, 0])} if len(im.objs) < MAXOBJ else None),
        'selblock': lambda im: ({'op': 'select', 'src': 0, 'sel': ('idx', list(range(0, min(2, n0(im)))))}
                                if len(im.objs) < MAXOBJ else None),
        'selmask': lambda im: ({'op': 'select', 'src': 0, 'sel': ('mask', [True] * n0(im)), 'via_getitem': True}
                               if len(im.objs) < MAXOBJ else None),
        'setsel0L': lambda im: {'op': 'setsel', 't': 0, 'src': last(im), 'sel': ('idx', [0, -1][:len(im.objs[last(im)])] if len(im.objs[last(im)]) <= 2 else [0])},
        'sort': lambda im: {'op': 'sort', 't': 0, 'name': fnum(im.objs[0].field_name_list[-1]) if im.objs[0].field_name_list else 0},
        'copy': lambda im: ({'op': 'from', 'src': 0, 'keep': None, 'conv': [], 'exc': []} if len(im.objs) < MAXOBJ else None),
        'indices': lambda im: {'op': 'indices', 't': 0},
        'copyempty': lambda im: ({'op': 'from', 'src': 0, 'keep': [], 'keepkind': 'tuple', 'conv': [], 'exc': []}
                                 if len(im.objs) < MAXOBJ else None),
        'copyone': lambda im: ({'op': 'from', 'src': 0, 'keep': [fnum(n) for n in im.objs[0].field_name_list[:1]],
                                'keepkind': 'ndarray', 'conv': [], 'exc': []} if len(im.objs) < MAXOBJ else None),
        'setselL0': lambda im: {'op': 'setsel', 't': last(im), 'src': 0,
                                'sel': ('mask', [i < n0(im) for i in range(len(im.objs[last(im)]))])},
    }
    if full:
        A.update({
            'tidy': lambda im: {'op': 'tidy', 't': 0, 'keep': [0, 2, 3]},
            'convert': lambda im: {'op': 'convert', 't': 0, 'conv': [(3, 1), (0, 2)], 'exc': [2]},
            'append10': lambda im: {'op': 'append', 't': 1, 'src': 0},
            'setitem1': lambda im: {'op': 'setitem', 't': 0, 'name': 1, 'buf': (0, list(range(5, 5 + n0(im))))},
        })
    return A


INIT = [
    {'op': 'ctor', 'cols': [(0, (0, [2, 1])), (1, (3, [7, 7]))], 'keep': None, 'conv': [], 'exc': [], 'copy': True},
    {'op': 'ctor', 'cols': [(1, (2, [4])), (0, (1, [0])), (2, (0, [9]))], 'keep': None, 'conv': [], 'exc': [], 'copy': False},
]


def exhaustive(ctx, DFRA, letters, depth, prune):
    """all words of length `depth` over `letters` (a failed step ends the word when prune)"""
    A = alphabet(True)
    seqs = []
    seen = 0
    for word in itertools.product(letters, repeat=depth):
        state = {'i': 0}

        def gen(impl, word=word, state=state):
            j = state['i'] - len(INIT)
            state['i'] += 1
            if j < 0:
                return INIT[state['i'] - 1]
            if j >= len(word):
                return None
            return A[word[j]](impl)
        ops, trace = run_sequence(ctx, DFRA, gen, maxlen=len(INIT) + depth, stop_on_fail=False)
        seen += 1
        if prune:
            # a failed step leaves the state unchanged: the continuation is covered by the shorter word
            fails = [i for i, t in enumerate(trace) if t[0] != 'Done' and i >= len(INIT)]
            if fails and fails[0] < len(trace) - 1:
                ctx.count('exhaustive_pruned')
                continue
        seqs.append((ops, trace))
    ctx.count(f'exhaustive_words_depth{depth}', seen)
    return seqs


def corpus():
    """inputs of the defects fixed in /repo (d68bdf4, 37af686, f023ca8, a08f9c2, 4f30bc8)"""
    two = {'op': 'ctor', 'cols': [(0, (0, [1, 2, 3])), (1, (3, [4, 5, 6]))], 'keep': None, 'conv': [], 'exc': [], 'copy': True}
    lack = {'op': 'ctor', 'cols': [(0, (0, [9]))], 'keep': None, 'conv': [], 'exc': [], 'copy': True}
    return [
        [two, lack, {'op': 'append', 't': 0, 'src': 1}, {'op': 'indices', 't': 0}],
        [two, lack, {'op': 'setsel', 't': 0, 'src': 1, 'sel': ('idx', [1])}, {'op': 'sort', 't': 0, 'name': 1}],
        [two, {'op': 'rename', 't': 0, 'conv': [(0, 5), (7, 6)], 'must': True}, {'op': 'from', 'src': 0, 'keep': None, 'conv': [], 'exc': []},
         {'op': 'select', 'src': 0, 'sel': ('mask', [True, False, True])}],
        [two, {'op': 'from', 'src': 0, 'keep': None, 'conv': [(0, 2)], 'exc': [], 'copyflag': False},
         {'op': 'setsel', 't': 1, 'src': 1, 'sel': ('idx', [2, 1, 0])}, {'op': 'from', 'src': 0, 'keep': [1], 'conv': [(1, 2)], 'exc': [], 'copyflag': False},
         {'op': 'setsel', 't': 2, 'src': 2, 'sel': ('idx', [2, 1, 0])}],
        # overlapping renames: swap, chain (4f30bc8)
        [two, {'op': 'rename', 't': 0, 'conv': [(0, 1), (1, 0)], 'must': True}, {'op': 'sort', 't': 0, 'name': 1},
         {'op': 'rename', 't': 0, 'conv': [(1, 0), (0, 3)], 'must': False}, {'op': 'from', 'src': 0, 'keep': None, 'conv': [], 'exc': []}],
        # every index kind, then write through the selection and through the parent (both directions)
        [{'op': 'ctor', 'cols': [(0, (2, list(range(10, 18)))), (1, (3, list(range(1, 9))))], 'keep': None, 'conv': [], 'exc': [], 'copy': True},
         {'op': 'ctor', 'cols': [(0, (2, [-1, -2, -3])), (1, (3, [-4, -5, -6]))], 'keep': None, 'conv': [], 'exc': [], 'copy': True},
         {'op': 'select', 'src': 0, 'sel': ('idx', [2, 3, 4])},
         {'op': 'setsel', 't': 2, 'src': 1, 'sel': ('idx', [0, 1, 2])},
         {'op': 'setsel', 't': 0, 'src': 1, 'sel': ('idx', [2, 3, 4])},
         {'op': 'select', 'src': 0, 'sel': ('idx', [0, 1, 2, 3, 4, 5, 6, 7]), 'via_getitem': True},
         {'op': 'setsel', 't': 3, 'src': 1, 'sel': ('mask', [True, False, True, False, True, False, False, False]), 'via_setitem': True},
         {'op': 'select', 'src': 0, 'sel': ('idx', [-3, -2, -1])},
         {'op': 'setsel', 't': 0, 'src': 1, 'sel': ('idx', [5, 6, 7])}],
        [{'op': 'ctor', 'cols': [(0, (0, [5, 4, 3, 2, 1, 0]))], 'keep': None, 'conv': [], 'exc': [], 'copy': False},
         {'op': 'select', 'src': 0, 'sel': ('idx', [4, 3, 2])}, {'op': 'select', 'src': 0, 'sel': ('idx', [0, 2, 4])},
         {'op': 'select', 'src': 0, 'sel': ('mask', [True] * 6)}, {'op': 'select', 'src': 0, 'sel': ('mask', [False] * 6)},
         {'op': 'setsel', 't': 1, 'src': 2, 'sel': ('idx', [0, 1, 2])}, {'op': 'setsel', 't': 0, 'src': 1, 'sel': ('idx', [1, 2, 3])}],
        # keep_fields: empty list / tuple / ndarray keep NOTHING, None keeps all, unknown names are ignored
        [two, {'op': 'from', 'src': 0, 'keep': [], 'keepkind': 'list', 'conv': [], 'exc': []},
         {'op': 'from', 'src': 0, 'keep': [], 'keepkind': 'tuple', 'conv': [], 'exc': []},
         {'op': 'from', 'src': 0, 'keep': [], 'keepkind': 'ndarray', 'conv': [(0, 2)], 'exc': [], 'copyflag': False},
         {'op': 'from', 'src': 0, 'keep': [1], 'keepkind': 'str', 'conv': [], 'exc': []}],
        [{'op': 'ctor', 'cols': [(0, (0, [1, 2])), (1, (3, [3, 4]))], 'keep': [], 'keepkind': 'list', 'conv': [], 'exc': [], 'copy': True},
         {'op': 'ctor', 'cols': [(0, (0, [1, 2])), (1, (3, [3, 4]))], 'keep': [], 'keepkind': 'ndarray', 'conv': [], 'exc': [], 'copy': False},
         {'op': 'ctor', 'cols': [(0, (0, [1, 2])), (1, (3, [3, 4]))], 'keep': [5, 6], 'keepkind': 'tuple', 'conv': [], 'exc': [], 'copy': True},
         {'op': 'ctor', 'cols': [(0, (0, [1, 2])), (1, (3, [3, 4]))], 'keep': [1, 0], 'keepkind': 'ndarray', 'conv': [(3, 1), (1, 0)], 'exc': [], 'copy': False},
         {'op': 'append', 't': 0, 'src': 3}, {'op': 'append_field', 't': 0, 'name': 4, 'buf': (1, [])}],
        # constructor from a structured array / a pyarrow table / None; tidy_up with a str / tuple / ndarray
        [{'op': 'ctor', 'cols': [(3, (0, [3, 1, 2])), (0, (3, [30, 10, 20])), (5, (2, [7, 8, 9]))], 'keep': None, 'conv': [], 'exc': [], 'copy': True, 'srckind': 'ndarray'},
         {'op': 'ctor', 'cols': [(3, (0, [3, 1, 2])), (0, (3, [30, 10, 20])), (5, (2, [7, 8, 9]))], 'keep': [5, 3], 'keepkind': 'tuple', 'conv': [(2, 3)], 'exc': [], 'copy': False, 'srckind': 'ndarray'},
         {'op': 'ctor', 'cols': [(3, (0, [3, 1, 2])), (0, (3, [30, 10, 20])), (5, (2, [7, 8, 9]))], 'keep': None, 'conv': [(3, 1)], 'exc': [5], 'copy': True, 'srckind': 'parquet'},
         {'op': 'ctor', 'cols': [], 'keep': None, 'conv': [], 'exc': [], 'copy': True, 'srckind': 'none'},
         {'op': 'append', 't': 0, 'src': 2}, {'op': 'tidy', 't': 0, 'keep': [0], 'keepkind': 'str'},
         {'op': 'tidy', 't': 2, 'keep': [5, 0], 'keepkind': 'ndarray'}, {'op': 'tidy', 't': 1, 'keep': [3], 'keepkind': 'tuple'},
         {'op': 'append_field', 't': 3, 'name': 1, 'buf': (3, [])}, {'op': 'setsel', 't': 1, 'src': 1, 'sel': ('idx', [2, 0, 1])}],
        # a table beyond 4096 rows (size-gated code paths)
        [{'op': 'ctor', 'cols': [(0, (2, [(i * 7919) % 4501 - 2000 for i in range(4500)])), (1, (3, [i % 37 for i in range(4500)]))],
          'keep': None, 'conv': [], 'exc': [], 'copy': True, 'srckind': 'ndarray'},
         {'op': 'select', 'src': 0, 'sel': ('idx', list(range(100, 4400)))},
         {'op': 'setsel', 't': 0, 'src': 1, 'sel': ('idx', list(range(150, 4450)))},
         {'op': 'sort', 't': 0, 'name': 0}, {'op': 'append', 't': 1, 'src': 0}],
        # BY DESIGN: t1[n] = t0[m] aliases two tables (and two columns of one table); the model has the same
        # operation and must predict the sharing pattern and every write-through exactly
        [{'op': 'ctor', 'cols': [(0, (2, [1, 2])), (1, (3, [3, 4]))], 'keep': None, 'conv': [], 'exc': [], 'copy': True},
         {'op': 'ctor', 'cols': [(0, (2, [5, 6]))], 'keep': None, 'conv': [], 'exc': [], 'copy': True},
         {'op': 'setitem_from', 't': 1, 'name': 0, 'src': 0, 'srcname': 0},
         {'op': 'ctor', 'cols': [(0, (2, [8, 9])), (1, (3, [7, 7]))], 'keep': None, 'conv': [], 'exc': [], 'copy': True},
         {'op': 'setsel', 't': 0, 'src': 2, 'sel': ('idx', [0, 1])},
         {'op': 'setitem_from', 't': 0, 'name': 4, 'src': 0, 'srcname': 1},
         {'op': 'setsel', 't': 0, 'src': 0, 'sel': ('idx', [1, 0])},
         {'op': 'sort', 't': 0, 'name': 0}, {'op': 'setsel', 't': 0, 'src': 2, 'sel': ('mask', [True, False])},
         {'op': 'from', 'src': 1, 'keep': None, 'conv': [], 'exc': []}, {'op': 'setitem_from', 't': 1, 'name': 9, 'src': 0, 'srcname': 0},
         {'op': 'setitem_from', 't': 1, 'name': 1, 'src': 0, 'srcname': 7}],
        # OPEN FINDINGS, hit on every run: tables without fields forget their length in the constructor;
        # selections of such tables are unchecked; a colliding rename drops a column silently
        [{'op': 'ctor', 'cols': [(0, (2, [1, 2, 3, 4, 5]))], 'keep': None, 'conv': [], 'exc': [], 'copy': True},
         {'op': 'remove', 't': 0, 'name': 0}, {'op': 'indices', 't': 0},
         {'op': 'from', 'src': 0, 'keep': None, 'conv': [], 'exc': []},
         {'op': 'select', 'src': 0, 'sel': ('idx', [99])},
         {'op': 'select', 'src': 0, 'sel': ('idx', [0, 4])},
         {'op': 'append_field', 't': 0, 'name': 1, 'buf': (3, [5, 4, 3, 2, 1])}, {'op': 'sort', 't': 0, 'name': 1}],
        [{'op': 'ctor', 'cols': [(0, (2, [1, 2, 3])), (1, (3, [4, 5, 6]))], 'keep': [], 'keepkind': 'list', 'conv': [], 'exc': [], 'copy': True},
         {'op': 'ctor', 'cols': [(0, (2, [1, 2, 3])), (1, (3, [10, 20, 30]))], 'keep': None, 'conv': [], 'exc': [], 'copy': True},
         {'op': 'rename', 't': 1, 'conv': [(0, 1)], 'must': True}, {'op': 'sort', 't': 1, 'name': 1}],
        # sort + append + indices, selection written back
        [two, {'op': 'indices', 't': 0}, {'op': 'sort', 't': 0, 'name': 0}, {'op': 'append', 't': 0, 'src': 0},
         {'op': 'indices', 't': 0}, {'op': 'select', 'src': 0, 'sel': ('idx', [5, 0])},
         {'op': 'setsel', 't': 0, 'src': 1, 'sel': ('idx', [1, 1])}, {'op': 'append', 't': 1, 'src': 0}, {'op': 'indices', 't': 1}],
    ]


def valdom_corpus():
    """deterministic sequences over non-integer / huge / NaN / float32-sensitive cells (tokens index POOL)"""
    out = []
    for vd in ('f64', 'i64'):
        dt, pool = POOL[vd]
        n = len(pool)
        allv = list(range(n))
        rev = allv[::-1]
        A = {'op': 'ctor', 'cols': [(0, (dt, allv)), (1, (dt, rev))], 'keep': None, 'conv': [], 'exc': [], 'copy': True}
        B = {'op': 'ctor', 'cols': [(0, (dt, rev[:4])), (1, (dt, allv[-4:]))], 'keep': None, 'conv': [], 'exc': [], 'copy': False,
             'srckind': 'ndarray'}
        out.append((vd, [A, B,
                         {'op': 'select', 'src': 0, 'sel': ('idx', list(range(2, n - 1)))},
                         {'op': 'setsel', 't': 0, 'src': 1, 'sel': ('idx', [0, 2, 4, n - 1])},
                         {'op': 'setsel', 't': 2, 'src': 1, 'sel': ('mask', [True, True, False, True, True] + [False] * (n - 8)), 'via_setitem': True},
                         {'op': 'append', 't': 1, 'src': 0}, {'op': 'sort', 't': 1, 'name': 0},
                         {'op': 'from', 'src': 1, 'keep': [1], 'keepkind': 'str', 'conv': [], 'exc': []},
                         {'op': 'rename', 't': 0, 'conv': [(0, 1), (1, 0)], 'must': True},
                         {'op': 'setitem', 't': 0, 'name': 0, 'buf': (dt, rev)}, {'op': 'append_field', 't': 2, 'name': 5, 'buf': (dt, allv[:n - 3])},
                         {'op': 'tidy', 't': 2, 'keep': [5, 1], 'keepkind': 'tuple'}, {'op': 'sort', 't': 0, 'name': 1},
                         {'op': 'ctor', 'cols': [(0, (dt, allv))], 'keep': None, 'conv': [], 'exc': [], 'copy': True, 'srckind': 'parquet'},
                         {'op': 'append', 't': 4, 'src': 0}]))
    return out


def cast_probes(ctx, DFRA):
    """dtype-changing operations on cells where the cast is NOT exact (fractions, 2**53+1, 16777217, 1e10, negative
    fractions): the result must be bit-identical to numpy's own `astype` / `np.append` (independent oracle)"""
    f = np.array([0.5, -0.5, 2.7, -2.7, 1e10, 16777217.0, 3.0, -0.0, 123456789.125])
    i = np.array([2 ** 53 + 1, -2 ** 53 - 1, 16777217, 3, -4, 0, 32768, 2 ** 40 + 1, 7], dtype=np.int64)
    F64, F32, I64, I32, I16 = (np.dtype(x) for x in (np.float64, np.float32, np.int64, np.int32, np.int16))

    def same(got, want, what):
        ctx.count('cast_probes')
        if got.dtype != want.dtype or got.tobytes() != want.tobytes():
            ctx.violation('DataFieldRecordArray.casts', 'cast-differs-from-numpy', f'{what}: {got.dtype} {got.tolist()[:6]} '
                          f'expected {want.dtype} {want.tolist()[:6]}', case={'probe': what},
                          predicate='a dtype conversion is numpy astype, nothing else')
    with np.errstate(all='ignore'):
        for (src, conv) in ((f, {F64: F32}), (f, {F64: I64}), (f, {F64: I16}), (i, {I64: F64}), (i, {I64: I32}), (i, {I64: F32}),
                            (f, {F64: I64, I64: F32}), (i, {I64: F64, F64: I16})):
            key = next(iter(conv))
            want = src.astype(conv[key])
            o = DFRA({'a': src.copy(), 'b': src.copy()})
            o.convert_dtypes(conv, except_fields=['b'])
            same(o['a'], want, f'convert_dtypes {conv}')
            same(o['b'], src, f'convert_dtypes except_fields {conv}')
            o = DFRA({'a': src.copy()})
            o.set_field_dtype('a', conv[key])
            same(o['a'], want, f'set_field_dtype {conv[key]}')
            for kw in ({'copy': True}, {'copy': False}):
                o = DFRA({'a': src.copy(), 'b': src.copy()}, dtype_conversions=conv, dtype_conversion_except_fields=['b'], **kw)
                same(o['a'], want, f'constructor dtype_conversions {conv} {kw}')
                same(o['b'], src, f'constructor except field {conv} {kw}')
                c = DFRA(o, dtype_conversions={o['a'].dtype: F64})
                same(c['a'], o['a'].astype(F64), f'copy with conversion back to float64 {conv}')
        # promotion in append, cast in set_selection (assignment into the column's dtype)
        o = DFRA({'a': i.copy()})
        o.append(DFRA({'a': f.copy()}))
        same(o['a'], np.append(i, f), 'append int64 + float64')
        o = DFRA({'a': f.astype(F32)})
        o.append(DFRA({'a': i.copy()}))
        same(o['a'], np.append(f.astype(F32), i), 'append float32 + int64')
        for tgt, srcv in ((f.copy(), i), (i.copy(), f), (f.astype(F32), f), (i.astype(I16), i)):
            o = DFRA({'a': tgt.copy()})
            want = tgt.copy()
            idx = np.array([0, 2, 4, 8])
            want[idx] = srcv[idx]
            o.set_selection(idx, DFRA({'a': srcv[idx]}))
            same(o['a'], want, f'set_selection {srcv.dtype} into {tgt.dtype}')
            o2 = DFRA({'a': tgt.copy()})
            m = np.array([True, False] * 4 + [True])
            want2 = tgt.copy()
            want2[m] = srcv[m]
            o2[m] = DFRA({'a': srcv[m]})
            same(o2['a'], want2, f'__setitem__ mask {srcv.dtype} into {tgt.dtype}')


def type_probes(ctx, DFRA):
    """argument type checks of the public methods: each call must raise TypeError and change nothing"""
    def fresh():
        return DFRA({'f0': np.array([3, 1, 2]), 'f1': np.array([1., 2., 3.])})
    other = fresh()
    probes = [
        ('__init__ keep_fields=3', lambda o: DFRA({'a': np.arange(2)}, keep_fields=3)),
        ('__init__ keep_fields=[1]', lambda o: DFRA({'a': np.arange(2)}, keep_fields=[1])),
        ('__init__ dtype_conversions=[]', lambda o: DFRA({'a': np.arange(2)}, dtype_conversions=[])),
        ('__init__ except_fields=3', lambda o: DFRA({'a': np.arange(2)}, dtype_conversion_except_fields=3)),
        ('__init__ data=object', lambda o: DFRA(object())),
        ('append ndarray', lambda o: o.append(np.arange(3))),
        ('append dict', lambda o: o.append({'f0': np.arange(3), 'f1': np.arange(3.)})),
        ('append_field name=3', lambda o: o.append_field(3, np.arange(3))),
        ('append_field list', lambda o: o.append_field('x', [1, 2, 3])),
        ('__setitem__ existing list', lambda o: o.__setitem__('f0', [1, 2, 3])),
        ('__setitem__ new list', lambda o: o.__setitem__('x', [1, 2, 3])),
        ('set_selection ndarray', lambda o: o.set_selection(np.array([0]), np.array([1]))),
        ('__setitem__ idx dict', lambda o: o.__setitem__(np.array([0]), {'f0': np.array([1]), 'f1': np.array([1.])})),
        ('set_field_dtype str', lambda o: o.set_field_dtype('f0', 'float64')),
        ('convert_dtypes list', lambda o: o.convert_dtypes([(np.dtype(np.int64), np.dtype(np.float64))])),
        ('convert_dtypes except=3', lambda o: o.convert_dtypes({}, except_fields=3)),
        ('tidy_up 3', lambda o: o.tidy_up(3)),
        ('tidy_up [3]', lambda o: o.tidy_up([3])),
    ]
    for what, f in probes:
        o = fresh()
        before = _table_state(o)
        ctx.count('type_probes')
        try:
            f(o)
            ctx.violation('DataFieldRecordArray.type-checks', 'type-check-missing', f'{what}: no TypeError raised',
                          case={'probe': what}, predicate='wrong argument types are refused with TypeError')
        except TypeError:
            pass
        except Exception as ex:
            ctx.violation('DataFieldRecordArray.type-checks', 'type-check-missing', f'{what}: {type(ex).__name__} instead of TypeError',
                          case={'probe': what}, predicate='wrong argument types are refused with TypeError')
        if _table_state(o) != before or _table_state(other) != _table_state(fresh()):
            ctx.violation('DataFieldRecordArray.type-checks', 'failed-op-changed-state', f'{what}: the table changed',
                          case={'probe': what}, predicate='a refused call changes nothing')


# ------------------------------------------------------------------ extension: as_numpy_record_array
REC_IMPORTS = IMPORTS.replace('M_Table.', 'M_Table M_TableRec.')
RECOBS = {}
REC_LIMIT = [0]


def rec_observe(impl):
    """as_numpy_record_array of every live table: (outcome, [(name, dtype tag)], rows)"""
    out = []
    for o in impl.objs:
        try:
            r = o.as_numpy_record_array()
            names = list(r.dtype.names or [])
            out.append(('Ok', [(fnum(n), DTN.get(r.dtype[n], -1)) for n in names],
                        [impl.enc(list(row)) for row in r.tolist()] if names else [[] for _ in range(len(r))]))
        except (KeyError, ValueError, TypeError, IndexError) as ex:
            out.append((type(ex).__name__, None, None))
    return out


def canon_rec(v):
    if isinstance(v, tuple) and v[0] == 'Ok':
        names, rows = v[1]
        return ('Ok', [tuple(p) for p in names], [list(r) for r in rows])
    if isinstance(v, tuple) and v[0] == 'Err':
        return (v[1], None, None)
    return ('unparsed', repr(v)[:100], None)


def rec_sequences(ctx, seqs):
    """record arrays at the end of whole operation sequences: real class vs model `rec_world (run ...)`"""
    todo = [(ops, RECOBS[id(tr)]) for ops, tr in seqs if id(tr) in RECOBS]
    if not todo or not ctx.model_ok:
        return
    exprs = ['rec_world (run empty_world ' + g_list(ops, lambda o: '(' + g_op(o) + ')') + ')' for ops, _ in todo]
    try:
        vals = common.coq_eval('c16rec', REC_IMPORTS, exprs, timeout=900)
    except RuntimeError as ex:
        ctx.broken.append({'kind': 'model-eval', 'error': str(ex)[:1500]})
        return
    for (ops, imp), v in zip(todo, vals):
        ctx.corr_cases += 1
        ctx.count('record_array_sequences')
        mod = [canon_rec(x) for x in v]
        imp_c = [(a, None if b is None else [tuple(p) for p in b], c) for a, b, c in imp]
        if mod != imp_c:
            ctx.disagree('DataFieldRecordArray.as_numpy_record_array', {'ops': ops, 'rec': True}, imp_c, mod,
                         'record arrays at the end of the sequence differ')


def rec_direct_cases(rng, n):
    """tables whose private state is set directly: mostly well-formed, plus malformed ones (a listed
    field without data, a column of the wrong length, a one-element column, no fields with len > 0)"""
    cases = []
    for k in range(n):
        nf = rng.randint(0, 4)
        ln = rng.choice([0, 1, 2, 3, 5])
        names = rng.sample(range(8), nf)
        cols = [(nm, (rng.randrange(4), rand_vals(rng, ln))) for nm in names]
        fl = list(names)
        kind = rng.choice(['ok', 'ok', 'ok', 'missing', 'short', 'one', 'long', 'reorder', 'lenonly'])
        if kind == 'missing':
            fl.insert(rng.randint(0, len(fl)), rng.choice([x for x in range(8) if x not in names]))
        elif kind in ('short', 'one', 'long') and cols:
            j = rng.randrange(len(cols))
            m = {'short': max(0, ln - 1), 'one': 1, 'long': ln + 2}[kind]
            cols[j] = (cols[j][0], (cols[j][1][0], rand_vals(rng, m)))
        elif kind == 'reorder':
            rng.shuffle(fl)
            if fl and rng.random() < 0.5:
                fl.pop()
        elif kind == 'lenonly':
            ln = ln + rng.choice([0, 1])
        cases.append({'rec_direct': True, 'kind': kind, 'cols': cols, 'fnl': fl, 'len': ln})
    return cases


def rec_direct_run(ctx, DFRA, case):
    o = DFRA({}, copy=False)
    o._data_fields = {fname(nm): np.array(b[1], dtype=DT[b[0]]) for nm, b in case['cols']}
    o._field_name_list = [fname(n) for n in case['fnl']]
    o._len = case['len']
    cols = {nm: b for nm, b in case['cols']}
    wellformed = (sorted(case['fnl']) == sorted(cols) and len(set(case['fnl'])) == len(case['fnl'])
                  and all(len(b[1]) == case['len'] for b in cols.values()))
    try:
        r = o.as_numpy_record_array()
        names = list(r.dtype.names or [])
        imp = ('Ok', [(fnum(n), DTN.get(r.dtype[n], -1)) for n in names],
               [[int(x) for x in row] for row in r.tolist()] if names else [[] for _ in range(len(r))])
        # independent predicate: row i is (column[i] for every listed field), broadcasting one-element columns
        want = [[(cols[n][1][i] if len(cols[n][1]) == case['len'] else cols[n][1][0]) for n in case['fnl']]
                for i in range(case['len'])]
        if [p[0] for p in imp[1]] != case['fnl'] or [p[1] for p in imp[1]] != [cols[n][0] for n in case['fnl']] or imp[2] != want:
            ctx.violation('DataFieldRecordArray.as_numpy_record_array', 'record-array-wrong',
                          f'rows {imp[2][:3]} expected {want[:3]}', case=case, impl=imp,
                          predicate='row i of the record array = (column[i] for every listed field)')
    except (KeyError, ValueError, TypeError, IndexError) as ex:
        imp = (type(ex).__name__, None, None)
        if wellformed:
            ctx.violation('DataFieldRecordArray.as_numpy_record_array', 'accessor-raises', f'{type(ex).__name__} on a well-formed table',
                          case=case, impl=imp, predicate='the record array of a well-formed table exists')
    store = g_list([b for _, b in case['cols']], g_buf)
    flds = g_list(list(enumerate(case['cols'])), lambda p: f'({g_z(p[1][0])}, {p[0]}%nat)')
    term = f'as_record {store} (mkobj {flds} {g_list(case["fnl"], g_z)} {g_z(case["len"])} None)'
    return imp, term


def rec_direct(ctx, DFRA, cases):
    runs = [rec_direct_run(ctx, DFRA, c) for c in cases]
    for c in cases:
        ctx.count('record_array_direct:' + c['kind'])
        ctx.case(c)
    if not ctx.model_ok:
        return
    try:
        vals = common.coq_eval('c16recd', REC_IMPORTS, [t for _, t in runs], timeout=600)
    except RuntimeError as ex:
        ctx.broken.append({'kind': 'model-eval', 'error': str(ex)[:1500]})
        return
    for c, (imp, _), v in zip(cases, runs, vals):
        ctx.corr_cases += 1
        mod = canon_rec(v)
        imp_c = (imp[0], None if imp[1] is None else [tuple(p) for p in imp[1]], imp[2])
        if mod != imp_c:
            ctx.disagree('DataFieldRecordArray.as_numpy_record_array', c, imp_c, mod, 'record array of a directly built table differs')


def cache_words():
    """deterministic words [observe; mutator; observe] for the two caches a table can carry (a sort memo, the
    indices array): for every mutator m, sort f / m (changing f where possible) / sort f, and
    indices / m / indices, and the mixed word; the `sorted and aligned with the returned permutation`
    and `indices == arange(len)` predicates run after every step"""
    A = {'op': 'ctor', 'cols': [(0, (2, [3, 1, 2])), (1, (3, [30, 10, 20]))], 'keep': None, 'conv': [], 'exc': [], 'copy': True}
    B = {'op': 'ctor', 'cols': [(0, (2, [9, 8, 7])), (1, (3, [1, 2, 3]))], 'keep': None, 'conv': [], 'exc': [], 'copy': True}
    muts = {
        'set_selection': ([{'op': 'setsel', 't': 0, 'src': 1, 'sel': ('idx', [0, 1, 2])}], 0),
        'set_selection_mask_setitem': ([{'op': 'setsel', 't': 0, 'src': 1, 'sel': ('mask', [True, True, True]), 'via_setitem': True}], 0),
        'set_selection_partial': ([{'op': 'select', 'src': 1, 'sel': ('idx', [0])},
                                   {'op': 'setsel', 't': 0, 'src': 2, 'sel': ('idx', [0])}], 0),
        'setitem': ([{'op': 'setitem', 't': 0, 'name': 0, 'buf': (2, [5, 4, 3])}], 0),
        'append': ([{'op': 'append', 't': 0, 'src': 1}], 0),
        'append_self': ([{'op': 'append', 't': 0, 'src': 0}], 0),
        'append_field': ([{'op': 'append_field', 't': 0, 'name': 2, 'buf': (1, [7, 8, 9])}], 0),
        'remove_other': ([{'op': 'remove', 't': 0, 'name': 1}], 0),
        'rename': ([{'op': 'rename', 't': 0, 'conv': [(0, 5)], 'must': True}], 5),
        'rename_swap': ([{'op': 'rename', 't': 0, 'conv': [(0, 1), (1, 0)], 'must': True}], 0),
        'convert': ([{'op': 'convert', 't': 0, 'conv': [(2, 3), (3, 1)], 'exc': None}], 0),
        'set_dtype': ([{'op': 'set_dtype', 't': 0, 'name': 0, 'dt': 0}], 0),
        'tidy': ([{'op': 'tidy', 't': 0, 'keep': [0]}], 0),
        'sort_other': ([{'op': 'sort', 't': 0, 'name': 1}, {'op': 'setsel', 't': 0, 'src': 1, 'sel': ('idx', [2, 1, 0])}], 0),
        'copy': ([{'op': 'from', 'src': 0, 'keep': None, 'conv': [], 'exc': []},
                  {'op': 'setsel', 't': 2, 'src': 1, 'sel': ('idx', [0, 1, 2])}, {'op': 'sort', 't': 2, 'name': 0},
                  {'op': 'indices', 't': 2}], 0),
        'select': ([{'op': 'select', 'src': 0, 'sel': ('idx', [0, 1, 2])},
                    {'op': 'setsel', 't': 2, 'src': 1, 'sel': ('idx', [0, 1, 2])}, {'op': 'sort', 't': 2, 'name': 0},
                    {'op': 'indices', 't': 2}], 0),
        'failed_set_selection': ([{'op': 'setsel', 't': 0, 'src': 1, 'sel': ('idx', [0, 7, 2])}], 0),
    }
    words = []
    for nm, (ms, f_after) in muts.items():
        so, so2 = {'op': 'sort', 't': 0, 'name': 0}, {'op': 'sort', 't': 0, 'name': f_after}
        ind = {'op': 'indices', 't': 0}
        words.append((nm, [A, B, so] + ms + [so2]))
        words.append((nm, [A, B, ind] + ms + [ind]))
        words.append((nm, [A, B, so, ind] + ms + [ind, so2, ind]))
        words.append((nm, [A, B, so] + ms + ms + [so2, so2]))
    return words


def evaluate(ctx, tag, seqs):
    if not ctx.model_ok:
        ctx.notes.append('model did not build: implementation-only predicates were evaluated')
        return
    import concurrent.futures
    # chunks of bounded total size, evaluated in parallel (one coqc per chunk)
    chunks, cur, size = [], [], 0
    for sq in seqs:
        e = g_seq(sq[0])
        w = len(e) * max(1, len(sq[0]))          # output grows with sequence length * state size
        if cur and (size + w > 400000 or len(cur) >= 400):
            chunks.append(cur)
            cur, size = [], 0
        cur.append((sq, e))
        size += w
    if cur:
        chunks.append(cur)

    def one(ci):
        return common.coq_eval(f'{tag}_{ci}', IMPORTS, [e for _, e in chunks[ci]], timeout=1200)
    try:
        with concurrent.futures.ThreadPoolExecutor(max_workers=6) as ex:
            res = list(ex.map(one, range(len(chunks))))
    except RuntimeError as ex:
        ctx.broken.append({'kind': 'model-eval', 'error': str(ex)[:1500]})
        return
    for ch, vals in zip(chunks, res):
        for ((ops, trace), _), v in zip(ch, vals):
            compare_sequence(ctx, ops, trace, v)


def run(ctx):
    from skyllh.core.storage import DataFieldRecordArray as DFRA
    rng = ctx.rng
    seqs = []
    RECOBS.clear()
    REC_LIMIT[0] = 10 ** 6
    for ops in corpus():
        seqs.append(run_sequence(ctx, DFRA, ops))
        ctx.count('corpus_sequences')
    type_probes(ctx, DFRA)
    cast_probes(ctx, DFRA)
    for nm, ops in cache_words():
        seqs.append(run_sequence(ctx, DFRA, ops))
        ctx.count('cache_words')
    REC_LIMIT[0] = 0
    # bounded-exhaustive
    base = ['append01', 'addcol', 'remove0', 'rename13', 'select', 'setsel0L', 'sort', 'copy', 'indices', 'setselL0',
            'selblock', 'selmask', 'copyempty', 'copyone']
    if ctx.thorough():
        seqs += exhaustive(ctx, DFRA, ['append01', 'addcol', 'remove0', 'rename13', 'setsel0L', 'sort', 'copy', 'indices',
                                       'setselL0', 'selblock', 'copyempty', 'tidy', 'convert', 'append10'], 4, False)
        seqs += exhaustive(ctx, DFRA, base + ['tidy', 'convert', 'append10', 'setitem1'], 3, False)
        seqs += exhaustive(ctx, DFRA, ['append01', 'addcol', 'remove0', 'rename13', 'select', 'setsel0L', 'sort', 'copy'], 5, True)
        seqs += exhaustive(ctx, DFRA, ['append01', 'rename13', 'select', 'setsel0L', 'sort', 'indices'], 6, True)
    else:
        seqs += exhaustive(ctx, DFRA, ['append01', 'addcol', 'remove0', 'rename13', 'selblock', 'setsel0L', 'sort'], 4, False)
        seqs += exhaustive(ctx, DFRA, ['select', 'selblock', 'selmask', 'setsel0L', 'setselL0', 'append01', 'indices'], 3, False)
        seqs += exhaustive(ctx, DFRA, ['copyempty', 'copyone', 'copy', 'remove0', 'rename13', 'addcol', 'append01'], 3, False)
        seqs += exhaustive(ctx, DFRA, base + ['tidy', 'convert', 'append10', 'setitem1'], 2, False)
    # random
    nrand = ctx.budget(120, 1200)
    REC_LIMIT[0] = len(RECOBS) + ctx.budget(60, 400)
    for k in range(nrand):
        maxlen = rng.choice([3, 6, 10, 20, 40, 40])
        mp = rng.choice([0.0, 0.05, 0.15, 0.4])
        ctx.count(f'random_maxlen:{maxlen}')
        vd = rng.choice([None, None, None, 'f64', 'i64'])
        if vd:
            ctx.count('valdom_sequences:' + vd)
            seqs.append(run_sequence(ctx, DFRA, lambda impl: to_valdom(rng, gen_random_op(ctx, rng, impl, mp), vd),
                                     maxlen=maxlen, valdom=vd))
        else:
            seqs.append(run_sequence(ctx, DFRA, lambda impl: gen_random_op(ctx, rng, impl, mp), maxlen=maxlen))
    for vd, ops in valdom_corpus():
        seqs.append(run_sequence(ctx, DFRA, ops, valdom=vd))
        ctx.count('valdom_corpus')
    for ops, trace in seqs:
        ctx.case([g_op(o) for o in ops], nontrivial=len(ops) >= 2)
    for ops, trace in seqs[-3:]:
        ctx.sample({'ops': [g_op(o)[:120] for o in ops[:8]], 'outcomes': [t[0] for t in trace[:8]]})
    evaluate(ctx, 'c16', seqs)
    rec_sequences(ctx, seqs)
    rec_direct(ctx, DFRA, rec_direct_cases(rng, ctx.budget(200, 2000)))


def replay(ctx, rp):
    from skyllh.core.storage import DataFieldRecordArray as DFRA
    c = rp.get('case') or {}
    if c.get('rec_direct'):
        c['cols'] = [(n, tuple(b)) for n, b in c['cols']]
        return rec_direct(ctx, DFRA, [c])
    ops = c.get('ops')
    if not ops:
        ctx.notes.append('replay file has no concrete input (broken obligation): re-running the full check')
        return run(ctx)

    def fix(o):
        o = dict(o)
        if 'sel' in o:
            o['sel'] = tuple(o['sel'])
        if 'cols' in o:
            o['cols'] = [(n, tuple(b)) for n, b in o['cols']]
        if 'buf' in o:
            o['buf'] = tuple(o['buf'])
        if 'conv' in o:
            o['conv'] = [tuple(p) for p in o['conv']]
        o.pop('perm', None)
        return o
    RECOBS.clear()
    REC_LIMIT[0] = 1
    seq = run_sequence(ctx, DFRA, [fix(o) for o in ops])
    ctx.case([g_op(o) for o in seq[0]])
    evaluate(ctx, 'c16r', [seq])
    rec_sequences(ctx, [seq])
