"""C02 — implementation side: the REAL skyllh classes wired together for one layout.

Real (unchanged) code on the path from the parameter declaration to the returned
gradient vector: Parameter, ParameterModelMapper (map_param,
create_src_params_recarray, is_global_fitparam_a_local_param), SourceHypoGroupManager,
TrialDataManager (initialize_trial, broadcasts, get_values_mask_for_source_mask),
SingleParamFluxPointLikeSourceI3DetSigYield.__call__ (on a RectBivariateSpline built
from a table), SrcDetSigYieldWeightsService, DatasetSignalWeightFactorsService,
SplinedI3EnergySigSetOverBkgPDFRatio (get_ratio / get_gradient / interpolation
plumbing) with Linear1D / Parabola1D GridManifoldInterpolationMethod over a
table-driven log-ratio function, SigOverBkgPDFRatio over stub PDFs returning
prescribed arrays, PDFRatioProduct, SourceWeightedPDFRatio,
ZeroSigH0SingleDatasetTCLLHRatio, MultiDatasetTCLLHRatio.
Stubs (only where an abstract base / heavy data object must be filled in): the two
PDFs of the spatial ratio, the table function behind the energy ratio, the yield
table, the detector-yield service holder, the event selection."""
import math

import numpy as np
import scipy.interpolate

LOCAL = {10: 'gamma', 11: 'beta', 1: 'ns', 12: 'delta'}     # model name (int) -> local name


def local_name(n):
    return LOCAL.get(n, f'loc{n}')


def global_name(n):
    return 'ns' if n == 0 else f'gp{n}'


class TableFunc:
    """Deterministic smooth function of (source, event-key, grid value) standing for the
    log PDF ratio on the parameter grid ("table-driven": evaluated only at grid points)."""
    def __init__(self, seed, scale=0.35):
        self.seed = seed
        self.scale = scale

    def __call__(self, k, e, x):
        a = 0.37 * ((self.seed * 31 + k * 17 + e * 7) % 23) + 0.2
        b = 0.11 * ((self.seed * 13 + k * 5 + e * 3) % 19) + 0.5
        return self.scale * math.sin(a + b * x) + 0.05 * (x - 2.0) * ((k + e + self.seed) % 3 - 1)


def make_world(case):
    """Builds the real objects for `case` (see harness/c02.py gen_case)."""
    from skyllh.core.config import Config
    from skyllh.core.binning import BinningDefinition
    from skyllh.core.detsigyield import DetSigYieldBuilder
    from skyllh.core.flux_model import SteadyPointlikeFFM
    from skyllh.core.interpolate import (Linear1DGridManifoldInterpolationMethod,
                                         Parabola1DGridManifoldInterpolationMethod)
    from skyllh.core.llhratio import MultiDatasetTCLLHRatio, ZeroSigH0SingleDatasetTCLLHRatio
    from skyllh.core.minimizer import LBFGSMinimizerImpl, Minimizer
    from skyllh.core.parameters import Parameter, ParameterGrid, ParameterGridSet, ParameterModelMapper
    from skyllh.core.pdf import PDF, IsBackgroundPDF, IsSignalPDF
    from skyllh.core.pdfratio import PDFRatioProduct, SigOverBkgPDFRatio, SourceWeightedPDFRatio
    from skyllh.core.services import (DatasetSignalWeightFactorsService, DetSigYieldService,
                                      SrcDetSigYieldWeightsService)
    from skyllh.core.source_hypo_grouping import SourceHypoGroup, SourceHypoGroupManager
    from skyllh.core.source_model import PointLikeSource
    from skyllh.core.storage import DataFieldRecordArray
    from skyllh.core.trialdata import TrialDataManager
    from skyllh.i3.detsigyield import SingleParamFluxPointLikeSourceI3DetSigYield
    from skyllh.i3.pdfratio import SplinedI3EnergySigSetOverBkgPDFRatio

    cfg = Config()
    W = type('World', (), {})()
    W.cfg = cfg
    nsrc = case['n_src']
    W.sources = [PointLikeSource(name=f'S{k}', ra=0.1 * k, dec=case['decs'][k], weight=case['weights'][k])
                 for k in range(nsrc)]

    class NoBuilder(DetSigYieldBuilder):
        def construct_detsigyield(self, **kw):
            return None

    fluxmodel = SteadyPointlikeFFM(Phi0=1, energy_profile=None, cfg=cfg)
    shgs = []
    lo = 0
    for (n, _y) in case['groups']:
        shgs.append(SourceHypoGroup(sources=W.sources[lo:lo + n], fluxmodel=fluxmodel,
                                    detsigyield_builders=NoBuilder(cfg=cfg), sig_gen_method=None))
        lo += n
    W.shg_mgr = SourceHypoGroupManager(shgs)

    # ---- parameters, in declaration order
    W.pmm = ParameterModelMapper(models=W.sources)
    W.map_errors = []
    for d in case['decls']:
        if d['fixed']:
            p = Parameter(global_name(d['name']), d['val'])
        else:
            lo = d['val'] if d.get('at_bound') else d['val'] - 10.0
            p = Parameter(global_name(d['name']), d['val'], lo, d['val'] + 10.0)
        models = [W.sources[k] for k, nm in enumerate(d['names']) if nm is not None]
        mpn = [local_name(nm) if nm is not None else '_' for nm in d['names']]
        try:
            W.pmm.map_param(p, models=models, model_param_names=mpn)
            W.map_errors.append(None)
        except Exception as ex:        # noqa: BLE001
            W.map_errors.append(type(ex).__name__)

    # ---- detector signal yields: the real spline-based class on a table

    def make_yield(pname, seed):
        y = object.__new__(SingleParamFluxPointLikeSourceI3DetSigYield)
        y._param_names = (pname,)
        y._sin_dec_binning = BinningDefinition('sin_dec', np.linspace(-1, 1, 9))
        sd = np.linspace(-1, 1, 9)
        pg = np.linspace(-1.0, 6.0, 29)
        tab = np.array([[0.3 * math.sin(0.9 * a + 0.05 * seed) + 0.21 * b * (1 + 0.2 * math.cos(seed + a))
                         + 0.4 * math.sin(0.9 * b + seed) for b in pg] for a in sd])
        y._log_spl_sinDec_param = scipy.interpolate.RectBivariateSpline(sd, pg, tab, kx=3, ky=3, s=0)
        return y

    nds = case['n_ds']
    arr = np.empty((nds, len(shgs)), dtype=object)
    for j in range(nds):
        for g, (n, yname) in enumerate(case['groups']):
            arr[j, g] = make_yield(local_name(yname), 3 * j + g) if yname is not None else _ConstYield(1.0 + 0.5 * j + 0.25 * g)
    svc = object.__new__(DetSigYieldService)
    svc._shg_mgr = W.shg_mgr
    svc._arr = arr
    svc._dataset_list = []
    svc._data_list = []
    W.dsy_service = svc
    W.a_service = SrcDetSigYieldWeightsService(detsigyield_service=svc)
    W.f_service = DatasetSignalWeightFactorsService(W.a_service)
    minimizer = Minimizer(LBFGSMinimizerImpl(cfg=cfg))

    # ---- per dataset: trial data, PDF ratios, llh ratio
    class Sel:
        """event selection stub returning prescribed (source, event) pairs"""
        def __init__(self, keep, pairs):
            self.keep, self.pairs = keep, pairs

        def select_events(self, events, tl=None):
            sel = events[np.array(self.keep, dtype=np.int64)] if len(self.keep) else events[np.zeros(0, dtype=np.int64)]
            return (sel, (np.array([p[0] for p in self.pairs], dtype=np.int64),
                          np.array([p[1] for p in self.pairs], dtype=np.int64)))

    class StubPDF(PDF):
        def __init__(self, field, **kw):
            super().__init__(pmm=None, param_set=None, cfg=cfg, **kw)
            self.field = field

        def assert_is_valid_for_trial_data(self, tdm, tl=None, **kw):
            pass

    class SigPDF(StubPDF, IsSignalPDF):
        def get_pd(self, tdm, params_recarray=None, tl=None):
            (_, evt_idxs) = tdm.src_evt_idxs
            return (np.array(self.values, dtype=np.float64), dict())

    class BkgPDF(StubPDF, IsBackgroundPDF):
        def get_pd(self, tdm, params_recarray=None, tl=None):
            return (np.array(tdm.get_data(self.field), dtype=np.float64), dict())

    class EnergyRatio(SplinedI3EnergySigSetOverBkgPDFRatio):
        """the real class; only the constructor (which needs histogram PDF sets) and the
        spline lookup behind the interpolation grid are replaced"""
        def __init__(self, pname, method_cls, table, evkeys):
            # PDFRatio.__init__
            from skyllh.core.pdfratio import PDFRatio
            PDFRatio.__init__(self, sig_param_names=[pname], bkg_param_names=[], cfg=cfg)
            grid = ParameterGrid(pname, np.round(np.arange(-1.0, 6.0001, 0.25), 6))
            pgs = ParameterGridSet([grid])
            self._sig_pdf_set = type('PS', (), {'param_grid_set': pgs})()
            self._data_field_names = ['ek']
            self._interpolmethod = method_cls(func=self._evaluate_splines, param_grid_set=pgs)
            self._interpol_param_names = pgs.params_name_list
            self._cache = self._create_cache(None, None, None, None)
            self._table = table
            self.n_func_calls = 0

        def initialize_for_new_trial(self, tdm, tl=None, **kw):
            pass

        def _evaluate_splines(self, tdm, eventdata, gridparams_recarray, n_values):
            (src_idxs, evt_idxs) = tdm.src_evt_idxs
            ek = eventdata[0]
            pname = self._interpol_param_names[0]
            xs = gridparams_recarray[pname]
            out = np.empty(n_values, dtype=np.float64)
            self.n_func_calls += 1
            for v in range(n_values):
                k = int(src_idxs[v])
                x = float(xs[0] if len(xs) == 1 else xs[k])
                out[v] = self._table(k, int(ek[evt_idxs[v]]), x)
            return out

    from skyllh.core.signalpdf import SignalMultiDimGridPDFSet

    class SigSet(SignalMultiDimGridPDFSet):
        """the real SignalMultiDimGridPDFSet (get_pd, incl. the mapping of the interpolation
        gradients to fit parameter ids, is the code under test); only the constructor (which
        needs a set of MultiDimGridPDF objects) and the PDF lookup behind the grid are replaced"""
        def __init__(self, pname, method_cls, table):
            self._cfg = cfg
            self._pmm = W.pmm
            self._param_set = type('PSet', (), {'params_name_list': [pname]})()
            grid = ParameterGrid(pname, np.round(np.arange(-1.0, 6.0001, 0.25), 6))
            pgs = ParameterGridSet([grid])
            self._param_grid_set = pgs
            self._interpol_method = method_cls(func=self._table_pd, param_grid_set=pgs)
            self._interpol_param_names = pgs.params_name_list
            self._cache_eventdata = None
            self._table = table

        @property
        def axes(self):
            return None

        def initialize_for_new_trial(self, tdm, tl=None, **kw):
            self._cache_eventdata = np.vstack([tdm['ek']])

        def assert_is_valid_for_trial_data(self, tdm, tl=None, **kw):
            pass

        def _table_pd(self, tdm, eventdata, gridparams_recarray, n_values, **kw):
            (src_idxs, evt_idxs) = tdm.src_evt_idxs
            ek = eventdata[0]
            xs = gridparams_recarray[self._interpol_param_names[0]]
            out = np.empty(n_values, dtype=np.float64)
            for v in range(n_values):
                k = int(src_idxs[v])
                x = float(xs[0] if len(xs) == 1 else xs[k])
                out[v] = math.exp(self._table(k, int(ek[evt_idxs[v]]), x))
            return out

    class SigPDFp(StubPDF, IsSignalPDF):
        """parameter dependent signal density s0_v * exp(cs * x_k): pd and its gradients keyed by
        the fit parameter id (stub of the value / derivative only; the quotient rule under test is
        SigOverBkgPDFRatio.get_gradient)"""
        def __init__(self, pname, s0, cs):
            StubPDF.__init__(self, 'sigp')
            self._param_set = type('PSet', (), {'params_name_list': [pname]})()
            self.pname, self.s0, self.cs = pname, np.array(s0, dtype=np.float64), cs

        def get_pd(self, tdm, params_recarray=None, tl=None):
            (src_idxs, _e) = tdm.src_evt_idxs
            x = params_recarray[self.pname][src_idxs]
            g = params_recarray[self.pname + ':gpidx'][src_idxs]
            pd = self.s0 * np.exp(self.cs * x)
            grads = dict()
            for key in sorted(set(int(q) for q in g if q > 0)):
                grads[key - 1] = np.where(g == key, self.cs * pd, 0.0)
            return (pd, grads)

    class BkgPDFp(StubPDF, IsBackgroundPDF):
        """parameter dependent background density b0_e * exp(cb * p) with p a GLOBAL fit parameter,
        read from a trial-data field that depends on global fit parameters (recomputed by evaluate)"""
        def __init__(self, b0field, cb, gname, fixed_val, lname):
            StubPDF.__init__(self, 'bkgp')
            # the local parameter name through which PDFRatioProduct recognises the dependence
            self._param_set = type('PSet', (), {'params_name_list': [lname]})()
            self.b0field, self.cb, self.gname, self.fixed_val = b0field, cb, gname, fixed_val

        def get_pd(self, tdm, params_recarray=None, tl=None):
            b0 = np.array(tdm.get_data(self.b0field), dtype=np.float64)
            if self.fixed_val is not None:
                return (b0 * math.exp(self.cb * self.fixed_val), dict())
            pval = np.array(tdm.get_data('bgp'), dtype=np.float64)
            pd = b0 * np.exp(self.cb * pval)
            return (pd, {int(W.pmm.get_gflp_idx(self.gname)): self.cb * pd})

    W.tdms, W.llh, W.eratios, W.swr, W.sob, W.sigsets, W.sobp = [], [], [], [], [], [], []
    for j, ds in enumerate(case['datasets']):
        n_raw = ds['n_raw']
        ev = DataFieldRecordArray(np.array(
            [(i, ds['bkg'][i], 0.5 + 0.25 * ((i * 7) % 5), (ds['sobp']['b0'][i] if ds.get('sobp') else 1.0)) for i in range(n_raw)],
            dtype=[('ek', np.int64), ('bkg', np.float64), ('bkg2', np.float64), ('b0p', np.float64)]))
        tdm = TrialDataManager()
        tdm.initialize_trial(shg_mgr=W.shg_mgr, pmm=W.pmm, events=ev, n_events=ds['N'],
                             evt_sel_method=Sel(ds['keep'], ds['pairs']))
        sig = SigPDF('sig')
        sig.values = ds['sig']
        bkg = BkgPDF('bkg')
        sob = SigOverBkgPDFRatio(sig_pdf=sig, bkg_pdf=bkg, same_axes=False, zero_bkg_ratio_value=ds.get('zero_bkg', 1.0), cfg=cfg)
        ers = []
        ratio = sob
        sgs = []
        for ent in ds['eratios']:
            (pn, meth, seed) = ent[:3]
            kind = ent[3] if len(ent) > 3 else 'i3'
            mcls = Linear1DGridManifoldInterpolationMethod if meth == 'linear' else Parabola1DGridManifoldInterpolationMethod
            if kind == 'sigprod':
                # SignalPDFProduct of two PDF sets interpolated in the SAME parameter: the real PDFProduct.get_pd
                # (product rule of the densities) on two real SignalMultiDimGridPDFSet.get_pd
                from skyllh.core.pdf import SignalPDFProduct
                sg1 = SigSet(local_name(pn), mcls, TableFunc(seed))
                sg2 = SigSet(local_name(pn), mcls, TableFunc(seed + 7, scale=0.2))
                prod = object.__new__(SignalPDFProduct)
                prod._pdf1, prod._pdf2, prod._cfg, prod._pmm, prod._axes = sg1, sg2, cfg, W.pmm, None
                prod._param_set = type('PSet', (), {'params_name_list': [local_name(pn)]})()
                prod.initialize_for_new_trial(tdm)
                sgs += [sg1, sg2]
                er = SigOverBkgPDFRatio(sig_pdf=prod, bkg_pdf=BkgPDF('bkg2'), same_axes=False, cfg=cfg)
            elif kind == 'sigset':
                sg = SigSet(local_name(pn), mcls, TableFunc(seed))
                sg.initialize_for_new_trial(tdm)
                sgs.append(sg)
                bkg2 = BkgPDF('bkg2')
                er = SigOverBkgPDFRatio(sig_pdf=sg, bkg_pdf=bkg2, same_axes=False, cfg=cfg)
            else:
                er = EnergyRatio(local_name(pn), mcls, TableFunc(seed), None)
                ers.append(er)
            ratio = PDFRatioProduct(ratio, er, cfg=cfg)
        W.sigsets.append(sgs)
        if ds.get('const_product'):
            sig2 = SigPDF('sig2')
            sig2.values = [1.0 + 0.125 * ((3 * v) % 7) for v in range(len(ds['pairs']))]
            sob2 = SigOverBkgPDFRatio(sig_pdf=sig2, bkg_pdf=BkgPDF('bkg2'), same_axes=False, cfg=cfg)
            ratio = PDFRatioProduct(ratio, sob2, cfg=cfg)
        sp = ds.get('sobp')
        if sp is not None:
            sigp = SigPDFp(local_name(sp['pn']), sp['s0'], sp['cs'])
            gname = global_name(sp['gname'])
            bkgp = BkgPDFp('b0p', sp['cb'], gname, sp['fixed_val'], local_name(sp['bn']))
            if sp['fixed_val'] is None:
                def _mk(gn):
                    return lambda tdm, shg_mgr, pmm, global_fitparams_dict=None: np.full(
                        (tdm.n_selected_events,), float(global_fitparams_dict[gn]))
                tdm.add_data_field('bgp', _mk(gname), global_fitparam_names=[gname])
            sobp = SigOverBkgPDFRatio(sig_pdf=sigp, bkg_pdf=bkgp, same_axes=False,
                                      zero_bkg_ratio_value=sp.get('zero_bkg', 1.0), cfg=cfg)
            ratio = PDFRatioProduct(ratio, sobp, cfg=cfg)
            W.sobp.append((sobp, sigp, bkgp))
        else:
            W.sobp.append(None)
        swr = SourceWeightedPDFRatio(dataset_idx=j, src_detsigyield_weights_service=W.a_service, pdfratio=ratio, cfg=cfg)
        llh = ZeroSigH0SingleDatasetTCLLHRatio(pmm=W.pmm, minimizer=minimizer, shg_mgr=W.shg_mgr, tdm=tdm,
                                               pdfratio=swr, cfg=cfg)
        llh.initialize_for_new_trial()
        if ds.get('gf_field') is not None:
            # a data field that depends on a global fit parameter (recomputed inside evaluate)
            tdm.add_data_field(
                'gf', lambda tdm, shg_mgr, pmm, global_fitparams_dict=None: np.full(
                    (tdm.n_selected_events,), float(global_fitparams_dict[global_name(ds['gf_field'])])),
                global_fitparam_names=[global_name(ds['gf_field'])])
        W.tdms.append(tdm)
        W.llh.append(llh)
        W.eratios.append(ers)
        W.swr.append(swr)
        W.sob.append(sob)
    W.multi = MultiDatasetTCLLHRatio(pmm=W.pmm, minimizer=minimizer, src_detsigyield_weights_service=W.a_service,
                                     ds_sig_weight_factors_service=W.f_service, llhratio_list=W.llh, cfg=cfg)
    return W


class _ConstYield:
    """a detector signal yield that does not depend on any parameter"""
    param_names = ()

    def __init__(self, c):
        self.c = c

    def sources_to_recarray(self, sources):
        r = np.empty((len(sources),), dtype=[('dec', np.float64)])
        for i, s in enumerate(sources):
            r['dec'][i] = s.dec
        return r

    def __call__(self, src_recarray, src_params_recarray):
        return (np.full((len(src_recarray),), self.c), dict())


def evaluate_multi(W, vec):
    """MultiDatasetTCLLHRatio.evaluate at vec -> (value, grads)"""
    (v, g) = W.multi.evaluate(np.array(vec, dtype=np.float64))
    return float(v), [float(x) for x in g]


def evaluate_single(W, j, vec):
    """the j-th single-dataset ratio evaluated on its own (the services are refreshed first,
    as Analysis does before calling evaluate)"""
    vec = np.array(vec, dtype=np.float64)
    rec = W.pmm.create_src_params_recarray(vec)
    W.a_service.calculate(rec)
    W.f_service.calculate()
    (v, g) = W.llh[j].evaluate(vec, src_params_recarray=rec)
    return float(v), [float(x) for x in g]
